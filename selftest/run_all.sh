#!/bin/sh
# Runs every mutant against its check (4 in parallel) and writes selftest/RESULTS.txt
cd "$(dirname "$0")/.."
OUT=selftest/RESULTS.txt
: > $OUT.tmp
ls selftest/mutants/*.patch | while read m; do
  id=$(basename "$m" | cut -d- -f1)
  echo "$id $m"
done | xargs -P 4 -L 1 sh -c 'r=$(SKIP_SUITE=${SKIP_SUITE:-} ./selftest/mutant.sh "$0" "$1" 2>&1 | head -1 | cut -c1-220); echo "$r" >> selftest/RESULTS.txt.tmp'
sort $OUT.tmp > $OUT; rm -f $OUT.tmp
grep -c "^CAUGHT" $OUT; grep -v "^CAUGHT" $OUT
