#!/usr/bin/env python3
"""mk.py <name> <file> <old> <new> [<file2> <old2> <new2> ...]: write selftest/mutants/<name>.patch
replacing the first occurrence of <old> by <new> in /repo/<file> (working tree is not touched)."""
import sys, difflib, os
name = sys.argv[1]
args = sys.argv[2:]
out = []
for i in range(0, len(args), 3):
    f, old, new = args[i:i+3]
    old = old.encode().decode('unicode_escape'); new = new.encode().decode('unicode_escape')
    src = open(os.path.join('/repo', f)).read()
    if old not in src:
        sys.exit("pattern not found in %s: %r" % (f, old))
    dst = src.replace(old, new, 1)
    out += difflib.unified_diff(src.splitlines(True), dst.splitlines(True), 'a/' + f, 'b/' + f)
open('/verif/selftest/mutants/%s.patch' % name, 'w').write(''.join(out))
print("wrote", name)
