#!/bin/sh
# usage: selftest/seed_eval.sh <ID> <worktree> <name> [other check ids...]
# Confirms a sub-agent's seeded change (builds, suite passes, demo passes without / fails with),
# runs ./check <ID> (and optional further checks) against it, stores everything under seeded/<name>/.
ID=$1; WT=$2; NAME=$3; shift 3; OTHERS="$*"
export GOFLAGS=-mod=mod GOPROXY=off GOSUMDB=off GOTOOLCHAIN=local
V=$(cd "$(dirname "$0")/.." && pwd)
D=$(mktemp -d /tmp/verif-seed-XXXXXX)
trap 'rm -rf "$D"' EXIT
PATCH=$WT/SEED/patch.diff
[ -f "$PATCH" ] || { echo "no patch"; exit 3; }
BASE=$(git -C "$WT" rev-parse HEAD)
mkdir -p "$D/clean" "$D/mut"
git -C /repo archive "$BASE" | tar -x -C "$D/clean"
git -C /repo archive "$BASE" | tar -x -C "$D/mut"
( cd "$D/mut" && git apply --unsafe-paths "$PATCH" 2>/dev/null || patch -p1 -s < "$PATCH" ) || { echo "PATCH-DOES-NOT-APPLY"; exit 3; }
# demonstration files = untracked files of the worktree outside SEED/
DEMOS=$(git -C "$WT" status --porcelain | grep '^??' | awk '{print $2}' | grep -v '^SEED' )
PKGS=""
for f in $DEMOS; do
  if [ -d "$WT/$f" ]; then continue; fi
  mkdir -p "$D/clean/$(dirname $f)" "$D/mut/$(dirname $f)"
  cp "$WT/$f" "$D/clean/$f"; cp "$WT/$f" "$D/mut/$f"
  PKGS="$PKGS ./$(dirname $f)/"
done
PKGS=$(echo $PKGS | tr ' ' '\n' | sort -u | tr '\n' ' ')
res() { echo "$1" | tee -a "$D/verdict.txt"; }
( cd "$D/mut" && go build ./... ) >"$D/build.log" 2>&1 && res "build-with-change: ok" || { res "build-with-change: FAILS"; cat "$D/build.log" | tail -5; }
( cd "$D/mut" && go test -vet=off -count=1 -skip TestSeedDemo ./internal/pfcp/... ./internal/report/... ./internal/gtpv1/... ./internal/forwarder/perio/... && go test -vet=off -count=1 -skip TestSeedDemo -run 'TestParseFlowDesc|Test_convertSlice' ./internal/forwarder/ ) >"$D/suite.log" 2>&1 && res "suite-with-change: passes" || { res "suite-with-change: FAILS"; tail -15 "$D/suite.log"; }
( cd "$D/clean" && go test -vet=off -count=1 -run TestSeedDemo $PKGS ) >"$D/demo-clean.log" 2>&1 && res "demo-without-change: passes" || { res "demo-without-change: FAILS"; tail -15 "$D/demo-clean.log"; }
( cd "$D/mut" && go test -vet=off -count=1 -run TestSeedDemo $PKGS ) >"$D/demo-mut.log" 2>&1 && res "demo-with-change: PASSES (not a demonstration)" || res "demo-with-change: fails (as required)"
# run the checks against the current /repo working tree + the patch (not the agent's base, which may be older)
rsync -a --exclude .git /repo/ "$D/cur/"
if [ -f "$V/seeded/$NAME/patch-on-current-tree.diff" ]; then
  # /repo has moved on since the agent's base (later fix: commits): a hand-rebased copy of the same change
  ( cd "$D/cur" && patch -p1 -s < "$V/seeded/$NAME/patch-on-current-tree.diff" ) && res "patch-on-current-tree: rebased copy applied" || res "patch-on-current-tree: DOES NOT APPLY"
else
  ( cd "$D/cur" && patch -p1 -s < "$PATCH" ) || res "patch-on-current-tree: DOES NOT APPLY"
fi
for c in $ID $OTHERS; do
  ( cd "$V" && VERIF_REPO="$D/cur" VERIF_EVIDENCE_DIR="$D/ev" VERIF_REPLAY_SAVE_DIR="$D/rp" ./check $c >"$D/check-$c.out" 2>"$D/check-$c.err" ); rc=$?
  case $rc in
    1) res "check $c: CAUGHT $(grep VIOLATION-DETAIL "$D/check-$c.err" | head -1 | sed 's/.*VIOLATION-DETAIL //' | cut -c1-300)";;
    0) res "check $c: MISSED";;
    *) res "check $c: INCONCLUSIVE rc=$rc $(tail -3 "$D/check-$c.err" | tr '\n' ' ' | cut -c1-300)";;
  esac
done
mkdir -p "$V/seeded/$NAME"
cp "$PATCH" "$V/seeded/$NAME/patch.diff"
for f in $DEMOS; do [ -f "$WT/$f" ] && cp "$WT/$f" "$V/seeded/$NAME/$(basename $f)"; done
[ -f "$WT/SEED/README.md" ] && cp "$WT/SEED/README.md" "$V/seeded/$NAME/AGENT-README.md"
cp "$D/verdict.txt" "$V/seeded/$NAME/verdict.txt"
echo "$DEMOS" > "$V/seeded/$NAME/demo-placement.txt"
