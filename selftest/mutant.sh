#!/bin/sh
# usage: selftest/mutant.sh <ID> <patch> [tier]
# Applies <patch> to a scratch copy of /repo, checks that the repository's own
# test suite still passes there, runs ./check <ID> against the copy and prints
# CAUGHT / MISSED.  The copy is removed afterwards.  Nothing touches /repo.
ID=$1; PATCH=$(realpath "$2"); TIER=${3:-quick}
export GOFLAGS=-mod=mod GOPROXY=off GOSUMDB=off GOTOOLCHAIN=local
D=$(mktemp -d /tmp/verif-mutant-XXXXXX)
trap 'rm -rf "$D"' EXIT
rsync -a --exclude .git /repo/ "$D/repo/"
( cd "$D/repo" && patch -p1 -s < "$PATCH" ) || { echo "PATCH-FAILED $PATCH"; exit 3; }
if [ -z "$SKIP_SUITE" ]; then
  ( cd "$D/repo" && go build ./... ) >"$D/build.log" 2>&1 || { echo "MUTANT-DOES-NOT-BUILD $PATCH"; tail -5 "$D/build.log"; exit 3; }
  ( cd "$D/repo" && go test -vet=off -count=1 ./internal/pfcp/... ./internal/report/... ./internal/gtpv1/... ./internal/forwarder/perio/... >"$D/suite.log" 2>&1 )
  ( cd "$D/repo" && go test -vet=off -count=1 -run 'TestParseFlowDesc|Test_convertSlice' ./internal/forwarder/ >>"$D/suite.log" 2>&1 ) || { echo "SUITE-FAILS-WITH-MUTANT $PATCH"; tail -20 "$D/suite.log"; exit 3; }
  grep -q "^FAIL" "$D/suite.log" && { echo "SUITE-FAILS-WITH-MUTANT $PATCH"; grep -B5 "^FAIL" "$D/suite.log" | tail -30; exit 3; }
fi
cd "$(dirname "$0")/.."
VERIF_REPO="$D/repo" VERIF_EVIDENCE_DIR="$D/evidence" VERIF_REPLAY_SAVE_DIR="$D/replays" ./check "$ID" --tier "$TIER" >"$D/out.log" 2>"$D/err.log"
rc=$?
if [ $rc -eq 1 ]; then echo "CAUGHT $ID $(basename "$PATCH"): $(grep VIOLATION-DETAIL "$D/err.log" | head -1 | cut -c1-300)"; 
elif [ $rc -eq 0 ]; then echo "MISSED $ID $(basename "$PATCH")"; 
else echo "INCONCLUSIVE(rc=$rc) $ID $(basename "$PATCH")"; tail -15 "$D/err.log"; fi
exit 0
