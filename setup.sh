#!/bin/sh
# Warm the Go build cache offline (standard library, go-upf's dependencies,
# rapid, the race runtime) by building the harness once in a scratch copy.
# Nothing produced here is needed later except the cache; every check also
# works without it, only slower.
export GOFLAGS=-mod=mod GOPROXY=off GOSUMDB=off GOTOOLCHAIN=local
cd "$(dirname "$0")" || exit 1
python3 - <<'PY'
import sys, os
sys.path.insert(0, os.getcwd())
import importlib.machinery, importlib.util
loader = importlib.machinery.SourceFileLoader("check", os.path.join(os.getcwd(), "check"))
spec = importlib.util.spec_from_loader("check", loader)
chk = importlib.util.module_from_spec(spec)
loader.exec_module(chk)
from props import PROPS
sc = chk.Scratch()
try:
    mod = chk.prepare(sc, os.environ.get("VERIF_REPO", "/repo"))
    seen = set()
    for pid, spec in sorted(PROPS.items()):
        key = (spec["pkg"], bool(spec.get("race")))
        if key in seen:
            continue
        seen.add(key)
        out = chk.build(mod, sc, spec)
        print("warm", pid, "ok" if out else "FAILED")
finally:
    sc.cleanup()
PY
exit 0
