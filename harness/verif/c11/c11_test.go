//go:build verif

package c11

import (
	"bytes"
	"fmt"
	"testing"
	"time"

	"github.com/wmnsk/go-pfcp/message"
	"pgregory.net/rapid"

	upfreport "github.com/free5gc/go-upf/internal/report"

	"github.com/free5gc/go-upf/internal/verif/rxwindow"
	"github.com/free5gc/go-upf/internal/verif/stack"
	"github.com/free5gc/go-upf/internal/verif/vcore"
)

func TestMain(m *testing.M) {
	vcore.Init("C11", "exploration",
		"rapid histories over 2-3 sessions x 3 URRs mixing every emission site: data-plane reports and periodic reports (injected through the public NotifySessReport exactly as the netlink listener and the periodic server do, 1-3 reports per notification, also twice for one URR), "+
			"one case in five plays an SMF whose Node ID is an IPv6 address (no Session Report Request can be addressed to it: its reports travel in responses only), bursts of 40-130 notifications to an SMF that answers none (all requests stay outstanding), Query URR (also twice in one message), Update URR returning a report, Remove URR, PDR removal / re-pointing that detaches the last reference, session deletion, URR re-creation after removal. "+
			"Oracle: for each URR incarnation the UR-SEQN values observed at the SMF, in arrival order over Session Report Requests, Modification Responses and the Deletion Response, are exactly 0,1,...,n-1; incarnations and sessions are independent. "+
			"non-trivial = a URR incarnation with reports in >= 2 different carriers, or a URR re-created after removal with >= 1 report in each incarnation; distinct by history",
		"the oracle counts what is emitted; whether a report should have been emitted is C12's question",
		"a Create URR for a URR that exists is refused by the data plane: the installed URR, its lifetime and its numbering go on",
		"model data plane returns one usage report per query/remove/update of an existing URR")
	vcore.Main(m)
}

type Ev struct {
	Kind     string         `json:"kind"` // report mod del est
	Sess     int            `json:"sess"`
	URRs     []uint32       `json:"urrs,omitempty"`
	Trig     uint32         `json:"trig,omitempty"`
	Rules    []stack.RuleOp `json:"rules,omitempty"`
	N        int            `json:"n,omitempty"`
	SendFail bool           `json:"send_fail,omitempty"` // mod: the first transmission of the response fails; the request is sent again // report: so many notifications in a row (the SMF answers none of them: they all stay outstanding)
}

type Case struct {
	Evs []Ev `json:"evs"`
	// Quiet lists URR ids whose removal yields no final report from the data plane
	// (the no-op driver never returns one; gtp5g may answer without a report)
	Quiet []uint32 `json:"quiet,omitempty"`
	// Double lists URR ids for which the data plane answers a removal with two usage reports (the netlink answer is a
	// list); each of them is a report of that URR in the response
	Double []uint32 `json:"double,omitempty"`
	// Perm != 0: the child IEs of every Create / Update IE are sent in another order derived from it
	Perm uint32 `json:"perm,omitempty"`
	// SilentNode: the sessions belong to a node whose Node ID is an IPv6 address; no Session Report Request can be sent to it
	SilentNode bool `json:"silent_node,omitempty"`
}

type inc struct {
	next     uint32
	carriers map[string]bool
	n        int
}

type stats struct {
	multiCarrier  bool
	recreated     bool
	reports       int
	outstanding   int  // report requests sent and never answered
	unsendable    int  // notifications for which no report request could be sent
	replaced      bool // Remove URR and Create URR for one id in one message
	lostAnswers   int  // Modification Responses that reached the SMF through a retransmission of the request only
	refusedCreate bool // a Create URR for a URR that exists
	abandoned     int  // report requests given up after the last retransmission
	sendFailed    int  // report requests that reached the SMF as a retransmission only (first transmission failed locally)
}

// generator-side bookkeeping (assumes fault-free execution)
type gsess struct {
	alive bool
	urr   map[uint32]bool
	pdr   map[uint32][]uint32
}

func gen(t *rapid.T) Case {
	var evs []Ev
	quiet := map[uint32]bool{}
	var quietList []uint32
	for id := uint32(1); id <= 3; id++ {
		if rapid.IntRange(0, 3).Draw(t, "quiet") == 0 {
			quiet[id] = true
			quietList = append(quietList, id)
		}
	}
	var ss []*gsess
	est := func() {
		g := &gsess{alive: true, urr: map[uint32]bool{}, pdr: map[uint32][]uint32{}}
		var rules []stack.RuleOp
		for id := uint32(1); id <= 3; id++ {
			if rapid.IntRange(0, 3).Draw(t, "hasurr") != 0 {
				rules = append(rules, stack.RuleOp{Verb: "create", Kind: "URR", ID: id, Method: uint8(rapid.IntRange(0, 7).Draw(t, "method")), MNOP: rapid.Bool().Draw(t, "mnop"), Trig: 0x0102})
				g.urr[id] = true
			}
		}
		for id := uint32(1); id <= 2; id++ {
			var refs []uint32
			for u := range g.urr {
				if rapid.Bool().Draw(t, "ref") {
					refs = append(refs, u)
				}
			}
			sortU(refs)
			rules = append(rules, stack.RuleOp{Verb: "create", Kind: "PDR", ID: id, Prec: 1, URRs: refs})
			g.pdr[id] = refs
		}
		ss = append(ss, g)
		evs = append(evs, Ev{Kind: "est", Sess: len(ss) - 1, Rules: rules})
	}
	est()
	est()
	n := rapid.IntRange(3, 30).Draw(t, "n")
	for i := 0; i < n; i++ {
		si := rapid.IntRange(0, len(ss)-1).Draw(t, "sess")
		g := ss[si]
		k := rapid.SampledFrom([]string{"report", "report", "report", "perio", "mod", "mod", "mod", "del", "est", "recreate", "recreate"}).Draw(t, "kind")
		if !g.alive && k != "est" {
			continue
		}
		switch k {
		case "recreate":
			// remove a URR that exists, create it again, report for it: the re-created URR must start at 0
			var have []uint32
			for u := uint32(1); u <= 3; u++ {
				if g.urr[u] {
					have = append(have, u)
				}
			}
			if len(have) == 0 {
				continue
			}
			u := have[rapid.IntRange(0, len(have)-1).Draw(t, "which")]
			evs = append(evs, Ev{Kind: "report", Sess: si, URRs: []uint32{u}, Trig: stack.TrigVOLTH},
				Ev{Kind: "mod", Sess: si, Rules: []stack.RuleOp{{Verb: "remove", Kind: "URR", ID: u}}},
				Ev{Kind: "mod", Sess: si, Rules: []stack.RuleOp{{Verb: "create", Kind: "URR", ID: u, Method: uint8(rapid.IntRange(0, 7).Draw(t, "method")), Trig: 0x0102}}},
				Ev{Kind: "report", Sess: si, URRs: []uint32{u}, Trig: stack.TrigVOLTH})
		case "report", "perio":
			nr := rapid.IntRange(1, 3).Draw(t, "nrep")
			var urrs []uint32
			for j := 0; j < nr; j++ {
				u := uint32(rapid.IntRange(1, 3).Draw(t, "urr"))
				if quiet[u] && !g.urr[u] {
					// a data plane does not report for a URR it has removed; go-upf only learns of the
					// removal through the final report, which this URR's removal does not produce
					continue
				}
				urrs = append(urrs, u)
			}
			if len(urrs) == 0 {
				continue
			}
			trig := uint32(stack.TrigVOLTH)
			if k == "perio" {
				trig = stack.TrigPERIO
			}
			e := Ev{Kind: "report", Sess: si, URRs: urrs, Trig: trig}
			if rapid.IntRange(0, 9).Draw(t, "sendfail") == 0 {
				e.Kind = "reportfail"
				dedup := map[uint32]bool{}
				var us []uint32
				for _, u := range urrs {
					if !dedup[u] {
						dedup[u] = true
						us = append(us, u)
					}
				}
				e.URRs = us
				evs = append(evs, e)
				continue
			}
			if rapid.IntRange(0, 11).Draw(t, "burst") == 0 {
				// a silent SMF: dozens of report requests outstanding at once (around the sizes of the server's internal queues, 64 and 128)
				e.N = rapid.SampledFrom([]int{40, 63, 64, 65, 70, 130}).Draw(t, "burst_n")
			}
			evs = append(evs, e)
			if e.N == 0 && rapid.IntRange(0, 4).Draw(t, "giveup") == 0 {
				// the SMF stays silent for good: every outstanding report request is retransmitted until the UPF gives up
				evs = append(evs, Ev{Kind: "giveup", Sess: si})
			}
		case "mod":
			var rules []stack.RuleOp
			touched := map[uint32]bool{}
			named := map[uint32]bool{}
			nr := rapid.IntRange(1, 4).Draw(t, "nrules")
			for j := 0; j < nr; j++ {
				id := uint32(rapid.IntRange(1, 3).Draw(t, "urr"))
				switch rapid.SampledFrom([]string{"query", "query", "update", "removeurr", "createurr", "createurr-again", "replaceurr", "removepdr", "updatepdr", "createpdr"}).Draw(t, "rule") {
				case "replaceurr":
					// Remove URR and Create URR for one id in one message (a legal way of replacing a rule).  In whatever order the
					// two are applied, the final report of the URR that was there continues its numbering; whether a URR exists
					// afterwards depends on the order (create first: refused, then removed), but if one does it starts at 0
					// (not for a URR whose removal produces no final report: go-upf learns of a removal through that report only, and
					// whether the data plane has the URR afterwards - and may report for it - depends on the order)
					if g.urr[id] && !touched[id] && !named[id] && !quiet[id] {
						rules = append(rules, stack.RuleOp{Verb: "remove", Kind: "URR", ID: id},
							stack.RuleOp{Verb: "create", Kind: "URR", ID: id, Method: uint8(rapid.IntRange(0, 7).Draw(t, "method")), Trig: 0x0102})
						touched[id] = true
					}
				case "query":
					named[id] = true
					if g.urr[id] && !touched[id] {
						rules = append(rules, stack.RuleOp{Verb: "query", Kind: "URR", ID: id})
						if rapid.IntRange(0, 3).Draw(t, "twice") == 0 {
							rules = append(rules, stack.RuleOp{Verb: "query", Kind: "URR", ID: id})
						}
					}
				case "update":
					named[id] = true
					if g.urr[id] && !touched[id] {
						rules = append(rules, stack.RuleOp{Verb: "update", Kind: "URR", ID: id, Method: uint8(rapid.IntRange(0, 7).Draw(t, "method")), Trig: 0x0102})
					}
				case "removeurr":
					if g.urr[id] && !touched[id] {
						rules = append(rules, stack.RuleOp{Verb: "remove", Kind: "URR", ID: id})
						delete(g.urr, id)
						touched[id] = true
					}
				case "createurr-again":
					// a Create URR for a URR that exists: refused by the data plane, the installed URR goes on measuring and counting
					if g.urr[id] && !touched[id] {
						rules = append(rules, stack.RuleOp{Verb: "create", Kind: "URR", ID: id, Method: uint8(rapid.IntRange(0, 7).Draw(t, "method")), Trig: 0x0102})
						touched[id] = true
					}
				case "createurr":
					if !g.urr[id] && !touched[id] {
						rules = append(rules, stack.RuleOp{Verb: "create", Kind: "URR", ID: id, Method: uint8(rapid.IntRange(0, 7).Draw(t, "method")), Trig: 0x0102})
						g.urr[id] = true
						touched[id] = true
					}
				case "removepdr":
					p := uint32(rapid.IntRange(1, 2).Draw(t, "pdr"))
					if _, ok := g.pdr[p]; ok {
						rules = append(rules, stack.RuleOp{Verb: "remove", Kind: "PDR", ID: p})
						delete(g.pdr, p)
					}
				case "updatepdr":
					p := uint32(rapid.IntRange(1, 2).Draw(t, "pdr"))
					if _, ok := g.pdr[p]; ok {
						var refs []uint32
						for u := uint32(1); u <= 3; u++ {
							if g.urr[u] && rapid.Bool().Draw(t, "ref") {
								refs = append(refs, u)
							}
						}
						rules = append(rules, stack.RuleOp{Verb: "update", Kind: "PDR", ID: p, Prec: 2, URRs: refs})
						g.pdr[p] = refs
					}
				case "createpdr":
					p := uint32(rapid.IntRange(1, 2).Draw(t, "pdr"))
					if _, ok := g.pdr[p]; !ok {
						var refs []uint32
						for u := uint32(1); u <= 3; u++ {
							if g.urr[u] && rapid.Bool().Draw(t, "ref") {
								refs = append(refs, u)
							}
						}
						rules = append(rules, stack.RuleOp{Verb: "create", Kind: "PDR", ID: p, Prec: 1, URRs: refs})
						g.pdr[p] = refs
					}
				}
			}
			if len(rules) > 0 {
				evs = append(evs, Ev{Kind: "mod", Sess: si, Rules: rules, SendFail: rapid.IntRange(0, 7).Draw(t, "send_fail") == 0})
			}
		case "del":
			g.alive = false
			evs = append(evs, Ev{Kind: "del", Sess: si})
		case "est":
			if len(ss) < 4 {
				est()
			}
		}
	}
	c := Case{Evs: evs, Quiet: quietList}
	for id := uint32(1); id <= 3; id++ {
		if !quiet[id] && rapid.IntRange(0, 4).Draw(t, "double") == 0 {
			c.Double = append(c.Double, id)
		}
	}
	if rapid.IntRange(0, 2).Draw(t, "permute") == 0 {
		c.Perm = rapid.Uint32Range(1, 1<<30).Draw(t, "perm")
	}
	c.SilentNode = rapid.IntRange(0, 4).Draw(t, "silent_node") == 0
	return c
}

func sortU(a []uint32) {
	for i := range a {
		for j := i + 1; j < len(a); j++ {
			if a[j] < a[i] {
				a[i], a[j] = a[j], a[i]
			}
		}
	}
}

func run(c Case) (v *vcore.Violation, stt stats) {
	vcore.Journal(c)
	d := stack.NewModelDriver()
	d.UpdateReports = true
	quiet := map[uint32]bool{}
	for _, q := range c.Quiet {
		quiet[q] = true
	}
	double := map[uint32]bool{}
	for _, q := range c.Double {
		double[q] = true
	}
	d.ReportFor = func(op string, seid uint64, urrid uint32) []upfreport.USAReport {
		if op == "remove" && quiet[urrid] {
			return nil
		}
		one := upfreport.USAReport{URRID: urrid, StartTime: time.Unix(1700000000, 0), EndTime: time.Unix(1700000100, 0)}
		if op == "remove" && double[urrid] {
			return []upfreport.USAReport{one, one}
		}
		return []upfreport.USAReport{one}
	}
	// node 1 names itself by an IPv6 address although the association runs over IPv4: the UPF cannot address report requests
	// to it, its sessions' reports reach it in responses only - numbered without a gap all the same
	st, err := stack.New(stack.Opts{Driver: d, Nodes: 2, NodeIDs: map[int]string{1: "2001:db8::b"}, MaxRetrans: 3})
	nd := 0
	if c.SilentNode {
		nd = 1
	}
	if err != nil {
		panic(fmt.Sprintf("infrastructure: %v", err))
	}
	defer func() {
		if cerr := st.Close(); cerr != nil && v == nil {
			v = vcore.Violatef("stop-hang", "%v", cerr)
		}
		if st.Dead != nil && v == nil {
			v = vcore.Violatef(st.Dead.Key, "UPF fatal exit: %.600s", st.Dead.Msg)
		}
	}()
	r := stack.NewRunner(st, d)
	if o := r.Step(stack.Op{Kind: "assoc", Peer: nd, Node: nd, Sess: -1}); o.Dead != nil {
		return vcore.Violatef(o.Dead.Key, "prefix"), stt
	}
	// harness session index -> runner session index
	ref := map[int]int{}
	type ikey struct {
		sess int
		urr  uint32
	}
	cur := map[ikey]*inc{}
	past := map[ikey]int{} // finished incarnations that had >= 1 report
	alive := map[int]bool{}

	observe := func(i int, sess int, carrier string, m message.Message) *vcore.Violation {
		for _, u := range stack.UsageReports(m) {
			stt.reports++
			k := ikey{sess, u.URR}
			in := cur[k]
			if in == nil {
				return vcore.Violatef("report-for-unknown-urr", "event %d: %s carries a usage report for URR %d which does not exist in session #%d", i, carrier, u.URR, sess)
			}
			if !u.HasSEQN {
				return vcore.Violatef("no-urseqn", "event %d: usage report for URR %d in %s lacks UR-SEQN", i, u.URR, carrier)
			}
			if u.SEQN != in.next {
				return vcore.Violatef("urseqn", "event %d: session #%d URR %d in %s: UR-SEQN %d, expected %d (gap or repeat)", i, sess, u.URR, carrier, u.SEQN, in.next)
			}
			in.next++
			in.n++
			in.carriers[carrier] = true
			if len(in.carriers) >= 2 {
				stt.multiCarrier = true
			}
			if past[k] > 0 {
				stt.recreated = true
			}
		}
		return nil
	}
	endInc := func(k ikey) {
		if in := cur[k]; in != nil {
			if in.n > 0 {
				past[k]++
			}
			delete(cur, k)
		}
	}

	cpNext := uint64(0x30)
	for i, ev := range c.Evs {
		switch ev.Kind {
		case "est":
			cpNext++
			o := r.Step(stack.Op{Kind: "est", Peer: nd, Node: nd, Sess: -1, CP: cpNext, Rules: stack.Permute(ev.Rules, c.Perm)})
			if o.Dead != nil {
				return vcore.Violatef(o.Dead.Key, "event %d: UPF fatal exit: %.400s", i, o.Dead.Msg), stt
			}
			if o.NewSess < 0 || !r.Sess[o.NewSess].Known {
				return vcore.Violatef("est-failed", "event %d: establishment not accepted", i), stt
			}
			ref[ev.Sess] = o.NewSess
			alive[ev.Sess] = true
			for _, ru := range ev.Rules {
				if ru.Kind == "URR" && ru.Verb == "create" {
					cur[ikey{ev.Sess, ru.ID}] = &inc{carriers: map[string]bool{}}
				}
			}
		case "report":
			if !alive[ev.Sess] {
				continue
			}
			for rep := 0; rep < max(ev.N, 1); rep++ {
				o := r.Step(stack.Op{Kind: "report", Sess: ref[ev.Sess], URRs: ev.URRs, Trig: ev.Trig})
				if o.Dead != nil {
					return vcore.Violatef(o.Dead.Key, "event %d: UPF fatal exit: %.400s", i, o.Dead.Msg), stt
				}
				for _, s := range o.SRRs {
					if x := observe(i, ev.Sess, "SessionReportRequest", s.Msg); x != nil {
						return x, stt
					}
				}
				r.Pending[0] = nil
				if len(o.SRRs) > 0 {
					stt.outstanding++
				} else if c.SilentNode {
					stt.unsendable++
				}
			}
		case "giveup":
			// every outstanding report request runs out of retransmissions and is abandoned; the numbers its reports took stay
			// taken (they were emitted, the SMF may have seen them), so the next report of each URR goes on counting
			for id := range st.Srv.VerifTxTable() {
				for k := 0; k < 8; k++ {
					if _, still := st.Srv.VerifTxTable()[id]; !still {
						stt.abandoned++
						break
					}
					o := r.Step(stack.Op{Kind: "expire_tx", TrID: id})
					if o.Dead != nil {
						return vcore.Violatef(o.Dead.Key, "event %d: UPF fatal exit: %.400s", i, o.Dead.Msg), stt
					}
					r.Pending[0] = nil
				}
			}
		case "reportfail":
			// the first transmission of the report request fails locally (full device queue, filter, route flap); the request
			// is outstanding all the same and its retransmission, sent once the socket works again, carries the numbers it
			// took - the URR's next report carries the next one
			if !alive[ev.Sess] || c.SilentNode {
				continue
			}
			before := st.Srv.VerifTxTable()
			var reps []upfreport.Report
			for _, u := range ev.URRs {
				reps = append(reps, upfreport.USAReport{URRID: u, USARTrigger: upfreport.UsageReportTrigger{Flags: ev.Trig}, StartTime: time.Unix(1700000000, 0), EndTime: time.Unix(1700000100, 0)})
			}
			st.Srv.VerifFailSends(true)
			st.Srv.NotifySessReport(upfreport.SessReport{SEID: r.Sess[ref[ev.Sess]].UP, Reports: reps})
			st.Srv.NotifySessReport(upfreport.SessReport{SEID: 0xdead0001}) // the loop takes reports in order: once this one is gone the first has been served
			for t1 := time.Now(); time.Since(t1) < 5*time.Second; {
				if _, sr, _ := st.Srv.VerifQueues(); sr == 0 {
					break
				}
				time.Sleep(50 * time.Microsecond)
			}
			st.Srv.VerifFailSends(false)
			o := r.Step(stack.Op{Kind: "hb", Peer: nd, Sess: -1})
			if o.Dead != nil {
				return vcore.Violatef(o.Dead.Key, "event %d: UPF fatal exit: %.400s", i, o.Dead.Msg), stt
			}
			for _, s := range o.SRRs {
				if x := observe(i, ev.Sess, "SessionReportRequest", s.Msg); x != nil {
					return x, stt
				}
			}
			r.Pending[0] = nil
			for id := range st.Srv.VerifTxTable() {
				if _, old := before[id]; old {
					continue
				}
				// the timer of the request whose first transmission failed expires: its retransmission goes out
				o := r.Step(stack.Op{Kind: "expire_tx", TrID: id})
				if o.Dead != nil {
					return vcore.Violatef(o.Dead.Key, "event %d: UPF fatal exit: %.400s", i, o.Dead.Msg), stt
				}
				for _, s := range o.SRRs {
					if x := observe(i, ev.Sess, "SessionReportRequest (retransmission after a failed first transmission)", s.Msg); x != nil {
						return x, stt
					}
					stt.sendFailed++
				}
				r.Pending[0] = nil
			}
		case "mod":
			if !alive[ev.Sess] {
				continue
			}
			// creates start a new incarnation before anything of this message is emitted
			for _, ru := range ev.Rules {
				if ru.Kind == "URR" && ru.Verb == "create" {
					if cur[ikey{ev.Sess, ru.ID}] != nil {
						stt.refusedCreate = true // the URR exists: the data plane refuses the request, its lifetime goes on
						continue
					}
					endInc(ikey{ev.Sess, ru.ID})
					cur[ikey{ev.Sess, ru.ID}] = &inc{carriers: map[string]bool{}}
				}
			}
			mop := stack.Op{Kind: "mod", Peer: nd, Sess: ref[ev.Sess], Rules: stack.Permute(ev.Rules, c.Perm+uint32(i))}
			var o *stack.Obs
			if ev.SendFail {
				// the response cannot be sent (the socket refuses the write); the SMF retransmits its request once the socket works
				// again and gets the answer the first copy produced - with the reports and the numbers they took
				b, err := r.Build(mop, uint32(0x500000+i))
				if err != nil {
					panic(err)
				}
				st.Srv.VerifFailSends(true)
				if err := st.Send(nd, b); err != nil {
					panic(err)
				}
				rxwindow.Served(st)
				st.Srv.VerifFailSends(false)
				o = r.SendRaw(nd, b)
				stt.lostAnswers++
			} else {
				o = r.Step(mop)
			}
			if o.Dead != nil {
				return vcore.Violatef(o.Dead.Key, "event %d: UPF fatal exit: %.400s", i, o.Dead.Msg), stt
			}
			var answer []byte
			for k, m := range o.Msgs[nd] {
				if mr, ok := m.(*message.SessionModificationResponse); ok {
					if ev.SendFail && k < len(o.Rx[nd]) {
						// the write failure is switched off once the loop has served the first copy; on a busy machine the first copy may
						// be served only afterwards, and then its answer arrives as well as the (identical) answer to the retransmission:
						// one response, received twice
						if answer != nil && bytes.Equal(answer, o.Rx[nd][k].B) {
							stt.lostAnswers--
							continue
						}
						answer = o.Rx[nd][k].B
					}
					if x := observe(i, ev.Sess, "SessionModificationResponse", mr); x != nil {
						return x, stt
					}
				}
			}
			for _, ru := range ev.Rules {
				if ru.Kind == "URR" && ru.Verb == "remove" {
					endInc(ikey{ev.Sess, ru.ID})
					for _, cr := range ev.Rules {
						if cr.Kind == "URR" && cr.Verb == "create" && cr.ID == ru.ID {
							// replaced in one message: if a URR exists under the id now, it is a new one
							cur[ikey{ev.Sess, ru.ID}] = &inc{carriers: map[string]bool{}}
							stt.replaced = true
						}
					}
				}
			}
		case "del":
			if !alive[ev.Sess] {
				continue
			}
			o := r.Step(stack.Op{Kind: "del", Peer: nd, Sess: ref[ev.Sess]})
			if o.Dead != nil {
				return vcore.Violatef(o.Dead.Key, "event %d: UPF fatal exit: %.400s", i, o.Dead.Msg), stt
			}
			for _, m := range o.Msgs[nd] {
				if dr, ok := m.(*message.SessionDeletionResponse); ok {
					if x := observe(i, ev.Sess, "SessionDeletionResponse", dr); x != nil {
						return x, stt
					}
				}
			}
			alive[ev.Sess] = false
			for k := range cur {
				if k.sess == ev.Sess {
					endInc(k)
				}
			}
		}
	}
	return nil, stt
}

func account(c Case, s stats) {
	vcore.E.Eval()
	vcore.E.ClassN("usage_reports_observed", int64(s.reports))
	if s.multiCarrier {
		vcore.E.Class("urr_with_reports_in_2+_carriers")
	}
	if s.recreated {
		vcore.E.Class("urr_recreated_with_reports_in_both_incarnations")
	}
	if s.unsendable > 0 && s.reports > 0 {
		vcore.E.Class("reports_in_responses_after_notifications_that_could_not_be_sent")
	}
	if s.replaced {
		vcore.E.Class("urr_removed_and_created_in_one_message")
	}
	if s.lostAnswers > 0 {
		vcore.E.Class("modification_response_whose_first_transmission_failed")
	}
	if s.refusedCreate {
		vcore.E.Class("create_urr_for_a_urr_that_exists")
	}
	if s.abandoned > 0 {
		vcore.E.Class("report_request_abandoned_after_the_last_retransmission")
	}
	if s.sendFailed > 0 {
		vcore.E.Class("report_request_whose_first_transmission_failed")
	}
	if s.outstanding > 64 {
		vcore.E.Class("more_than_64_report_requests_outstanding")
	}
	if s.multiCarrier || s.recreated {
		vcore.E.NonTrivial(vcore.JSON(c))
		vcore.E.Sample(fmt.Sprintf("multi%v-recreated%v", s.multiCarrier, s.recreated), brief(c))
	}
}

func brief(c Case) []string {
	var out []string
	for _, e := range c.Evs {
		x := fmt.Sprintf("%s(#%d", e.Kind, e.Sess)
		if len(e.URRs) > 0 {
			x += fmt.Sprintf(" urrs=%v trig=%#x", e.URRs, e.Trig)
		}
		for _, ru := range e.Rules {
			x += fmt.Sprintf(" %s-%s%d", ru.Verb, ru.Kind, ru.ID)
			if ru.Kind == "PDR" && ru.Verb != "remove" {
				x += fmt.Sprintf("%v", ru.URRs)
			}
		}
		out = append(out, x+")")
	}
	return out
}

func report(t vcore.Failer, c Case, v *vcore.Violation) {
	if v == nil || vcore.IsKnown(v.Key) {
		return
	}
	key := v.Key
	c.Evs = vcore.MinimizeSlice(c.Evs, func(evs []Ev) bool {
		x, _ := run(Case{Evs: evs, Quiet: c.Quiet})
		return x != nil && x.Key == key
	}, 300)
	if x, _ := run(c); x != nil {
		vcore.Report(t, x, c)
	}
	vcore.Report(t, v, c)
}

func TestC11(t *testing.T) {
	files, explicit := vcore.ReplayFiles()
	for _, f := range files {
		var c Case
		if err := vcore.LoadReplayCase(f, &c); err != nil {
			t.Fatalf("replay %s: %v", f, err)
		}
		v, s := run(c)
		account(c, s)
		vcore.E.Class("replayed")
		report(t, c, v)
	}
	if explicit {
		return
	}
	vcore.Check(t, vcore.N(1200, 12000), func(rt *rapid.T) {
		c := gen(rt)
		v, s := run(c)
		account(c, s)
		report(rt, c, v)
	})
}
