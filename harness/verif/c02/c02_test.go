//go:build verif

package c02

import (
	"fmt"
	"net"
	"reflect"
	"sort"
	"syscall"
	"testing"

	"github.com/wmnsk/go-pfcp/ie"
	"pgregory.net/rapid"

	"github.com/free5gc/go-gtp5gnl"
	"github.com/free5gc/go-upf/internal/report"
	"github.com/free5gc/go-upf/internal/verif/flowgen"
	"github.com/free5gc/go-upf/internal/verif/fullstack"
	"github.com/free5gc/go-upf/internal/verif/pipeline"
	"github.com/free5gc/go-upf/internal/verif/rulepath"
	"github.com/free5gc/go-upf/internal/verif/simkernel"
	"github.com/free5gc/go-upf/internal/verif/stack"
	"github.com/free5gc/go-upf/internal/verif/vcore"
)

func TestMain(m *testing.M) {
	vcore.Init("C02", "exploration",
		"Create/Update PDR and FAR drawn as semantic records (PDR id, precedence, PDI{source interface Access/Core/SGi/CP, F-TEID (IPv4 or dual stack V4|V6), UE IP address (IPv4, or IPv4v6 with both addresses), 0-3 SDF filters with grammar-generated flow description and/or filter id, ignored Network Instance / Application ID}, outer-header removal, FAR id, 0-4 QER ids, 0-4 URR ids; "+
			"FAR id, apply action in 1- and 2-octet form, (Update) Forwarding Parameters{destination interface, network instance, outer-header creation GTP-U/UDP/IPv4 or UDP/IPv4, forwarding policy identifier of 1..255 octets, PFCPSM request flags}, BAR id), numeric fields boundary-biased, SEIDs over the 64-bit range, "+
			"rendered to a grouped IE with a drawn permutation of its children (and of the PDI's / forwarding parameters' children) and passed to the real Gtp5g.CreatePDR/UpdatePDR/CreateFAR/UpdateFAR on a simulated netlink endpoint. "+
			"Oracle: the captured request is decoded by a strict attribute walker (widths, no surplus or duplicate attributes) into a canonical rule and compared field by field with the value computed from the record alone "+
			"(command, EXCL/REPLACE flags, link, (SEID, id), every SDF filter with src/dst swapped for uplink, PDR_UNIX_SOCKET_PATH, PFCPSM flags ...); cross-checked with gtp5gnl.DecodePDR/DecodeFAR; metamorphic: a second rendering with another child order must give the same canonical rule. "+
			"non-trivial = >= 3 optional children present, a non-identity child order, and a field >= 2^16; distinct by (record, order)",
		"IPv6-only F-TEIDs / UE addresses (the data plane is IPv4 only; of a dual-stack IE the IPv4 address must arrive), Ethernet filters, C-TAG/S-TAG outer headers, SDF filters with ToS/SPI/flow label are outside the IE set the driver supports and are not generated (they are in C07's fuzz domain)",
		"the simulated kernel only acknowledges requests; the oracle reads the request bytes",
		"Update FAR additionally issues GET_FAR/GET_PDR/GET_QER look-ups for buffered packets (C13's subject); only the ADD request is 'the rule handed to the data plane'")
	vcore.Main(m)
}

// ---------------------------------------------------------------- records

type SDF struct {
	FD     *flowgen.Rule `json:"fd,omitempty"`
	BID    uint32        `json:"bid,omitempty"`
	HasBID bool          `json:"has_bid,omitempty"`
}

type PDR struct {
	Update  bool     `json:"update"`
	SEID    uint64   `json:"seid"`
	ID      uint16   `json:"id"`
	Prec    *uint32  `json:"prec,omitempty"`
	HasPDI  bool     `json:"has_pdi"`
	SrcIf   uint8    `json:"src_if"`
	FTEID   *FTEID   `json:"fteid,omitempty"`
	UEIP    *[4]byte `json:"ueip,omitempty"`
	UEFlags uint8    `json:"ue_flags,omitempty"`
	UEV6    string   `json:"ue_v6,omitempty"` // with flag V6: an IPv4v6 PDU session, both addresses in the IE
	SDFs    []SDF    `json:"sdfs,omitempty"`
	NetInst string   `json:"net_inst,omitempty"`
	AppID   string   `json:"app_id,omitempty"`
	OHR     *uint8   `json:"ohr,omitempty"`
	OHRForm int      `json:"ohr_form,omitempty"` // 0: description + extension-header-deletion octet, 1: description octet only (octet 6 is conditional), 2: deletion octet non-zero
	FAR     *uint32  `json:"far,omitempty"`
	QERs    []uint32 `json:"qers,omitempty"`
	URRs    []uint32 `json:"urrs,omitempty"`
	Order   []int    `json:"order"`     // permutation seed for the PDR's children
	PDIOrd  []int    `json:"pdi_order"` // permutation seed for the PDI's children
}

type FTEID struct {
	TEID uint32  `json:"teid"`
	IP   [4]byte `json:"ip"`
	V6   string  `json:"v6,omitempty"` // dual stack: flags V4|V6, the IPv6 address follows the IPv4 one
}

type OHC struct {
	GTPU bool    `json:"gtpu"`
	TEID uint32  `json:"teid"`
	IP   [4]byte `json:"ip"`
	Port uint16  `json:"port"`
}

type FAR struct {
	Update    bool    `json:"update"`
	SEID      uint64  `json:"seid"`
	ID        uint32  `json:"id"`
	Action    *uint16 `json:"action,omitempty"`
	TwoOctets bool    `json:"two_octets,omitempty"`
	HasFP     bool    `json:"has_fp"`
	DstIf     *uint8  `json:"dst_if,omitempty"`
	NetInst   string  `json:"net_inst,omitempty"`
	OHC       *OHC    `json:"ohc,omitempty"`
	Policy    *string `json:"policy,omitempty"`
	SMReq     *uint8  `json:"smreq,omitempty"`
	BAR       *uint8  `json:"bar,omitempty"`
	Order     []int   `json:"order"`
	FPOrd     []int   `json:"fp_order"`
}

type Case struct {
	PDR *PDR `json:"pdr,omitempty"`
	FAR *FAR `json:"far,omitempty"`
}

func permute(ies []*ie.IE, seed []int) ([]*ie.IE, bool) {
	out := append([]*ie.IE(nil), ies...)
	ident := true
	for i := len(out) - 1; i > 0; i-- {
		j := 0
		if len(seed) > 0 {
			j = seed[i%len(seed)] % (i + 1)
		} else {
			j = i
		}
		if i != j {
			ident = false
		}
		out[i], out[j] = out[j], out[i]
	}
	return out, ident
}

func ipStr(b [4]byte) string { return net.IP(b[:]).String() }

func (p *PDR) IE(order, pdiOrd []int) (*ie.IE, bool) {
	cs := []*ie.IE{ie.NewPDRID(p.ID)}
	if p.Prec != nil {
		cs = append(cs, ie.NewPrecedence(*p.Prec))
	}
	identPDI := true
	if p.HasPDI {
		pdi := []*ie.IE{ie.NewSourceInterface(p.SrcIf)}
		if p.FTEID != nil {
			if p.FTEID.V6 != "" {
				pdi = append(pdi, ie.NewFTEID(0x03, p.FTEID.TEID, net.IP(p.FTEID.IP[:]), net.ParseIP(p.FTEID.V6), 0))
			} else {
				pdi = append(pdi, ie.NewFTEID(0x01, p.FTEID.TEID, net.IP(p.FTEID.IP[:]), nil, 0))
			}
		}
		if p.UEIP != nil {
			if p.UEFlags&0x01 != 0 {
				pdi = append(pdi, ie.NewUEIPAddress(p.UEFlags, ipStr(*p.UEIP), p.UEV6, 0, 0))
			} else {
				pdi = append(pdi, ie.NewUEIPAddress(p.UEFlags, ipStr(*p.UEIP), "", 0, 0))
			}
		}
		for _, s := range p.SDFs {
			fd := ""
			if s.FD != nil {
				fd = s.FD.Text()
			}
			bid := uint32(0)
			if s.HasBID {
				bid = s.BID
			}
			pdi = append(pdi, ie.NewSDFFilter(fd, "", "", "", bid))
		}
		if p.NetInst != "" {
			pdi = append(pdi, ie.NewNetworkInstance(p.NetInst))
		}
		if p.AppID != "" {
			pdi = append(pdi, ie.NewApplicationID(p.AppID))
		}
		pdi, identPDI = permute(pdi, pdiOrd)
		cs = append(cs, ie.NewPDI(pdi...))
	}
	if p.OHR != nil {
		switch p.OHRForm {
		case 1:
			cs = append(cs, ie.New(ie.OuterHeaderRemoval, []byte{*p.OHR}))
		case 2:
			cs = append(cs, ie.NewOuterHeaderRemoval(*p.OHR, 1))
		default:
			cs = append(cs, ie.NewOuterHeaderRemoval(*p.OHR, 0))
		}
	}
	if p.FAR != nil {
		cs = append(cs, ie.NewFARID(*p.FAR))
	}
	for _, q := range p.QERs {
		cs = append(cs, ie.NewQERID(q))
	}
	for _, u := range p.URRs {
		cs = append(cs, ie.NewURRID(u))
	}
	cs, ident := permute(cs, order)
	if p.Update {
		return ie.NewUpdatePDR(cs...), ident && identPDI
	}
	return ie.NewCreatePDR(cs...), ident && identPDI
}

func (f *FAR) IE(order, fpOrd []int) (*ie.IE, bool) {
	cs := []*ie.IE{ie.NewFARID(f.ID)}
	if f.Action != nil {
		if f.TwoOctets || *f.Action > 0xff {
			cs = append(cs, ie.NewApplyAction(uint8(*f.Action), uint8(*f.Action>>8)))
		} else {
			cs = append(cs, ie.NewApplyAction(uint8(*f.Action)))
		}
	}
	identFP := true
	if f.HasFP {
		var fp []*ie.IE
		if f.DstIf != nil {
			fp = append(fp, ie.NewDestinationInterface(*f.DstIf))
		}
		if f.NetInst != "" {
			fp = append(fp, ie.NewNetworkInstance(f.NetInst))
		}
		if f.OHC != nil {
			if f.OHC.GTPU {
				fp = append(fp, ie.NewOuterHeaderCreation(0x0100, f.OHC.TEID, ipStr(f.OHC.IP), "", 0, 0, 0))
			} else {
				fp = append(fp, ie.NewOuterHeaderCreation(0x0400, 0, ipStr(f.OHC.IP), "", f.OHC.Port, 0, 0))
			}
		}
		if f.Policy != nil {
			fp = append(fp, ie.NewForwardingPolicy(*f.Policy))
		}
		if f.SMReq != nil {
			fp = append(fp, ie.NewPFCPSMReqFlags(*f.SMReq))
		}
		fp, identFP = permute(fp, fpOrd)
		if f.Update {
			cs = append(cs, ie.NewUpdateForwardingParameters(fp...))
		} else {
			cs = append(cs, ie.NewForwardingParameters(fp...))
		}
	}
	if f.BAR != nil {
		cs = append(cs, ie.NewBARID(*f.BAR))
	}
	cs, ident := permute(cs, order)
	if f.Update {
		return ie.NewUpdateFAR(cs...), ident && identFP
	}
	return ie.NewCreateFAR(cs...), ident && identFP
}

// ---------------------------------------------------------------- canonical rule

type cSDF struct {
	FD  *flowgen.Filter
	BID *uint32
}

type canon struct {
	Cmd    int
	Create bool
	Link   uint32
	SEID   uint64
	ID     uint64
	// PDR
	Prec   *uint32
	HasPDI bool
	SrcIf  *uint8
	FTEID  *FTEID
	UEIP   *[4]byte
	SDFs   []string // rendered cSDF, sorted
	OHR    *uint8
	FAR    *uint32
	QERs   []uint32
	URRs   []uint32
	Unix   *string
	// FAR
	Action  *uint16
	HasFP   bool
	OHCDesc *uint16
	OHCTEID *uint32
	OHCPort *uint16
	OHCIP   *[4]byte
	Policy  *string
	SMReq   *uint8
	BAR     *uint8
}

func sortU32(a []uint32) []uint32 {
	b := append([]uint32(nil), a...)
	sort.Slice(b, func(i, j int) bool { return b[i] < b[j] })
	if len(b) == 0 {
		return nil
	}
	return b
}

func renderSDF(s cSDF) string {
	x := "sdf{"
	if s.FD != nil {
		x += fmt.Sprintf("fd=%+v", *s.FD)
	}
	if s.BID != nil {
		x += fmt.Sprintf(" bid=%d", *s.BID)
	}
	return x + "}"
}

func (p *PDR) want() canon {
	c := canon{Cmd: gtp5gnl.CMD_ADD_PDR, Create: !p.Update, Link: simkernel.LinkIdx, SEID: p.SEID, ID: uint64(p.ID)}
	c.Prec = p.Prec
	c.HasPDI = p.HasPDI
	if p.HasPDI {
		v := p.SrcIf
		c.SrcIf = &v
		if p.FTEID != nil {
			c.FTEID = &FTEID{TEID: p.FTEID.TEID, IP: p.FTEID.IP} // gtp5g is IPv4 only: the IPv4 address of a dual-stack F-TEID
		}
		c.UEIP = p.UEIP
		for _, s := range p.SDFs {
			var cs cSDF
			if s.FD != nil {
				f := s.FD.Denote(p.SrcIf == ie.SrcInterfaceAccess)
				cs.FD = &f
			}
			if s.HasBID && s.BID != 0 {
				b := s.BID
				cs.BID = &b
			}
			c.SDFs = append(c.SDFs, renderSDF(cs))
		}
		sort.Strings(c.SDFs)
	}
	c.OHR = p.OHR
	c.FAR = p.FAR
	c.QERs = sortU32(p.QERs)
	c.URRs = sortU32(p.URRs)
	if !p.Update {
		s := gtp5gnl.PdrAddrForNetlink
		c.Unix = &s
	}
	return c
}

func (f *FAR) want() canon {
	c := canon{Cmd: gtp5gnl.CMD_ADD_FAR, Create: !f.Update, Link: simkernel.LinkIdx, SEID: f.SEID, ID: uint64(f.ID)}
	c.Action = f.Action
	// a Forwarding Parameters IE with only children the data plane has no use for carries no content
	c.HasFP = f.HasFP && (f.OHC != nil || f.Policy != nil || f.SMReq != nil)
	if f.HasFP {
		if f.OHC != nil {
			var d uint16 = 0x0400
			port := f.OHC.Port
			if f.OHC.GTPU {
				d = 0x0100
				port = 2152
				t := f.OHC.TEID
				c.OHCTEID = &t
			}
			c.OHCDesc, c.OHCPort = &d, &port
			ip := f.OHC.IP
			c.OHCIP = &ip
		}
		c.Policy = f.Policy
		c.SMReq = f.SMReq
	}
	c.BAR = f.BAR
	return c
}

// strict decoding of the captured request

type decErr struct{ msg string }

func (e decErr) Error() string { return e.msg }

func need(a simkernel.Attr, n int, what string) {
	if len(a.Value) != n {
		panic(decErr{fmt.Sprintf("attribute %s has %d value octets, want %d", what, len(a.Value), n)})
	}
}

func once(seen map[int]bool, t int, what string) {
	if seen[t] {
		panic(decErr{"duplicate attribute " + what})
	}
	seen[t] = true
}

func walk(b []byte, what string) []simkernel.Attr {
	as, err := simkernel.Walk(b)
	if err != nil {
		panic(decErr{what + ": " + err.Error()})
	}
	return as
}

func ip4(a simkernel.Attr, what string) *[4]byte {
	need(a, 4, what)
	var o [4]byte
	copy(o[:], a.Value)
	return &o
}

func decodeFD(b []byte) *flowgen.Filter {
	var f flowgen.Filter
	seen := map[int]bool{}
	ports := func(v []byte, what string) [][2]uint16 {
		if len(v)%4 != 0 {
			panic(decErr{what + ": port list not a multiple of 4 octets"})
		}
		var out [][2]uint16
		for i := 0; i < len(v); i += 4 {
			w := gtp5gnl.NativeEndian().Uint32(v[i:])
			out = append(out, [2]uint16{uint16(w >> 16), uint16(w)})
		}
		return out
	}
	for _, a := range walk(b, "flow description") {
		once(seen, a.Type, fmt.Sprintf("FLOW_DESCRIPTION/%d", a.Type))
		switch a.Type {
		case gtp5gnl.FLOW_DESCRIPTION_ACTION:
			need(a, 1, "FD_ACTION")
			f.Action = a.U8()
		case gtp5gnl.FLOW_DESCRIPTION_DIRECTION:
			need(a, 1, "FD_DIRECTION")
			f.Dir = a.U8()
		case gtp5gnl.FLOW_DESCRIPTION_PROTOCOL:
			need(a, 1, "FD_PROTOCOL")
			f.Proto = a.U8()
		case gtp5gnl.FLOW_DESCRIPTION_SRC_IPV4:
			// "any" is sent as the 16-octet zero address; the kernel reads 4 octets
			if len(a.Value) != 4 && len(a.Value) != 16 {
				panic(decErr{"FD_SRC_IPV4 width"})
			}
			copy(f.SrcNet[:], a.Value)
		case gtp5gnl.FLOW_DESCRIPTION_SRC_MASK:
			if len(a.Value) != 4 && len(a.Value) != 16 {
				panic(decErr{"FD_SRC_MASK width"})
			}
			copy(f.SrcMask[:], a.Value)
		case gtp5gnl.FLOW_DESCRIPTION_DEST_IPV4:
			if len(a.Value) != 4 && len(a.Value) != 16 {
				panic(decErr{"FD_DEST_IPV4 width"})
			}
			copy(f.DstNet[:], a.Value)
		case gtp5gnl.FLOW_DESCRIPTION_DEST_MASK:
			if len(a.Value) != 4 && len(a.Value) != 16 {
				panic(decErr{"FD_DEST_MASK width"})
			}
			copy(f.DstMask[:], a.Value)
		case gtp5gnl.FLOW_DESCRIPTION_SRC_PORT:
			f.SrcPorts = ports(a.Value, "FD_SRC_PORT")
		case gtp5gnl.FLOW_DESCRIPTION_DEST_PORT:
			f.DstPorts = ports(a.Value, "FD_DEST_PORT")
		default:
			panic(decErr{fmt.Sprintf("unknown flow-description attribute %d", a.Type)})
		}
	}
	return &f
}

func decode(r simkernel.Request) (c canon, err error) {
	defer func() {
		if p := recover(); p != nil {
			if de, ok := p.(decErr); ok {
				err = de
				return
			}
			panic(p)
		}
	}()
	c.Cmd = r.Cmd
	wantFlags := uint16(syscall.NLM_F_REQUEST | syscall.NLM_F_ACK)
	switch {
	case r.Flags == wantFlags|syscall.NLM_F_EXCL:
		c.Create = true
	case r.Flags == wantFlags|syscall.NLM_F_REPLACE:
		c.Create = false
	default:
		panic(decErr{fmt.Sprintf("netlink flags %#x", r.Flags)})
	}
	seen := map[int]bool{}
	pdr := r.Cmd == gtp5gnl.CMD_ADD_PDR
	for _, a := range r.Attrs {
		if a.Type == gtp5gnl.LINK {
			once(seen, a.Type, "LINK")
			need(a, 4, "LINK")
			c.Link = a.U32()
			continue
		}
		if pdr {
			switch a.Type {
			case gtp5gnl.PDR_ID:
				once(seen, a.Type, "PDR_ID")
				need(a, 2, "PDR_ID")
				c.ID = uint64(a.U16())
			case gtp5gnl.PDR_SEID:
				once(seen, a.Type, "PDR_SEID")
				need(a, 8, "PDR_SEID")
				c.SEID = a.U64()
			case gtp5gnl.PDR_PRECEDENCE:
				once(seen, a.Type, "PDR_PRECEDENCE")
				need(a, 4, "PDR_PRECEDENCE")
				v := a.U32()
				c.Prec = &v
			case gtp5gnl.PDR_OUTER_HEADER_REMOVAL:
				once(seen, a.Type, "PDR_OUTER_HEADER_REMOVAL")
				need(a, 1, "PDR_OUTER_HEADER_REMOVAL")
				v := a.U8()
				c.OHR = &v
			case gtp5gnl.PDR_FAR_ID:
				once(seen, a.Type, "PDR_FAR_ID")
				need(a, 4, "PDR_FAR_ID")
				v := a.U32()
				c.FAR = &v
			case gtp5gnl.PDR_QER_ID:
				need(a, 4, "PDR_QER_ID")
				c.QERs = append(c.QERs, a.U32())
			case gtp5gnl.PDR_URR_ID:
				need(a, 4, "PDR_URR_ID")
				c.URRs = append(c.URRs, a.U32())
			case gtp5gnl.PDR_UNIX_SOCKET_PATH:
				once(seen, a.Type, "PDR_UNIX_SOCKET_PATH")
				s := string(a.Value)
				if len(s) == 0 || s[len(s)-1] != 0 {
					panic(decErr{"PDR_UNIX_SOCKET_PATH not NUL terminated"})
				}
				s = s[:len(s)-1]
				c.Unix = &s
			case gtp5gnl.PDR_PDI:
				once(seen, a.Type, "PDR_PDI")
				c.HasPDI = true
				ps := map[int]bool{}
				for _, x := range walk(a.Value, "PDI") {
					switch x.Type {
					case gtp5gnl.PDI_SRC_INTF:
						once(ps, x.Type, "PDI_SRC_INTF")
						need(x, 1, "PDI_SRC_INTF")
						v := x.U8()
						c.SrcIf = &v
					case gtp5gnl.PDI_UE_ADDR_IPV4:
						once(ps, x.Type, "PDI_UE_ADDR_IPV4")
						c.UEIP = ip4(x, "PDI_UE_ADDR_IPV4")
					case gtp5gnl.PDI_F_TEID:
						once(ps, x.Type, "PDI_F_TEID")
						ft := &FTEID{}
						fs := map[int]bool{}
						for _, y := range walk(x.Value, "F_TEID") {
							switch y.Type {
							case gtp5gnl.F_TEID_I_TEID:
								once(fs, y.Type, "F_TEID_I_TEID")
								need(y, 4, "F_TEID_I_TEID")
								ft.TEID = y.U32()
							case gtp5gnl.F_TEID_GTPU_ADDR_IPV4:
								once(fs, y.Type, "F_TEID_GTPU_ADDR_IPV4")
								ft.IP = *ip4(y, "F_TEID_GTPU_ADDR_IPV4")
							default:
								panic(decErr{fmt.Sprintf("unknown F-TEID attribute %d", y.Type)})
							}
						}
						if !fs[gtp5gnl.F_TEID_I_TEID] || !fs[gtp5gnl.F_TEID_GTPU_ADDR_IPV4] {
							panic(decErr{"F-TEID lacks TEID or address"})
						}
						c.FTEID = ft
					case gtp5gnl.PDI_SDF_FILTER:
						var cs cSDF
						ss := map[int]bool{}
						for _, y := range walk(x.Value, "SDF_FILTER") {
							switch y.Type {
							case gtp5gnl.SDF_FILTER_FLOW_DESCRIPTION:
								once(ss, y.Type, "SDF_FILTER_FLOW_DESCRIPTION")
								cs.FD = decodeFD(y.Value)
							case gtp5gnl.SDF_FILTER_SDF_FILTER_ID:
								once(ss, y.Type, "SDF_FILTER_SDF_FILTER_ID")
								need(y, 4, "SDF_FILTER_SDF_FILTER_ID")
								v := y.U32()
								cs.BID = &v
							default:
								panic(decErr{fmt.Sprintf("unexpected SDF filter attribute %d", y.Type)})
							}
						}
						c.SDFs = append(c.SDFs, renderSDF(cs))
					default:
						panic(decErr{fmt.Sprintf("unknown PDI attribute %d", x.Type)})
					}
				}
				sort.Strings(c.SDFs)
			default:
				panic(decErr{fmt.Sprintf("unknown PDR attribute %d", a.Type)})
			}
			continue
		}
		switch a.Type {
		case gtp5gnl.FAR_ID:
			once(seen, a.Type, "FAR_ID")
			need(a, 4, "FAR_ID")
			c.ID = uint64(a.U32())
		case gtp5gnl.FAR_SEID:
			once(seen, a.Type, "FAR_SEID")
			need(a, 8, "FAR_SEID")
			c.SEID = a.U64()
		case gtp5gnl.FAR_APPLY_ACTION:
			once(seen, a.Type, "FAR_APPLY_ACTION")
			need(a, 2, "FAR_APPLY_ACTION")
			v := a.U16()
			c.Action = &v
		case gtp5gnl.FAR_BAR_ID:
			once(seen, a.Type, "FAR_BAR_ID")
			need(a, 1, "FAR_BAR_ID")
			v := a.U8()
			c.BAR = &v
		case gtp5gnl.FAR_FORWARDING_PARAMETER:
			once(seen, a.Type, "FAR_FORWARDING_PARAMETER")
			fs := map[int]bool{}
			for _, x := range walk(a.Value, "FORWARDING_PARAMETER") {
				c.HasFP = true
				switch x.Type {
				case gtp5gnl.FORWARDING_PARAMETER_OUTER_HEADER_CREATION:
					once(fs, x.Type, "OUTER_HEADER_CREATION")
					hs := map[int]bool{}
					for _, y := range walk(x.Value, "OUTER_HEADER_CREATION") {
						switch y.Type {
						case gtp5gnl.OUTER_HEADER_CREATION_DESCRIPTION:
							once(hs, y.Type, "OHC_DESCRIPTION")
							need(y, 2, "OHC_DESCRIPTION")
							v := y.U16()
							c.OHCDesc = &v
						case gtp5gnl.OUTER_HEADER_CREATION_O_TEID:
							once(hs, y.Type, "OHC_O_TEID")
							need(y, 4, "OHC_O_TEID")
							v := y.U32()
							c.OHCTEID = &v
						case gtp5gnl.OUTER_HEADER_CREATION_PORT:
							once(hs, y.Type, "OHC_PORT")
							need(y, 2, "OHC_PORT")
							v := y.U16()
							c.OHCPort = &v
						case gtp5gnl.OUTER_HEADER_CREATION_PEER_ADDR_IPV4:
							once(hs, y.Type, "OHC_PEER_ADDR_IPV4")
							c.OHCIP = ip4(y, "OHC_PEER_ADDR_IPV4")
						default:
							panic(decErr{fmt.Sprintf("unknown outer-header-creation attribute %d", y.Type)})
						}
					}
				case gtp5gnl.FORWARDING_PARAMETER_FORWARDING_POLICY:
					once(fs, x.Type, "FORWARDING_POLICY")
					s := string(x.Value)
					if len(s) == 0 || s[len(s)-1] != 0 {
						panic(decErr{"FORWARDING_POLICY not NUL terminated"})
					}
					s = s[:len(s)-1]
					c.Policy = &s
				case gtp5gnl.FORWARDING_PARAMETER_PFCPSM_REQ_FLAGS:
					once(fs, x.Type, "PFCPSM_REQ_FLAGS")
					need(x, 1, "PFCPSM_REQ_FLAGS")
					v := x.U8()
					c.SMReq = &v
				default:
					panic(decErr{fmt.Sprintf("unknown forwarding-parameter attribute %d", x.Type)})
				}
			}
		default:
			panic(decErr{fmt.Sprintf("unknown FAR attribute %d", a.Type)})
		}
	}
	c.QERs = sortU32(c.QERs)
	c.URRs = sortU32(c.URRs)
	return c, nil
}

// ---------------------------------------------------------------- run

var drv *fullstack.Driver

func driver() *fullstack.Driver {
	if drv == nil {
		var err error
		drv, err = fullstack.NewDriver(fullstack.Opts{})
		if err != nil {
			panic(err)
		}
		drv.G.HandleReport(nopHandler{})
	}
	return drv
}

type nopHandler struct{}

func (nopHandler) NotifySessReport(report.SessReport)      {}
func (nopHandler) PopBufPkt(uint64, uint16) ([]byte, bool) { return nil, false }

func submit(c Case, order, sub []int) (simkernel.Request, bool, *vcore.Violation) {
	d := driver()
	d.K.Reset()
	var ident bool
	wantCmd := gtp5gnl.CMD_ADD_PDR
	func() {
		defer func() {
			if p := recover(); p != nil {
				panic(fmt.Sprintf("driver panicked: %v", p))
			}
		}()
		switch {
		case c.PDR != nil && !c.PDR.Update:
			i, id := c.PDR.IE(order, sub)
			ident = id
			_ = d.G.CreatePDR(c.PDR.SEID, stack.OffWire(i))
		case c.PDR != nil:
			i, id := c.PDR.IE(order, sub)
			ident = id
			_ = d.G.UpdatePDR(c.PDR.SEID, stack.OffWire(i))
		case c.FAR != nil && !c.FAR.Update:
			i, id := c.FAR.IE(order, sub)
			ident = id
			wantCmd = gtp5gnl.CMD_ADD_FAR
			_ = d.G.CreateFAR(c.FAR.SEID, stack.OffWire(i))
		default:
			i, id := c.FAR.IE(order, sub)
			ident = id
			wantCmd = gtp5gnl.CMD_ADD_FAR
			_ = d.G.UpdateFAR(c.FAR.SEID, stack.OffWire(i))
		}
	}()
	var adds []simkernel.Request
	for _, r := range d.K.TakeLog() {
		switch r.Cmd {
		case gtp5gnl.CMD_ADD_PDR, gtp5gnl.CMD_ADD_FAR:
			adds = append(adds, r)
		case gtp5gnl.CMD_GET_FAR, gtp5gnl.CMD_GET_PDR, gtp5gnl.CMD_GET_QER:
			// Update FAR looks the rule up before re-injecting buffered packets
		default:
			return r, ident, vcore.Violatef("unexpected-command", "request with command %d while translating a rule", r.Cmd)
		}
	}
	if len(adds) != 1 || adds[0].Cmd != wantCmd {
		return simkernel.Request{}, ident, vcore.Violatef("request-count", "%d ADD requests (want exactly one with command %d)", len(adds), wantCmd)
	}
	return adds[0], ident, nil
}

func check(c Case) (v *vcore.Violation, ident bool) {
	var want canon
	var order, sub []int
	if c.PDR != nil {
		want, order, sub = c.PDR.want(), c.PDR.Order, c.PDR.PDIOrd
	} else {
		want, order, sub = c.FAR.want(), c.FAR.Order, c.FAR.FPOrd
	}
	req, ident, v := submit(c, order, sub)
	if v != nil {
		return v, ident
	}
	got, err := decode(req)
	if err != nil {
		return vcore.Violatef("malformed-request", "netlink request does not decode strictly: %v", err), ident
	}
	if !reflect.DeepEqual(got, want) {
		return vcore.Violatef(diffKey(got, want), "rule handed to the data plane differs from the IE:\n got  %s\n want %s", vcore.JSON(got), vcore.JSON(want)), ident
	}
	// cross-check with the library decoder (the independent decoder the property names)
	if c.PDR != nil {
		p, err := gtp5gnl.DecodePDR(req.Raw[20:])
		if err != nil {
			return vcore.Violatef("decodepdr", "gtp5gnl.DecodePDR: %v", err), ident
		}
		if p.ID != c.PDR.ID || p.SEID == nil || *p.SEID != c.PDR.SEID {
			return vcore.Violatef("oid", "DecodePDR: id %d seid %v, want %d / %#x", p.ID, p.SEID, c.PDR.ID, c.PDR.SEID), ident
		}
		if (p.Precedence == nil) != (c.PDR.Prec == nil) || (p.Precedence != nil && *p.Precedence != *c.PDR.Prec) {
			return vcore.Violatef("precedence", "DecodePDR precedence mismatch"), ident
		}
		if !reflect.DeepEqual(sortU32(p.QERID), sortU32(c.PDR.QERs)) || !reflect.DeepEqual(sortU32(p.URRID), sortU32(c.PDR.URRs)) {
			return vcore.Violatef("linked-ids", "DecodePDR QER/URR ids %v/%v want %v/%v", p.QERID, p.URRID, c.PDR.QERs, c.PDR.URRs), ident
		}
	} else {
		f, err := gtp5gnl.DecodeFAR(req.Raw[20:])
		if err != nil {
			return vcore.Violatef("decodefar", "gtp5gnl.DecodeFAR: %v", err), ident
		}
		if f.ID != c.FAR.ID || f.SEID == nil || *f.SEID != c.FAR.SEID {
			return vcore.Violatef("oid", "DecodeFAR: id %d seid %v, want %d / %#x", f.ID, f.SEID, c.FAR.ID, c.FAR.SEID), ident
		}
		if c.FAR.Action != nil && f.Action != *c.FAR.Action {
			return vcore.Violatef("apply-action", "DecodeFAR action %#x want %#x", f.Action, *c.FAR.Action), ident
		}
		if c.FAR.HasFP && c.FAR.OHC != nil {
			if f.Param == nil || f.Param.Creation == nil || !f.Param.Creation.PeerAddr.Equal(net.IP(c.FAR.OHC.IP[:])) {
				return vcore.Violatef("ohc-peer", "DecodeFAR outer header creation peer mismatch"), ident
			}
		}
	}
	// metamorphic: another child order must give the same rule
	rev := func(a []int) []int {
		out := make([]int, 0, len(a)+1)
		for i := len(a) - 1; i >= 0; i-- {
			out = append(out, a[i]+1)
		}
		return append(out, 3)
	}
	req2, _, v2 := submit(c, rev(order), rev(sub))
	if v2 != nil {
		return v2, ident
	}
	got2, err := decode(req2)
	if err != nil {
		return vcore.Violatef("malformed-request", "second rendering: %v", err), ident
	}
	if !reflect.DeepEqual(got2, got) {
		return vcore.Violatef("order-dependence", "two child orders of the same IE content produce different rules:\n a %s\n b %s", vcore.JSON(got), vcore.JSON(got2)), ident
	}
	return nil, ident
}

func diffKey(got, want canon) string {
	gv, wv := reflect.ValueOf(got), reflect.ValueOf(want)
	for i := 0; i < gv.NumField(); i++ {
		if !reflect.DeepEqual(gv.Field(i).Interface(), wv.Field(i).Interface()) {
			return "field-" + gv.Type().Field(i).Name
		}
	}
	return "field"
}

// ---------------------------------------------------------------- generators

var u32gen = rapid.OneOf(rapid.Uint32(), rapid.SampledFrom([]uint32{0, 1, 255, 256, 65535, 65536, 65537, 1<<24 - 1, 1 << 24, 1<<31 - 1, 1 << 31, 1<<32 - 1}))
var u64gen = rapid.OneOf(rapid.Uint64(), rapid.SampledFrom([]uint64{0, 1, 65536, 1<<32 - 1, 1 << 32, 1<<63 - 1, 1 << 63, 1<<63 + 1, 1<<64 - 1}))
var u16gen = rapid.OneOf(rapid.Uint16(), rapid.SampledFrom([]uint16{0, 1, 255, 256, 32767, 32768, 65535}))
var u8gen = rapid.OneOf(rapid.Uint8(), rapid.SampledFrom([]uint8{0, 1, 127, 128, 255}))

func ipgen(t *rapid.T, l string) [4]byte {
	var o [4]byte
	copy(o[:], rapid.SliceOfN(rapid.Byte(), 4, 4).Draw(t, l))
	return o
}

func ptr[T any](v T) *T { return &v }

func ids(t *rapid.T, l string) []uint32 {
	n := rapid.SampledFrom([]int{0, 0, 1, 1, 2, 3, 4}).Draw(t, l+"n")
	seen := map[uint32]bool{}
	var out []uint32
	for i := 0; i < n; i++ {
		v := u32gen.Draw(t, l)
		if !seen[v] {
			seen[v] = true
			out = append(out, v)
		}
	}
	return out
}

func genPDR(t *rapid.T) *PDR {
	p := &PDR{Update: rapid.Bool().Draw(t, "update"), SEID: u64gen.Draw(t, "seid"), ID: u16gen.Draw(t, "id")}
	if rapid.Bool().Draw(t, "hasprec") {
		p.Prec = ptr(u32gen.Draw(t, "prec"))
	}
	p.HasPDI = !p.Update || rapid.Bool().Draw(t, "haspdi")
	if p.HasPDI {
		p.SrcIf = rapid.SampledFrom([]uint8{0, 0, 1, 1, 2, 3}).Draw(t, "srcif")
		if rapid.Bool().Draw(t, "hasfteid") {
			p.FTEID = &FTEID{TEID: u32gen.Draw(t, "teid"), IP: ipgen(t, "fteidip")}
			if rapid.IntRange(0, 3).Draw(t, "fteid_dual") == 0 {
				p.FTEID.V6 = fmt.Sprintf("2001:db8::%x", rapid.IntRange(1, 0xffff).Draw(t, "fteid_v6"))
			}
		}
		if rapid.Bool().Draw(t, "hasueip") {
			p.UEIP = ptr(ipgen(t, "ueip"))
			p.UEFlags = rapid.SampledFrom([]uint8{0x02, 0x06, 0x02, 0x06, 0x03, 0x07}).Draw(t, "ueflags")
			if p.UEFlags&0x01 != 0 {
				p.UEV6 = fmt.Sprintf("2001:db8:1::%x", rapid.IntRange(1, 0xffff).Draw(t, "ue_v6"))
			}
		}
		n := rapid.SampledFrom([]int{0, 0, 1, 1, 2, 3}).Draw(t, "nsdf")
		for i := 0; i < n; i++ {
			var s SDF
			k := rapid.IntRange(0, 2).Draw(t, "sdfkind")
			if k != 1 {
				s.FD = flowgen.GenRule(t)
			}
			if k != 0 {
				s.HasBID = true
				s.BID = rapid.OneOf(rapid.Uint32Range(1, 1<<32-1), rapid.SampledFrom([]uint32{1, 65536, 1<<32 - 1})).Draw(t, "bid")
			}
			p.SDFs = append(p.SDFs, s)
		}
		if rapid.IntRange(0, 3).Draw(t, "ni") == 0 {
			p.NetInst = "internet"
		}
		if rapid.IntRange(0, 3).Draw(t, "app") == 0 {
			p.AppID = "app1"
		}
	}
	if rapid.Bool().Draw(t, "hasohr") {
		p.OHR = ptr(rapid.SampledFrom([]uint8{0, 1, 2, 3, 6, 255}).Draw(t, "ohr"))
		p.OHRForm = rapid.IntRange(0, 2).Draw(t, "ohr_form")
	}
	if rapid.Bool().Draw(t, "hasfar") {
		p.FAR = ptr(u32gen.Draw(t, "far"))
	}
	p.QERs = ids(t, "qer")
	p.URRs = ids(t, "urr")
	p.Order = rapid.SliceOfN(rapid.IntRange(0, 20), 0, 6).Draw(t, "order")
	p.PDIOrd = rapid.SliceOfN(rapid.IntRange(0, 20), 0, 6).Draw(t, "pdiorder")
	return p
}

func genFAR(t *rapid.T) *FAR {
	f := &FAR{Update: rapid.Bool().Draw(t, "update"), SEID: u64gen.Draw(t, "seid"), ID: u32gen.Draw(t, "id")}
	if !f.Update || rapid.Bool().Draw(t, "hasaction") {
		f.Action = ptr(rapid.OneOf(rapid.Uint16(), rapid.SampledFrom([]uint16{1, 2, 4, 0xc, 0x10, 0x80, 0x100, 0x1000, 0x1fff})).Draw(t, "action"))
		f.TwoOctets = rapid.Bool().Draw(t, "two")
		if !f.TwoOctets && *f.Action > 0xff && rapid.Bool().Draw(t, "clip") {
			*f.Action &= 0xff
		}
	}
	f.HasFP = rapid.Bool().Draw(t, "hasfp")
	if f.HasFP {
		if rapid.Bool().Draw(t, "hasdst") {
			f.DstIf = ptr(rapid.SampledFrom([]uint8{0, 1, 2}).Draw(t, "dstif"))
		}
		if rapid.IntRange(0, 3).Draw(t, "ni") == 0 {
			f.NetInst = "internet"
		}
		if rapid.IntRange(0, 3).Draw(t, "hasohc") != 0 {
			f.OHC = &OHC{GTPU: rapid.Bool().Draw(t, "gtpu"), TEID: u32gen.Draw(t, "teid"), IP: ipgen(t, "peer"), Port: u16gen.Draw(t, "port")}
		}
		if rapid.IntRange(0, 2).Draw(t, "haspol") == 0 {
			// the identifier's length is one octet: 1..255 octets, boundary-biased
			pl := rapid.OneOf(rapid.IntRange(1, 20), rapid.IntRange(1, 255), rapid.SampledFrom([]int{1, 63, 64, 127, 128, 253, 254, 255})).Draw(t, "policy_len")
			f.Policy = ptr(rapid.StringMatching(fmt.Sprintf(`[a-zA-Z0-9_-]{%d}`, pl)).Draw(t, "policy"))
		}
		if f.Update && rapid.IntRange(0, 2).Draw(t, "hassm") == 0 {
			f.SMReq = ptr(rapid.SampledFrom([]uint8{0, 1, 2, 4, 7, 255}).Draw(t, "smreq"))
		}
	}
	if rapid.Bool().Draw(t, "hasbar") {
		f.BAR = ptr(u8gen.Draw(t, "bar"))
	}
	f.Order = rapid.SliceOfN(rapid.IntRange(0, 20), 0, 6).Draw(t, "order")
	f.FPOrd = rapid.SliceOfN(rapid.IntRange(0, 20), 0, 6).Draw(t, "fporder")
	return f
}

func account(c Case, ident bool) {
	vcore.E.Eval()
	opt, big := 0, false
	if p := c.PDR; p != nil {
		vcore.E.Class(map[bool]string{false: "create_pdr", true: "update_pdr"}[p.Update])
		for _, b := range []bool{p.Prec != nil, p.FTEID != nil, p.UEIP != nil, len(p.SDFs) > 0, p.OHR != nil, p.FAR != nil, len(p.QERs) > 0, len(p.URRs) > 0} {
			if b {
				opt++
			}
		}
		big = p.SEID >= 1<<16 || (p.Prec != nil && *p.Prec >= 1<<16) || (p.FAR != nil && *p.FAR >= 1<<16)
		if p.HasPDI && p.SrcIf == 0 && len(p.SDFs) > 0 {
			vcore.E.Class("uplink_with_sdf")
		}
		if len(p.SDFs) >= 2 {
			vcore.E.Class("several_sdf_filters")
		}
		if (p.FTEID != nil && p.FTEID.V6 != "") || p.UEFlags&0x01 != 0 {
			vcore.E.Class("dual_stack_fteid_or_ue_address")
		}
	} else {
		f := c.FAR
		vcore.E.Class(map[bool]string{false: "create_far", true: "update_far"}[f.Update])
		for _, b := range []bool{f.Action != nil, f.OHC != nil, f.Policy != nil, f.SMReq != nil, f.BAR != nil, f.DstIf != nil} {
			if b {
				opt++
			}
		}
		big = f.SEID >= 1<<16 || f.ID >= 1<<16 || (f.OHC != nil && f.OHC.TEID >= 1<<16)
	}
	if !ident {
		vcore.E.Class("non_identity_order")
	}
	if opt >= 3 && !ident && big {
		vcore.E.NonTrivial(vcore.JSON(c))
		if c.PDR != nil {
			vcore.E.Sample("pdr", c)
		} else {
			vcore.E.Sample("far", c)
		}
	}
}

// runPipeline follows Create PDR / Create FAR IEs through the PFCP receive path while other requests are in flight: what
// the driver is handed must be the requesting session's own IE, octet for octet (package pipeline; model data plane).
func runPipeline(t vcore.Failer, c pipeline.Case) {
	v, st := pipeline.Run(c)
	vcore.E.Eval()
	vcore.E.Class("pipelined")
	if st.Queued >= 2 {
		vcore.E.Class("pipelined:>=2_datagrams_queued_behind_the_loop")
		vcore.E.NonTrivial(vcore.JSON(c))
	}
	vcore.Report(t, v, map[string]any{"pipeline": c})
}

// runPath follows the IEs of generated session messages through the PFCP session layer down to the netlink requests
// (package rulepath): an IE of an accepted message must not be lost on the way.
func runPath(t vcore.Failer, c rulepath.Case) {
	v, st := rulepath.Run(c, map[string]bool{"PDR": true, "FAR": true})
	vcore.E.Eval()
	vcore.E.Class("through_pfcp_layer")
	if st.Retried {
		vcore.E.Class("rule_path:create_retried_after_a_refusal_by_the_data_plane")
	}
	if st.Rejected {
		vcore.E.Exclude("message_with_a_duplicate_create_rejected_as_a_whole")
	}
	if st.SameNumber {
		vcore.E.Class("through_pfcp_layer:equal_ids_across_kinds")
		vcore.E.NonTrivial(vcore.JSON(c))
		vcore.E.Sample("through-pfcp-layer", rulepath.Brief(c))
	}
	vcore.Report(t, v, map[string]any{"path": c})
}

func TestC02(t *testing.T) {
	defer func() {
		if drv != nil {
			drv.Close()
		}
	}()
	files, explicit := vcore.ReplayFiles()
	for _, f := range files {
		var w struct {
			Case
			Pipeline *pipeline.Case `json:"pipeline"`
			Path     *rulepath.Case `json:"path"`
		}
		if err := vcore.LoadReplayCase(f, &w); err != nil {
			t.Fatalf("replay %s: %v", f, err)
		}
		if w.Pipeline != nil {
			vcore.E.Class("replayed")
			runPipeline(t, *w.Pipeline)
			continue
		}
		if w.Path != nil {
			vcore.E.Class("replayed")
			runPath(t, *w.Path)
			continue
		}
		c := w.Case
		v, ident := check(c)
		account(c, ident)
		vcore.E.Class("replayed")
		vcore.Report(t, v, c)
	}
	if explicit {
		return
	}
	vcore.Check(t, vcore.N(100, 2000), func(rt *rapid.T) {
		runPipeline(rt, pipeline.Gen(rt))
	})
	vcore.Check(t, vcore.N(300, 3000), func(rt *rapid.T) {
		runPath(rt, rulepath.Gen(rt))
	})
	vcore.Check(t, vcore.N(4000, 100000), func(rt *rapid.T) {
		c := Case{PDR: genPDR(rt)}
		v, ident := check(c)
		account(c, ident)
		vcore.Report(rt, v, c)
	})
	vcore.Check(t, vcore.N(4000, 100000), func(rt *rapid.T) {
		c := Case{FAR: genFAR(rt)}
		v, ident := check(c)
		account(c, ident)
		vcore.Report(rt, v, c)
	})
}
