//go:build verif

package c08

import (
	"testing"

	"pgregory.net/rapid"

	"github.com/free5gc/go-upf/internal/verif/pipeline"
	"github.com/free5gc/go-upf/internal/verif/rxwindow"
	"github.com/free5gc/go-upf/internal/verif/sessmodel"
	"github.com/free5gc/go-upf/internal/verif/stack"
	"github.com/free5gc/go-upf/internal/verif/vcore"
)

func TestMain(m *testing.M) {
	vcore.Init("C08", "exploration",
		"rapid histories (<= 25 ops) from 3 node sockets plus sockets that never associated: every request kind (Heartbeat, Association Setup, Establishment, Modification, Deletion), unknown node ids, missing Node ID / CP F-SEID, equal CP SEIDs chosen by different peers, "+
			"Create PDRs with and without UE IP address, unknown SEIDs of every class; oracle per request: an answer arrives only at the sending socket, echoes the sequence number, has the matching type; session-level answers carry the addressed session's CP SEID or SEID 0 with cause 65; "+
			"an accepted Establishment Response carries the UPF node id, a UP F-SEID (which an immediately following Modification addresses successfully) and one Created PDR per Create PDR with UE IP; a request answered with an error cause or not at all leaves server snapshot and model data plane unchanged; "+
			"all Heartbeat / Association Setup Responses carry byte-identical recovery time stamps; a socket's latest request sent once more byte for byte (after whatever other traffic) is answered at that socket by the datagram that answered the first copy, or not at all, and changes nothing. "+
			"Pipelining: 2-8 establishments / heartbeats of three peers (equal sequence numbers across peers) sent back to back while the event loop is parked inside the first one's data-plane call, so that the receiver queues them all; each must be answered once, at its own socket, with its own sequence number, CP SEID and a UP SEID of its own, and the data plane must hold each session's own rules octet for octet. non-trivial = history with >= 1 unanswered or error-answered request and two live sessions with equal CP SEIDs; (or >= 2 datagrams queued behind the parked loop); distinct by history",
		"CP SEIDs are unique per peer", "model data plane (kernel semantics) instead of gtp5g")
	vcore.Main(m)
}

var or = sessmodel.Oracles{Resp: true}

func cfg() sessmodel.GenCfg {
	g := stack.DefaultGen()
	g.MaxRules = 4
	return sessmodel.GenCfg{MaxOps: 25, SharedCP: true, Negative: true, Reports: true, Rules: g}
}

func account(c sessmodel.Case, r sessmodel.Result) {
	vcore.E.Eval()
	if r.Stats.Unanswered > 0 {
		vcore.E.Class("unanswered_request")
	}
	if r.Stats.ErrorAnswered > 0 {
		vcore.E.Class("error_answered_request")
	}
	if r.Stats.EqualCP {
		vcore.E.Class("equal_cp_seids")
	}
	if r.Stats.Takeovers > 0 {
		vcore.E.Class("with_takeover")
	}
	if r.Stats.Dups > 0 {
		vcore.E.Class("with_retransmitted_request")
	}
	if (r.Stats.Unanswered > 0 || r.Stats.ErrorAnswered > 0) && r.Stats.EqualCP {
		vcore.E.NonTrivial(vcore.JSON(c))
		vcore.E.Sample("negative+equal-cp", sessmodel.Brief(c))
	}
}

// runWindow: a request re-using an (address, sequence number) after the retention window gets its own answer (package rxwindow).
func runWindow(t vcore.Failer, c rxwindow.Case) {
	v, st := rxwindow.Run(c)
	vcore.E.Eval()
	vcore.E.Class("sequence_number_reused_after_window")
	if st.Keys >= 2 {
		vcore.E.NonTrivial(vcore.JSON(c))
	}
	vcore.Report(t, v, map[string]any{"window": c})
}

// runPipeline: several peers' requests in flight at once, queued behind a parked event loop (package pipeline).
func runPipeline(t vcore.Failer, c pipeline.Case) {
	v, st := pipeline.Run(c)
	vcore.E.Eval()
	vcore.E.Class("pipelined")
	if st.Queued >= 2 {
		vcore.E.Class("pipelined:>=2_datagrams_queued_behind_the_loop")
		vcore.E.NonTrivial(vcore.JSON(c))
		vcore.E.Sample("pipelined", pipeline.Brief(c))
	}
	vcore.Report(t, v, map[string]any{"pipeline": c})
}

func report(t vcore.Failer, c sessmodel.Case, r sessmodel.Result) {
	if r.V == nil || vcore.IsKnown(r.V.Key) {
		return
	}
	key := r.V.Key
	c.Ops = vcore.MinimizeSlice(c.Ops, func(ops []sessmodel.Op) bool {
		x := sessmodel.Run(sessmodel.Case{Ops: ops, Refuse: c.Refuse}, or)
		return x.V != nil && x.V.Key == key
	}, 300)
	if x := sessmodel.Run(c, or); x.V != nil {
		vcore.Report(t, x.V, c)
	}
	vcore.Report(t, r.V, c)
}

func TestC08(t *testing.T) {
	files, explicit := vcore.ReplayFiles()
	for _, f := range files {
		var w struct {
			sessmodel.Case
			Pipeline *pipeline.Case     `json:"pipeline"`
			Window   *rxwindow.Case     `json:"window"`
			Lost     *rxwindow.LostCase `json:"lost"`
		}
		if err := vcore.LoadReplayCase(f, &w); err != nil {
			t.Fatalf("replay %s: %v", f, err)
		}
		if w.Pipeline != nil {
			vcore.E.Class("replayed")
			runPipeline(t, *w.Pipeline)
			continue
		}
		if w.Window != nil {
			vcore.E.Class("replayed")
			runWindow(t, *w.Window)
			continue
		}
		if w.Lost != nil {
			vcore.E.Eval()
			vcore.E.Class("replayed")
			vcore.Report(t, rxwindow.RunLost(*w.Lost), map[string]any{"lost": w.Lost})
			continue
		}
		c := w.Case
		r := sessmodel.Run(c, or)
		account(c, r)
		vcore.E.Class("replayed")
		report(t, c, r)
	}
	if explicit {
		return
	}
	vcore.Check(t, vcore.N(150, 2500), func(rt *rapid.T) {
		runPipeline(rt, pipeline.Gen(rt))
	})
	// an answer that could not be sent: the request was executed, its retransmission gets the answer (package rxwindow)
	rxwindow.LostPart(t)
	vcore.Check(t, vcore.N(12, 80), func(rt *rapid.T) {
		runWindow(rt, rxwindow.Gen(rt))
	})
	// one fixed scenario lets a full second pass between answers: recovery
	// time stamps have one-second resolution, so a per-response clock read
	// would otherwise only show when a case happens to straddle a second
	{
		hb := func(peer int) sessmodel.Op { return sessmodel.Op{Op: stack.Op{Kind: "hb", Peer: peer, Sess: -1}} }
		c := sessmodel.Case{Ops: []sessmodel.Op{
			{Op: stack.Op{Kind: "assoc", Peer: 0, Node: 0, Sess: -1}}, hb(0),
			{Op: stack.Op{Kind: "sleep"}, SleepMs: 1100},
			hb(1), {Op: stack.Op{Kind: "assoc", Peer: 1, Node: 1, Sess: -1}}, hb(100),
		}}
		r := sessmodel.Run(c, or)
		account(c, r)
		vcore.E.Class("clock_scenario")
		report(t, c, r)
	}
	// a busy window: several hundred requests are retained at once (keep-alives of many peers, a burst of session traffic)
	// when a state-changing request arrives; it must be answered, or leave no trace, like any other - and so must the next
	for _, n := range []int{255, 300, 520} {
		hb := func(peer int) sessmodel.Op { return sessmodel.Op{Op: stack.Op{Kind: "hb", Peer: peer, Sess: -1}} }
		far := []stack.RuleOp{{Verb: "create", Kind: "FAR", ID: 1, Action: 2, HasAction: true}}
		ops := []sessmodel.Op{{Op: stack.Op{Kind: "assoc", Peer: 0, Node: 0, Sess: -1}}, {Op: stack.Op{Kind: "assoc", Peer: 1, Node: 1, Sess: -1}}}
		for i := 0; i < n; i++ {
			ops = append(ops, hb(i%2))
		}
		ops = append(ops,
			sessmodel.Op{Op: stack.Op{Kind: "est", Peer: 0, Node: 0, Sess: -1, CP: 0x31, Rules: far}},
			sessmodel.Op{Op: stack.Op{Kind: "est", Peer: 1, Node: 1, Sess: -1, CP: 0x32, Rules: far}},
			sessmodel.Op{Op: stack.Op{Kind: "mod", Peer: 0, Sess: 0, Rules: []stack.RuleOp{{Verb: "update", Kind: "FAR", ID: 1, Action: 1, HasAction: true}}}},
			sessmodel.Op{Op: stack.Op{Kind: "del", Peer: 1, Sess: 1}},
			hb(0))
		c := sessmodel.Case{Ops: ops}
		r := sessmodel.Run(c, or)
		account(c, r)
		vcore.E.Class("hundreds_of_requests_retained_at_once")
		if r.V != nil {
			// reported as found: minimising a history of hundreds of steps is not worth its time
			vcore.Report(t, r.V, c)
		}
	}
	g := cfg()
	vcore.Check(t, vcore.N(1200, 12000), func(rt *rapid.T) {
		g := g
		// one history in three has Modifications that carry a Node ID (another SMF of the set takes a session over): what the
		// UPF says about itself in later responses - its node id, its F-SEID address - must not change with whom it talks to
		g.Takeover = rapid.IntRange(0, 2).Draw(rt, "takeover") == 0
		c := sessmodel.Case{Ops: sessmodel.Gen(rt, g), Refuse: sessmodel.GenRefuse(rt)}
		r := sessmodel.Run(c, or)
		account(c, r)
		report(rt, c, r)
	})
}
