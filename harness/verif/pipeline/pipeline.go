//go:build verif

// Package pipeline checks PFCP request handling under pipelining: several
// peers have requests in flight at once, the receiver goroutine runs ahead of
// the event loop, and every request must still be answered and executed as if
// it had come alone (C02, C08 and C17 share it).
//
// The harness owns the schedule.  The first request is a Session Establishment
// whose first data-plane call parks the event loop (model-driver hook); the
// remaining datagrams are then sent back to back, the harness waits until the
// receiver has queued all of them, and releases the loop.
//
// Oracle (metamorphic: pipelined = one at a time): every request is answered
// exactly once, at the socket it came from, by the matching response type with
// its own sequence number (and, for establishments, its own CP SEID and a UP
// SEID nobody else got); the model data plane holds, under each new session's
// UP SEID, exactly the rules of that session's own request - compared octet
// for octet with the Create IEs the harness sent - and nothing else.
package pipeline

import (
	"fmt"
	"sync/atomic"
	"time"

	"github.com/wmnsk/go-pfcp/message"
	"pgregory.net/rapid"

	"github.com/free5gc/go-upf/internal/verif/stack"
	"github.com/free5gc/go-upf/internal/verif/vcore"
)

type Req struct {
	Kind string `json:"kind"` // est | hb
	Peer int    `json:"peer"` // 0..2
	Seq  uint32 `json:"seq"`
	// est: everything below is unique to the request
	CP   uint64 `json:"cp,omitempty"`
	PDR  uint32 `json:"pdr,omitempty"`
	Prec uint32 `json:"prec,omitempty"`
	UEIP string `json:"ueip,omitempty"`
	FAR  uint32 `json:"far,omitempty"`
	TEID uint32 `json:"teid,omitempty"`
}

type Case struct {
	Reqs []Req `json:"reqs"` // Reqs[0] is an establishment
}

type Stats struct {
	Queued int // datagrams sitting in the receive queue when the loop was released
}

func rules(q Req) []stack.RuleOp {
	return []stack.RuleOp{
		{Verb: "create", Kind: "FAR", ID: q.FAR, Action: 2, HasAction: true, OHC: &stack.OHC{TEID: q.TEID, Peer: "10.0.0.9"}},
		{Verb: "create", Kind: "PDR", ID: q.PDR, Prec: q.Prec, SrcIf: 1, UEIP: q.UEIP, FAR: q.FAR},
	}
}

// Run plays the case on a fresh server.
func Run(c Case) (v *vcore.Violation, stt Stats) {
	d := stack.NewModelDriver()
	gate := make(chan struct{})
	entered := make(chan struct{}, 1)
	var armed atomic.Bool
	d.Hook = func(op, kind string, seid uint64, id uint32) {
		if armed.CompareAndSwap(true, false) {
			select {
			case entered <- struct{}{}:
			default:
			}
			<-gate
		}
	}
	st, err := stack.New(stack.Opts{Driver: d, Nodes: 3})
	if err != nil {
		panic(fmt.Sprintf("infrastructure: %v", err))
	}
	released := false
	release := func() {
		if !released {
			released = true
			close(gate)
		}
	}
	defer func() {
		release()
		if cerr := st.Close(); cerr != nil && v == nil {
			v = vcore.Violatef("stop-hang", "%v", cerr)
		}
		if st.Dead != nil && v == nil {
			v = vcore.Violatef(st.Dead.Key, "UPF fatal exit: %.600s", st.Dead.Msg)
		}
	}()
	r := stack.NewRunner(st, d)
	for n := 0; n < 3; n++ {
		if o := r.Step(stack.Op{Kind: "assoc", Peer: n, Node: n, Sess: -1, Seq: 0x100 + uint32(n)}); o.Dead != nil || o.Stuck {
			return vcore.Violatef("prefix", "association of node %d failed", n), stt
		}
	}
	var dgs [][]byte
	for _, q := range c.Reqs {
		var b []byte
		var err error
		switch q.Kind {
		case "hb":
			b, err = r.Build(stack.Op{Kind: "hb", Peer: q.Peer}, q.Seq)
		default:
			b, err = r.Build(stack.Op{Kind: "est", Peer: q.Peer, Node: q.Peer, Sess: -1, CP: q.CP, Rules: rules(q)}, q.Seq)
		}
		if err != nil {
			panic(err)
		}
		dgs = append(dgs, b)
	}
	armed.Store(true)
	if err := st.Send(c.Reqs[0].Peer, dgs[0]); err != nil {
		panic(err)
	}
	select {
	case <-entered:
	case <-time.After(10 * time.Second):
		return vcore.Violatef("stuck", "the first establishment never reached the data plane"), stt
	}
	for i := 1; i < len(dgs); i++ {
		if err := st.Send(c.Reqs[i].Peer, dgs[i]); err != nil {
			panic(err)
		}
	}
	// let the receiver queue them all (it cannot hand anything to the parked loop)
	deadline := time.Now().Add(500 * time.Millisecond)
	for time.Now().Before(deadline) {
		rcv, _, _ := st.Srv.VerifQueues()
		stt.Queued = rcv
		if rcv >= len(dgs)-1 {
			break
		}
		time.Sleep(50 * time.Microsecond)
	}
	release()
	if err := st.Barrier(); err != nil {
		if e, ok := err.(*stack.ErrDead); ok {
			return vcore.Violatef(e.Info.Key, "UPF fatal exit: %.600s", e.Info.Msg), stt
		}
		return vcore.Violatef("stuck", "%v", err), stt
	}
	// ---- answers: one per request, at its own socket, with its own sequence number
	type key struct {
		peer int
		seq  uint32
	}
	got := map[key][]message.Message{}
	for _, sock := range st.AllSocks() {
		for _, dg := range st.Sock(sock).Drain() {
			m, err := message.Parse(dg.B)
			if err != nil {
				return vcore.Violatef("undecodable-answer", "socket %d received a datagram go-pfcp cannot parse: %x", sock, dg.B), stt
			}
			got[key{sock, m.Sequence()}] = append(got[key{sock, m.Sequence()}], m)
		}
	}
	want := map[key]Req{}
	for _, q := range c.Reqs {
		want[key{q.Peer, q.Seq}] = q
	}
	for k, ms := range got {
		if _, ok := want[k]; !ok {
			return vcore.Violatef("foreign-answer", "socket %d received a %s with sequence number %d, which it never used (requests in flight: %s)", k.peer, ms[0].MessageTypeName(), k.seq, Brief(c)), stt
		}
		if len(ms) > 1 {
			return vcore.Violatef("answered-twice", "request (socket %d, sequence %d) was answered %d times", k.peer, k.seq, len(ms)), stt
		}
	}
	ups := map[uint64]Req{}
	for k, q := range want {
		ms := got[k]
		if len(ms) == 0 {
			return vcore.Violatef("no-answer", "pipelined %s request (socket %d, sequence %d) was not answered (requests in flight: %s)", q.Kind, k.peer, k.seq, Brief(c)), stt
		}
		switch q.Kind {
		case "hb":
			if ms[0].MessageType() != message.MsgTypeHeartbeatResponse {
				return vcore.Violatef("answer-type", "Heartbeat Request (socket %d, sequence %d) answered with %s", k.peer, k.seq, ms[0].MessageTypeName()), stt
			}
		default:
			er, ok := ms[0].(*message.SessionEstablishmentResponse)
			if !ok {
				return vcore.Violatef("answer-type", "Establishment Request (socket %d, sequence %d) answered with %s", k.peer, k.seq, ms[0].MessageTypeName()), stt
			}
			if stack.Cause(er) != 1 {
				return vcore.Violatef("answer-cause", "Establishment Request (socket %d, sequence %d, CP SEID %#x) answered with cause %d", k.peer, k.seq, q.CP, stack.Cause(er)), stt
			}
			if er.SEID() != q.CP {
				return vcore.Violatef("answer-seid", "Establishment Response for (socket %d, sequence %d) carries SEID %#x, the request chose %#x", k.peer, k.seq, er.SEID(), q.CP), stt
			}
			if er.UPFSEID == nil {
				return vcore.Violatef("est-no-fseid", "Establishment Response without UP F-SEID"), stt
			}
			f, ferr := er.UPFSEID.FSEID()
			if ferr != nil {
				return vcore.Violatef("est-no-fseid", "UP F-SEID undecodable: %v", ferr), stt
			}
			if other, dup := ups[f.SEID]; dup {
				return vcore.Violatef("est-seid-live", "UP SEID %#x issued to two pipelined establishments (CP SEIDs %#x and %#x)", f.SEID, other.CP, q.CP), stt
			}
			ups[f.SEID] = q
		}
	}
	// ---- data plane: each new session holds exactly its own request's rules, octet for octet
	dp := d.Snapshot()
	for up, q := range ups {
		for _, ru := range rules(q) {
			b, _ := ru.IE().Marshal()
			k := stack.RuleKey{SEID: up, Kind: ru.Kind, ID: ru.ID}
			have, ok := dp[k]
			if !ok {
				return vcore.Violatef("rule-missing", "session %#x (CP SEID %#x, socket %d): %s %d of its Establishment Request is not in the data plane", up, q.CP, q.Peer, ru.Kind, ru.ID), stt
			}
			if have != string(b) {
				return vcore.Violatef("rule-content", "session %#x (CP SEID %#x, socket %d): %s %d reached the data plane as %x, the request carried %x (requests in flight: %s)", up, q.CP, q.Peer, ru.Kind, ru.ID, have, b, Brief(c)), stt
			}
			delete(dp, k)
		}
	}
	for k := range dp {
		return vcore.Violatef("rule-foreign", "the data plane holds %v, which none of the pipelined requests asked for under that session", k), stt
	}
	return nil, stt
}

// Gen draws 2..8 requests with pairwise different content.
func Gen(t *rapid.T) Case {
	n := rapid.IntRange(2, 8).Draw(t, "n")
	var c Case
	for i := 0; i < n; i++ {
		q := Req{Kind: "est", Peer: rapid.IntRange(0, 2).Draw(t, "peer"), Seq: uint32(10 + i)}
		if i > 0 && rapid.IntRange(0, 3).Draw(t, "hb") == 0 {
			q.Kind = "hb"
		}
		if rapid.Bool().Draw(t, "sameseq") {
			// equal sequence numbers from different sockets are different transactions
			q.Seq = uint32(10 + rapid.IntRange(0, 2).Draw(t, "seq"))
		}
		for clash := true; clash; {
			clash = false
			for _, o := range c.Reqs {
				if o.Peer == q.Peer && o.Seq == q.Seq {
					q.Seq++
					clash = true
				}
			}
		}
		if q.Kind == "est" {
			q.CP = 0x100 + uint64(i)
			q.PDR = uint32(1 + i)
			q.Prec = uint32(1000 + i)
			q.UEIP = fmt.Sprintf("10.60.%d.%d", i, rapid.IntRange(1, 250).Draw(t, "host"))
			q.FAR = uint32(20 + i)
			q.TEID = rapid.Uint32().Draw(t, "teid")
		}
		c.Reqs = append(c.Reqs, q)
	}
	return c
}

func Brief(c Case) string {
	s := ""
	for i, q := range c.Reqs {
		if i > 0 {
			s += " "
		}
		s += fmt.Sprintf("%s(sock%d,seq%d)", q.Kind, q.Peer, q.Seq)
	}
	return s
}
