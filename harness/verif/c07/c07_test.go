//go:build verif

package c07

import (
	"encoding/binary"
	"fmt"
	"net"
	"os"
	"strings"
	"testing"
	"time"

	"github.com/wmnsk/go-pfcp/ie"
	"github.com/wmnsk/go-pfcp/message"
	"pgregory.net/rapid"

	"github.com/free5gc/go-upf/internal/forwarder"
	"github.com/free5gc/go-upf/internal/verif/flowgen"
	"github.com/free5gc/go-upf/internal/verif/fullstack"
	"github.com/free5gc/go-upf/internal/verif/rxwindow"
	"github.com/free5gc/go-upf/internal/verif/sessmodel"
	"github.com/free5gc/go-upf/internal/verif/simkernel"
	"github.com/free5gc/go-upf/internal/verif/stack"
	"github.com/free5gc/go-upf/internal/verif/vcore"
)

func TestMain(m *testing.M) {
	vcore.Init("C07", "exploration",
		"after a drawn valid prefix (associate, establish 1-3 sessions with rich rules, one witness session of another node - in a third of the cases under a SEID that node 0 has held and released before; in half of the cases with live sessions 1-3 Session Report Requests of the UPF's own are left waiting, and response datagrams - Session Report Response in several forms, and response types the UPF never waits for - carry their sequence numbers from the node's socket, so that mutated responses reach the response handler): (1) structure-aware: a valid message of every type go-upf accepts (Heartbeat, Association Setup/Update/Release, PFD Management, Node Report, Session Set Deletion, "+
			"Session Establishment / Modification / Deletion Request, Session Report Response) is parsed into its IE tree and 1-4 mutations are applied - header flags / length / type / SEID / sequence at boundary values, IE length +-, truncation at any offset, IE type substitution (also vendor-specific), "+
			"nested IE corruption, value bytes set to boundary patterns, mandatory IE removal, duplication, reordering, self-nesting; (2) raw: arbitrary byte strings (mostly short, up to 64 KiB) with and without a plausible header; 1-3 such datagrams per case, from associated and never-associated sockets; "+
			"each case runs with the no-op driver and with the real gtp5g driver on the simulated kernel. Oracle: the fatal-exit hook has not fired, no goroutine of the server died, a Heartbeat Request is answered afterwards, and the witness session (never addressed by an offending datagram) still answers an empty Modification "+
			"with 'accepted' and, with the gtp5g driver, still has its rules in the simulated kernel. non-trivial = an offending datagram was accepted by go-pfcp's message.Parse, i.e. reached go-upf's handlers rather than dying in the codec; distinct by (message type, mutation kinds, driver)",
		"a late heartbeat answer counts as 'stopped serving' only when a goroutine dump shows the event loop blocked or spinning inside go-upf/go-pfcp code; otherwise the case is discarded as inconclusive and counted",
		"cases in which an offending datagram happens to address the witness session legitimately (its SEID, or an Association Setup naming its node) are discarded and counted")
	vcore.Main(m)
}

// ---------------------------------------------------------------- IE tree

type Node struct {
	Type     uint16  `json:"t"`
	Val      []byte  `json:"v,omitempty"`
	Kids     []*Node `json:"k,omitempty"`
	Grouped  bool    `json:"g,omitempty"`
	LenDelta int     `json:"d,omitempty"`
	LenSet   int     `json:"s,omitempty"` // -1 unset; otherwise the literal length field
	HasSet   bool    `json:"hs,omitempty"`
}

var grouped = map[uint16]bool{
	ie.CreatePDR: true, ie.PDI: true, ie.CreateFAR: true, ie.ForwardingParameters: true, ie.DuplicatingParameters: true, ie.CreateURR: true, ie.CreateQER: true,
	ie.CreatedPDR: true, ie.UpdatePDR: true, ie.UpdateFAR: true, ie.UpdateForwardingParameters: true, ie.UpdateBARWithinSessionReportResponse: true, ie.UpdateURR: true,
	ie.UpdateQER: true, ie.RemovePDR: true, ie.RemoveFAR: true, ie.RemoveURR: true, ie.RemoveQER: true, ie.CreateBAR: true, ie.UpdateBARWithinSessionModificationRequest: true,
	ie.RemoveBAR: true, ie.QueryURR: true, ie.UsageReportWithinSessionReportRequest: true, ie.DownlinkDataReport: true, ie.EthernetPacketFilter: true,
}

func parseIEs(b []byte) []*Node {
	var out []*Node
	for len(b) >= 4 {
		t := binary.BigEndian.Uint16(b[0:2])
		l := int(binary.BigEndian.Uint16(b[2:4]))
		if 4+l > len(b) {
			break
		}
		n := &Node{Type: t, Val: append([]byte(nil), b[4:4+l]...)}
		if grouped[t] {
			n.Grouped = true
			n.Kids = parseIEs(n.Val)
		}
		out = append(out, n)
		b = b[4+l:]
	}
	return out
}

func (n *Node) bytes() []byte {
	val := n.Val
	if n.Grouped {
		val = nil
		for _, k := range n.Kids {
			val = append(val, k.bytes()...)
		}
	}
	l := len(val) + n.LenDelta
	if n.HasSet {
		l = n.LenSet
	}
	if l < 0 {
		l = 0
	}
	out := make([]byte, 4, 4+len(val))
	binary.BigEndian.PutUint16(out[0:2], n.Type)
	binary.BigEndian.PutUint16(out[2:4], uint16(l))
	return append(out, val...)
}

func all(ns []*Node, out *[]*Node) {
	for _, n := range ns {
		*out = append(*out, n)
		all(n.Kids, out)
	}
}

// Msg is a PFCP datagram as header fields + IE tree (+ optional final truncation).
type Msg struct {
	Flags  uint8    `json:"flags"`
	Type   uint8    `json:"type"`
	LenSet int      `json:"len_set"` // -1: correct
	SEID   uint64   `json:"seid"`
	Seq    uint32   `json:"seq"`
	IEs    []*Node  `json:"ies"`
	Trunc  int      `json:"trunc"`         // -1: none; else cut the datagram to this many bytes
	Raw    []byte   `json:"raw,omitempty"` // raw layer: used instead of everything above
	From   int      `json:"from"`          // socket reference
	Muts   []string `json:"muts,omitempty"`
}

func (m *Msg) bytes() []byte {
	if m.Raw != nil {
		return m.Raw
	}
	var body []byte
	for _, n := range m.IEs {
		body = append(body, n.bytes()...)
	}
	hasSEID := m.Flags&1 != 0
	hl := 8
	if hasSEID {
		hl = 16
	}
	b := make([]byte, hl, hl+len(body))
	b[0], b[1] = m.Flags, m.Type
	l := hl - 4 + len(body)
	if m.LenSet >= 0 {
		l = m.LenSet
	}
	binary.BigEndian.PutUint16(b[2:4], uint16(l))
	off := 4
	if hasSEID {
		binary.BigEndian.PutUint64(b[4:12], m.SEID)
		off = 12
	}
	b[off], b[off+1], b[off+2] = byte(m.Seq>>16), byte(m.Seq>>8), byte(m.Seq)
	b = append(b, body...)
	if m.Trunc >= 0 && m.Trunc < len(b) {
		b = b[:m.Trunc]
	}
	return b
}

func fromBytes(b []byte) *Msg {
	m := &Msg{Flags: b[0], Type: b[1], LenSet: -1, Trunc: -1}
	off := 4
	if b[0]&1 != 0 {
		m.SEID = binary.BigEndian.Uint64(b[4:12])
		off = 12
	}
	m.Seq = uint32(b[off])<<16 | uint32(b[off+1])<<8 | uint32(b[off+2])
	m.IEs = parseIEs(b[off+4:])
	return m
}

// ---------------------------------------------------------------- valid base messages

func richRules(teid uint32) []*ie.IE {
	return []*ie.IE{
		ie.NewCreatePDR(ie.NewPDRID(1), ie.NewPrecedence(255),
			ie.NewPDI(ie.NewSourceInterface(ie.SrcInterfaceAccess), ie.NewFTEID(0x01, teid, net.ParseIP("10.0.0.1"), nil, 0), ie.NewNetworkInstance("internet"),
				ie.NewSDFFilter("permit out ip from 10.1.0.0/16 80,443 to assigned 1000-2000", "", "", "", 7)),
			ie.NewOuterHeaderRemoval(0, 0), ie.NewFARID(1), ie.NewQERID(1), ie.NewURRID(1)),
		ie.NewCreatePDR(ie.NewPDRID(2), ie.NewPrecedence(255),
			ie.NewPDI(ie.NewSourceInterface(ie.SrcInterfaceCore), ie.NewUEIPAddress(2, "10.60.0.1", "", 0, 0)), ie.NewFARID(2), ie.NewQERID(1), ie.NewURRID(1)),
		ie.NewCreateFAR(ie.NewFARID(1), ie.NewApplyAction(2), ie.NewForwardingParameters(ie.NewDestinationInterface(ie.DstInterfaceCore), ie.NewNetworkInstance("internet"))),
		ie.NewCreateFAR(ie.NewFARID(2), ie.NewApplyAction(0x0c), ie.NewForwardingParameters(ie.NewDestinationInterface(ie.DstInterfaceAccess),
			ie.NewOuterHeaderCreation(0x0100, teid+1, "10.0.0.9", "", 0, 0, 0), ie.NewForwardingPolicy("pol")), ie.NewBARID(1)),
		ie.NewCreateQER(ie.NewQERID(1), ie.NewGateStatus(0, 0), ie.NewMBR(1000000, 2000000), ie.NewGBR(1000, 2000), ie.NewQFI(9), ie.NewRQI(1), ie.NewPagingPolicyIndicator(1), ie.NewQERCorrelationID(5)),
		ie.NewCreateURR(ie.NewURRID(1), ie.NewMeasurementMethod(0, 1, 1), ie.NewReportingTriggers(0x03, 0x01), ie.NewMeasurementPeriod(3600*time.Second),
			ie.NewVolumeThreshold(7, 1000, 500, 500), ie.NewVolumeQuota(1, 99999, 0, 0), ie.NewMeasurementInformation(0x10)),
		ie.NewCreateBAR(ie.NewBARID(1), ie.NewDownlinkDataNotificationDelay(100*time.Millisecond), ie.NewSuggestedBufferingPacketsCount(10)),
	}
}

func baseMessages(nodeID string, seids []uint64) [][]byte {
	ts := ie.NewRecoveryTimeStamp(time.Unix(1700000000, 0))
	sid := func(i int) uint64 {
		if len(seids) == 0 {
			return 1
		}
		return seids[i%len(seids)]
	}
	est := append([]*ie.IE{ie.NewNodeID(nodeID, "", ""), ie.NewFSEID(0x99, net.ParseIP(nodeID), nil)}, richRules(0x2000)...)
	mod := []*ie.IE{
		ie.NewUpdatePDR(ie.NewPDRID(1), ie.NewPrecedence(10), ie.NewPDI(ie.NewSourceInterface(ie.SrcInterfaceAccess), ie.NewSDFFilter("permit out 17 from any to assigned", "", "", "", 0)), ie.NewFARID(2), ie.NewURRID(1)),
		ie.NewUpdateFAR(ie.NewFARID(2), ie.NewApplyAction(2), ie.NewUpdateForwardingParameters(ie.NewDestinationInterface(ie.DstInterfaceAccess), ie.NewOuterHeaderCreation(0x0100, 77, "10.0.0.8", "", 0, 0, 0), ie.NewPFCPSMReqFlags(1))),
		ie.NewUpdateQER(ie.NewQERID(1), ie.NewGateStatus(1, 1), ie.NewMBR(5, 6)),
		ie.NewUpdateURR(ie.NewURRID(1), ie.NewMeasurementMethod(0, 1, 0), ie.NewReportingTriggers(0x02, 0x00), ie.NewVolumeThreshold(1, 5, 0, 0)),
		ie.NewUpdateBARWithinSessionModificationRequest(ie.NewBARID(1), ie.NewDownlinkDataNotificationDelay(50*time.Millisecond)),
		ie.NewQueryURR(ie.NewURRID(1)),
		ie.NewCreateQER(ie.NewQERID(2), ie.NewGateStatus(0, 0), ie.NewQFI(5)),
		ie.NewRemoveQER(ie.NewQERID(2)),
	}
	mod2 := []*ie.IE{
		ie.NewRemovePDR(ie.NewPDRID(2)), ie.NewRemoveFAR(ie.NewFARID(1)), ie.NewRemoveURR(ie.NewURRID(1)), ie.NewRemoveBAR(ie.NewBARID(1)),
		ie.NewCreatePDR(ie.NewPDRID(3), ie.NewPrecedence(1), ie.NewPDI(ie.NewSourceInterface(ie.SrcInterfaceCore)), ie.NewFARID(2)),
		ie.NewNodeID(nodeID, "", ""),
	}
	ms := []message.Message{
		message.NewHeartbeatRequest(11, ts, nil),
		message.NewAssociationSetupRequest(12, ie.NewNodeID(nodeID, "", ""), ts, ie.NewCPFunctionFeatures(0x3f)),
		message.NewAssociationUpdateRequest(13, ie.NewNodeID(nodeID, "", "")),
		message.NewAssociationReleaseRequest(14, ie.NewNodeID(nodeID, "", "")),
		message.NewPFDManagementRequest(15),
		message.NewNodeReportRequest(16, ie.NewNodeID(nodeID, "", "")),
		message.NewSessionSetDeletionRequest(17, ie.NewNodeID(nodeID, "", ""), nil),
		message.NewSessionEstablishmentRequest(0, 0, 0, 18, 0, est...),
		message.NewSessionModificationRequest(0, 0, sid(0), 19, 0, mod...),
		message.NewSessionModificationRequest(0, 0, sid(1), 20, 0, mod2...),
		message.NewSessionDeletionRequest(0, 0, sid(2), 21, 0),
		message.NewSessionReportResponse(0, 0, sid(0), 22, 0, ie.NewCause(ie.CauseRequestAccepted)),
		message.NewSessionReportResponse(0, 0, 0, 23, 0, ie.NewCause(ie.CauseSessionContextNotFound)),
		message.NewHeartbeatResponse(24, ts),
		message.NewSessionEstablishmentRequest(0, 0, 0, 25, 0, ie.NewNodeID("", "", "smf.example.org"), ie.NewFSEID(0x98, nil, net.ParseIP("2001:db8::1"))),
		// responses (15-20): the UPF only ever waits for Session Report Responses
		message.NewSessionReportResponse(0, 0, sid(1), 26, 0, ie.NewCause(ie.CauseRequestAccepted), ie.NewOffendingIE(ie.PDRID),
			ie.NewUpdateBARWithinSessionReportResponse(ie.NewBARID(1), ie.NewDownlinkDataNotificationDelay(50*time.Millisecond), ie.NewSuggestedBufferingPacketsCount(3)), ie.NewPFCPSRRspFlags(1)),
		message.NewSessionReportResponse(0, 0, sid(0), 27, 0, ie.NewCause(ie.CauseRequestRejected)),
		message.NewSessionModificationResponse(0, 0, sid(0), 28, 0, ie.NewCause(ie.CauseRequestAccepted)),
		message.NewSessionEstablishmentResponse(0, 0, sid(0), 29, 0, ie.NewNodeID(nodeID, "", ""), ie.NewCause(ie.CauseRequestAccepted), ie.NewFSEID(0x99, net.ParseIP(nodeID), nil)),
		message.NewAssociationSetupResponse(30, ie.NewNodeID(nodeID, "", ""), ie.NewCause(ie.CauseRequestAccepted), ts),
		message.NewSessionDeletionResponse(0, 0, sid(0), 31, 0, ie.NewCause(ie.CauseRequestAccepted)),
	}
	var out [][]byte
	for _, m := range ms {
		out = append(out, stack.Marshal(m))
	}
	return out
}

// ---------------------------------------------------------------- mutations

var seidVals = []uint64{0, 1, 2, 3, 4, 7, 1000, 1<<63 - 1, 1 << 63, 1<<63 + 1, 1<<64 - 1}
var knownTypes = []uint16{ie.CreatePDR, ie.PDI, ie.CreateFAR, ie.ForwardingParameters, ie.CreateURR, ie.CreateQER, ie.UpdatePDR, ie.UpdateFAR, ie.UpdateForwardingParameters,
	ie.UpdateURR, ie.UpdateQER, ie.RemovePDR, ie.RemoveFAR, ie.RemoveURR, ie.RemoveQER, ie.CreateBAR, ie.RemoveBAR, ie.QueryURR, ie.Cause, ie.SourceInterface, ie.FTEID, ie.NetworkInstance,
	ie.SDFFilter, ie.ApplicationID, ie.GateStatus, ie.MBR, ie.GBR, ie.QERCorrelationID, ie.Precedence, ie.ReportingTriggers, ie.VolumeThreshold, ie.VolumeQuota, ie.MeasurementPeriod,
	ie.MeasurementMethod, ie.MeasurementInformation, ie.UEIPAddress, ie.OuterHeaderCreation, ie.OuterHeaderRemoval, ie.ForwardingPolicy, ie.DestinationInterface, ie.ApplyAction,
	ie.PDRID, ie.FARID, ie.QERID, ie.URRID, ie.BARID, ie.FSEID, ie.NodeID, ie.RecoveryTimeStamp, ie.QFI, ie.RQI, ie.PagingPolicyIndicator, ie.PFCPSMReqFlags,
	ie.DownlinkDataNotificationDelay, ie.SuggestedBufferingPacketsCount, ie.UpdateBARWithinSessionModificationRequest, 0, 0xffff, 0x8001, 0x7fff, 300}

// toTail moves target to the end of its group, the group to the end of its group, and so on up to the message.
func toTail(ns []*Node, target *Node) ([]*Node, bool) {
	for i, n := range ns {
		hit := n == target
		if !hit && len(n.Kids) > 0 {
			n.Kids, hit = toTail(n.Kids, target)
		}
		if hit {
			out := append(append([]*Node{}, ns[:i]...), ns[i+1:]...)
			return append(out, n), true
		}
	}
	return ns, false
}

func mutate(t *rapid.T, m *Msg, witness uint64) {
	var nodes []*Node
	all(m.IEs, &nodes)
	pick := func() *Node {
		if len(nodes) == 0 {
			return nil
		}
		return nodes[rapid.IntRange(0, len(nodes)-1).Draw(t, "node")]
	}
	deepTypes := map[uint16]bool{ie.SDFFilter: true, ie.OuterHeaderCreation: true, ie.FTEID: true, ie.UEIPAddress: true, ie.FSEID: true, ie.NodeID: true,
		ie.VolumeThreshold: true, ie.VolumeQuota: true, ie.MBR: true, ie.GBR: true, ie.ApplyAction: true, ie.ReportingTriggers: true, ie.MeasurementPeriod: true,
		ie.OuterHeaderRemoval: true, ie.ForwardingPolicy: true, ie.NetworkInstance: true, ie.DownlinkDataNotificationDelay: true, ie.MeasurementInformation: true}
	var deep []*Node
	for _, n := range nodes {
		if deepTypes[n.Type] && !n.Grouped {
			deep = append(deep, n)
		}
	}
	idTypes := map[uint16]bool{ie.PDRID: true, ie.FARID: true, ie.QERID: true, ie.URRID: true, ie.BARID: true}
	var idNodes []*Node
	for _, n := range nodes {
		if idTypes[n.Type] && !n.Grouped {
			idNodes = append(idNodes, n)
		}
	}
	var sdf []*Node
	for _, n := range nodes {
		if n.Type == ie.SDFFilter && !n.Grouped {
			sdf = append(sdf, n)
		}
	}
	var grouped []*Node
	for _, n := range nodes {
		if n.Grouped && len(n.Kids) > 0 {
			grouped = append(grouped, n)
		}
	}
	k := rapid.SampledFrom([]string{"kid-del", "kid-del", "kid-del", "sdf-text", "sdf-text", "sdf-text", "id-value", "id-value", "id-value", "id-value", "deep-field", "deep-field", "deep-field", "deep-field", "deep-trunc", "deep-trunc", "hdr-flags", "hdr-len", "hdr-type", "hdr-seid", "hdr-seq", "ie-type", "ie-len-delta", "ie-len-set", "ie-trunc", "ie-extend",
		"ie-pattern", "ie-flipbit", "ie-dup", "ie-del", "ie-swap", "ie-nest", "ie-empty", "trunc", "ie-type", "ie-len-delta", "ie-pattern", "ie-flipbit", "to-tail", "to-tail", "to-tail"}).Draw(t, "mut")
	m.Muts = append(m.Muts, k)
	switch k {
	case "to-tail":
		// a well-formed message in another (legal) IE order: one leaf IE becomes the last IE of its group, the group the last of
		// its group ... so that the leaf's last octet is the last octet of the datagram - a decoder reading past the IE's
		// length finds the next IE's header anywhere else, and the end of the receive buffer here
		var leaves []*Node
		for _, n := range nodes {
			if !n.Grouped {
				leaves = append(leaves, n)
			}
		}
		if len(leaves) > 0 {
			m.IEs, _ = toTail(m.IEs, leaves[rapid.IntRange(0, len(leaves)-1).Draw(t, "leaf")])
		}
	case "kid-del":
		// an otherwise well-formed grouped IE (at any depth) lacking one of its children: conditional and mandatory IEs absent
		if len(grouped) > 0 {
			n := grouped[rapid.IntRange(0, len(grouped)-1).Draw(t, "grouped")]
			j := rapid.IntRange(0, len(n.Kids)-1).Draw(t, "kid")
			n.Kids = append(n.Kids[:j:j], n.Kids[j+1:]...)
		}
	case "sdf-text":
		// a well-formed SDF Filter IE whose flow description is a valid rule or a near miss of one (token dropped,
		// text cut after any token, broken ports / addresses ...): reaches the driver's flow-description parser
		if len(sdf) > 0 {
			n := sdf[rapid.IntRange(0, len(sdf)-1).Draw(t, "sdf")]
			r := flowgen.GenRule(t)
			txt := r.Text()
			switch rapid.IntRange(0, 4).Draw(t, "how") {
			case 0:
			case 1, 2:
				txt = flowgen.Mutate(t, r)
			default:
				toks := r.Tokens()
				txt = strings.Join(toks[:rapid.IntRange(0, len(toks)-1).Draw(t, "cut")], " ")
			}
			n.Val = append([]byte{0x01, 0x00, byte(len(txt) >> 8), byte(len(txt))}, txt...)
		}
	case "id-value":
		// a well-formed message naming a rule id the session does not have (or the extreme values of the id space)
		if len(idNodes) > 0 {
			n := idNodes[rapid.IntRange(0, len(idNodes)-1).Draw(t, "idnode")]
			v := rapid.SampledFrom([]uint32{0, 1, 2, 3, 7, 255, 256, 65535, 65536, 1<<31 - 1, 1 << 31, 1<<32 - 1}).Draw(t, "idval")
			for i := range n.Val {
				n.Val[len(n.Val)-1-i] = byte(v >> (8 * i))
			}
		}
	case "deep-field":
		// IEs whose fields go-upf's driver decodes through go-pfcp's field parsers: flag octets and inner length fields sit in the first octets
		if len(deep) > 0 {
			n := deep[rapid.IntRange(0, len(deep)-1).Draw(t, "deep")]
			if len(n.Val) > 0 {
				i := rapid.IntRange(0, min(len(n.Val)-1, 5)).Draw(t, "octet")
				switch rapid.IntRange(0, 2).Draw(t, "how") {
				case 0:
					n.Val[i] = rapid.SampledFrom([]byte{0x00, 0xff, 0x80, 0x7f, 0x0f, 0xf0, 0x01}).Draw(t, "val")
				case 1:
					n.Val[i] ^= 1 << uint(rapid.IntRange(0, 7).Draw(t, "bit"))
				default:
					n.Val[i] = rapid.Byte().Draw(t, "byte")
				}
				// a flag that announces a further field, together with surplus octets, reaches the decoder of that field
				if rapid.IntRange(0, 2).Draw(t, "extend") == 0 {
					n.Val = append(n.Val, rapid.SliceOfN(rapid.Byte(), 1, 8).Draw(t, "surplus")...)
				}
			}
		}
	case "deep-trunc":
		if len(deep) > 0 {
			n := deep[rapid.IntRange(0, len(deep)-1).Draw(t, "deep")]
			if len(n.Val) > 0 {
				n.Val = n.Val[:rapid.IntRange(0, len(n.Val)-1).Draw(t, "keep")]
			}
		}
	case "hdr-flags":
		m.Flags ^= 1 << uint(rapid.IntRange(0, 7).Draw(t, "bit"))
	case "hdr-len":
		// the 16-bit length field: small values, both ends of the range (arithmetic on it may wrap), the sign boundary
		m.LenSet = rapid.OneOf(rapid.SampledFrom([]int{0, 1, 4, 8, 12, 0xffff, 0x7fff, 0x8000}), rapid.IntRange(0xfff0, 0xffff), rapid.IntRange(0, 20), rapid.IntRange(0, 0xffff)).Draw(t, "len")
		if rapid.Bool().Draw(t, "near") {
			cur := len(m.bytes()) - 4
			m.LenSet = cur + rapid.SampledFrom([]int{-9, -4, -1, 1, 4, 9}).Draw(t, "d")
			if m.LenSet < 0 {
				m.LenSet = 0
			}
		}
	case "hdr-type":
		m.Type = rapid.OneOf(rapid.Uint8(), rapid.SampledFrom([]uint8{0, 1, 2, 3, 4, 5, 6, 7, 8, 9, 10, 11, 12, 13, 14, 15, 50, 51, 52, 53, 54, 55, 56, 57, 255})).Draw(t, "type")
	case "hdr-seid":
		v := rapid.OneOf(rapid.SampledFrom(seidVals), rapid.Uint64()).Draw(t, "seid")
		if v == witness {
			v++
		}
		m.SEID = v
	case "hdr-seq":
		m.Seq = rapid.SampledFrom([]uint32{0, 1, 1<<24 - 1, 0x800000}).Draw(t, "seq")
	case "ie-type":
		if n := pick(); n != nil {
			n.Type = rapid.OneOf(rapid.SampledFrom(knownTypes), rapid.Uint16()).Draw(t, "newtype")
			// keep the bytes: a grouped node stays serialised from its children
		}
	case "ie-len-delta":
		if n := pick(); n != nil {
			n.LenDelta = rapid.SampledFrom([]int{-8, -4, -2, -1, 1, 2, 4, 8, 100}).Draw(t, "delta")
		}
	case "ie-len-set":
		if n := pick(); n != nil {
			n.HasSet, n.LenSet = true, rapid.OneOf(rapid.SampledFrom([]int{0, 1, 2, 3, 0xffff, 0x8000, 0x7fff, 255, 256}), rapid.IntRange(0xfff0, 0xffff), rapid.IntRange(0, 12)).Draw(t, "lenset")
		}
	case "ie-trunc":
		if n := pick(); n != nil && !n.Grouped && len(n.Val) > 0 {
			n.Val = n.Val[:rapid.IntRange(0, len(n.Val)-1).Draw(t, "keep")]
		}
	case "ie-extend":
		if n := pick(); n != nil && !n.Grouped {
			n.Val = append(n.Val, rapid.SliceOfN(rapid.Byte(), 1, 40).Draw(t, "junk")...)
		}
	case "ie-pattern":
		if n := pick(); n != nil && !n.Grouped {
			p := rapid.SampledFrom([]byte{0x00, 0xff, 0x80, 0x7f, 0x01, 0x20}).Draw(t, "pat")
			i := 0
			if len(n.Val) > 1 && rapid.Bool().Draw(t, "keepfirst") {
				i = 1
			}
			for ; i < len(n.Val); i++ {
				n.Val[i] = p
			}
		}
	case "ie-flipbit":
		if n := pick(); n != nil && !n.Grouped && len(n.Val) > 0 {
			i := rapid.IntRange(0, min(len(n.Val)-1, 3)).Draw(t, "octet")
			n.Val[i] ^= 1 << uint(rapid.IntRange(0, 7).Draw(t, "bit"))
		}
	case "ie-dup":
		if n := pick(); n != nil {
			m.IEs = append(m.IEs, n)
		}
	case "ie-del":
		if len(m.IEs) > 0 {
			i := rapid.IntRange(0, len(m.IEs)-1).Draw(t, "idx")
			if len(m.IEs[i].Kids) > 0 && rapid.Bool().Draw(t, "child") {
				j := rapid.IntRange(0, len(m.IEs[i].Kids)-1).Draw(t, "kid")
				m.IEs[i].Kids = append(m.IEs[i].Kids[:j:j], m.IEs[i].Kids[j+1:]...)
			} else {
				m.IEs = append(m.IEs[:i:i], m.IEs[i+1:]...)
			}
		}
	case "ie-swap":
		if len(m.IEs) > 1 {
			i := rapid.IntRange(0, len(m.IEs)-2).Draw(t, "idx")
			m.IEs[i], m.IEs[i+1] = m.IEs[i+1], m.IEs[i]
		}
	case "ie-nest":
		if n := pick(); n != nil {
			cp := *n
			n.Grouped, n.Kids = true, []*Node{&cp}
		}
	case "ie-empty":
		if n := pick(); n != nil {
			n.Grouped, n.Kids, n.Val = false, nil, nil
		}
	case "trunc":
		l := len(m.bytes())
		m.Trunc = rapid.IntRange(0, max(l-1, 0)).Draw(t, "cut")
	}
}

// ---------------------------------------------------------------- case

type Case struct {
	Driver   string `json:"driver"`   // empty | gtp5g
	Sessions int    `json:"sessions"` // sessions of node 0 established in the prefix
	Deleted  int    `json:"deleted"`
	// Outstanding: so many Session Report Requests of the UPF's own (sequence numbers 0, 1, ... to node 0) are waiting for their
	// response when the offending datagrams arrive, so that a response datagram with such a number reaches the response handler
	Outstanding int    `json:"outstanding,omitempty"`
	Recycled    bool   `json:"recycled,omitempty"` // node 0 has held and released the witness's SEID before the witness got it
	Msgs        []*Msg `json:"msgs"`
}

type result struct {
	v             *vcore.Violation
	parsed        int
	types         []string
	excluded      string
	emptyDatagram bool
	outstanding   int
	matched       int // response datagrams that met a waiting request of the UPF's
}

func run(c Case) (res result) {
	vcore.Journal(c)
	var f *fullstack.Full
	var st *stack.Stack
	var err error
	if c.Driver == "gtp5g" {
		f, err = fullstack.NewFull(fullstack.FullOpts{Nodes: 2, Gtpu: true}) // buffered packets of the prefix reports may be released: the driver needs its GTP-U socket
		if err != nil {
			panic("infrastructure: " + err.Error())
		}
		st = f.S
	} else {
		st, err = stack.New(stack.Opts{Driver: forwarder.Empty{}, Nodes: 2})
		if err != nil {
			panic("infrastructure: " + err.Error())
		}
	}
	defer func() {
		var cerr error
		if f != nil {
			cerr = f.Close()
		} else {
			cerr = st.Close()
		}
		if cerr != nil && res.v == nil && res.excluded == "" {
			res.v = vcore.Violatef("stop-hang", "%v", cerr)
		}
		if st.Dead != nil && res.v == nil {
			res.v = vcore.Violatef(st.Dead.Key, "UPF fatal exit: %.900s", st.Dead.Msg)
		}
	}()
	r := stack.NewRunner(st, nil)
	step := func(op stack.Op) *stack.Obs { return r.Step(op) }
	for n := 0; n < 2; n++ {
		if o := step(stack.Op{Kind: "assoc", Peer: n, Node: n, Sess: -1}); o.Dead != nil {
			res.v = vcore.Violatef(o.Dead.Key, "prefix: UPF fatal exit")
			return
		}
	}
	rules := func(base uint32) []stack.RuleOp {
		return []stack.RuleOp{
			{Verb: "create", Kind: "QER", ID: 1, QFI: 9}, {Verb: "create", Kind: "URR", ID: 1, Method: 2, Trig: 2},
			{Verb: "create", Kind: "FAR", ID: 1, Action: 2, HasAction: true, OHC: &stack.OHC{TEID: base, Peer: "10.0.0.9"}},
			{Verb: "create", Kind: "FAR", ID: 2, Action: 0x0c, HasAction: true, OHC: &stack.OHC{TEID: base + 1, Peer: "10.0.0.9"}},
			{Verb: "create", Kind: "PDR", ID: 1, Prec: 1, SrcIf: 1, UEIP: "10.60.0.1", FAR: 1, QERs: []uint32{1}, URRs: []uint32{1}},
			{Verb: "create", Kind: "PDR", ID: 2, Prec: 1, SrcIf: 0, FAR: 2, QERs: []uint32{1}},
		}
	}
	if c.Recycled {
		// the witness lives under a SEID that node 0 held and released before: whatever node 0's bookkeeping still says about
		// that SEID, (offending or valid) messages of node 0 must not touch the witness
		o := step(stack.Op{Kind: "est", Peer: 0, Node: 0, Sess: -1, CP: 0x0f, Rules: rules(0x80)})
		if o.Dead != nil || o.NewSess < 0 || !r.Sess[o.NewSess].Known {
			res.v = vcore.Violatef("prefix", "prefix session not established")
			return
		}
		if o2 := step(stack.Op{Kind: "del", Peer: 0, Sess: o.NewSess}); o2.Dead != nil {
			res.v = vcore.Violatef(o2.Dead.Key, "prefix: UPF fatal exit")
			return
		}
	}
	// witness session of node 1
	ow := step(stack.Op{Kind: "est", Peer: 1, Node: 1, Sess: -1, CP: 0x771, Rules: rules(0x100)})
	if ow.Dead != nil || ow.NewSess < 0 || !r.Sess[ow.NewSess].Known {
		res.v = vcore.Violatef("prefix", "witness session not established")
		return
	}
	witness := r.Sess[ow.NewSess].UP
	var seids []uint64
	for i := 0; i < c.Sessions; i++ {
		o := step(stack.Op{Kind: "est", Peer: 0, Node: 0, Sess: -1, CP: uint64(0x10 + i), Rules: rules(uint32(0x200 + 16*i))})
		if o.Dead != nil {
			res.v = vcore.Violatef(o.Dead.Key, "prefix: UPF fatal exit")
			return
		}
		if o.NewSess >= 0 && r.Sess[o.NewSess].Known {
			seids = append(seids, r.Sess[o.NewSess].UP)
		}
	}
	for i := 0; i < c.Deleted && i < len(seids); i++ {
		step(stack.Op{Kind: "del", Peer: 0, Sess: -1, Raw: seids[i]})
	}
	if live := seids[min(c.Deleted, len(seids)):]; len(live) > 0 {
		for i := 0; i < c.Outstanding; i++ {
			op := stack.Op{Kind: "report", Sess: -1, Raw: live[i%len(live)], URRs: []uint32{1}, Trig: 2}
			if i%2 == 1 {
				op = stack.Op{Kind: "report", Sess: -1, Raw: live[i%len(live)], DLDR: true, PDR: 2, Action: 0x0c, Payload: []byte{0x45, 0, 0, 20}}
			}
			if o := step(op); o.Dead != nil {
				res.v = vcore.Violatef(o.Dead.Key, "prefix: report: UPF fatal exit")
				return
			}
			res.outstanding += len(r.Pending[0])
			r.Pending[0] = nil
		}
	}
	var witnessRules []simkernel.RuleKey
	if f != nil {
		for _, k := range f.D.K.Keys() {
			if k.SEID == witness {
				witnessRules = append(witnessRules, k)
			}
		}
	}
	// ---- offending datagrams
	for _, m := range c.Msgs {
		b := m.bytes()
		if len(b) == 0 {
			res.emptyDatagram = true
		}
		if pm, err := message.Parse(b); err == nil {
			res.parsed++
			res.types = append(res.types, pm.MessageTypeName())
			if strings.HasSuffix(pm.MessageTypeName(), "Response") && m.From < 100 {
				for _, e := range st.Srv.VerifTxTable() {
					if e.Addr == st.Sock(m.From).Addr.String() && e.Seq == pm.Sequence() {
						res.matched++
					}
				}
			}
			if pm.SEID() == witness && b[0]&1 != 0 {
				res.excluded = "addresses-witness"
			}
			if ar, ok := pm.(*message.AssociationSetupRequest); ok && ar.NodeID != nil {
				if id, err := ar.NodeID.NodeID(); err == nil && id == st.NodeID(1) {
					res.excluded = "reassociates-witness-node"
				}
			}
			if mr, ok := pm.(*message.SessionModificationRequest); ok && mr.NodeID != nil {
				if id, err := mr.NodeID.NodeID(); err == nil && id == st.NodeID(1) {
					res.excluded = "takeover-onto-witness-node"
				}
			}
		}
		if res.excluded != "" {
			return
		}
		o := r.SendRaw(m.From, b)
		if o.Dead != nil {
			res.v = vcore.Violatef(o.Dead.Key, "datagram %x... (%d bytes, mutations %v): UPF fatal exit: %.900s", b[:min(len(b), 24)], len(b), m.Muts, o.Dead.Msg)
			return
		}
		if o.Stuck {
			state, frame, _ := stack.LoopState()
			switch state {
			case "IO wait", "syscall", "sleep":
				res.excluded = "slow-os-wait"
			case "gone":
				res.v = vcore.Violatef("server-stopped", "after datagram %x (%d bytes, mutations %v) the PFCP event loop has returned: the UPF no longer serves anybody", b[:min(len(b), 24)], len(b), m.Muts)
			default:
				res.v = vcore.Violatef("stuck:"+frame, "after datagram %x... the heartbeat stays unanswered; event loop is in state %q at %s", b[:min(len(b), 24)], state, frame)
			}
			return
		}
		for s := range r.Pending {
			r.Pending[s] = nil
		}
	}
	// ---- witness intact?
	o := step(stack.Op{Kind: "mod", Peer: 1, Sess: -1, Raw: witness})
	if o.Dead != nil {
		res.v = vcore.Violatef(o.Dead.Key, "witness probe: UPF fatal exit: %.600s", o.Dead.Msg)
		return
	}
	ok := false
	for _, m := range o.Msgs[1] {
		if mr, is := m.(*message.SessionModificationResponse); is && stack.Cause(mr) == 1 && mr.SEID() == 0x771 {
			ok = true
		}
	}
	if !ok {
		res.v = vcore.Violatef("witness-lost", "a session not addressed by any offending datagram no longer answers an empty Modification with 'accepted'")
		return
	}
	if f != nil {
		have := map[simkernel.RuleKey]bool{}
		for _, k := range f.D.K.Keys() {
			have[k] = true
		}
		for _, k := range witnessRules {
			if !have[k] {
				res.v = vcore.Violatef("witness-rules-lost", "rule %v of a session not addressed by any offending datagram vanished from the data plane", k)
				return
			}
		}
	}
	return
}

func account(c Case, r result) {
	vcore.E.Eval()
	vcore.E.Class("driver_" + c.Driver)
	if r.excluded != "" {
		vcore.E.Exclude(r.excluded)
		return
	}
	if r.emptyDatagram {
		vcore.E.Class("empty_datagram")
	}
	if r.matched > 0 {
		vcore.E.Class("response_met_a_waiting_request")
	}
	if c.Recycled {
		vcore.E.Class("witness_under_a_seid_another_node_had_before")
	}
	if r.parsed > 0 {
		vcore.E.Class("reached_handlers")
		var muts []string
		for _, m := range c.Msgs {
			muts = append(muts, strings.Join(m.Muts, "+"))
		}
		vcore.E.NonTrivial(vcore.FP(c.Driver, r.types, muts))
		vcore.E.Sample(c.Driver+"/"+strings.Join(r.types, ","), map[string]any{"driver": c.Driver, "types": r.types, "mutations": muts})
	} else {
		vcore.E.Class("died_in_codec")
	}
}

func report(t vcore.Failer, c Case, r result) {
	if r.v == nil || vcore.IsKnown(r.v.Key) {
		return
	}
	key := r.v.Key
	c.Msgs = vcore.MinimizeSlice(c.Msgs, func(ms []*Msg) bool {
		x := run(Case{Driver: c.Driver, Sessions: c.Sessions, Deleted: c.Deleted, Msgs: ms})
		return x.v != nil && x.v.Key == key
	}, 30)
	if x := run(c); x.v != nil {
		vcore.Report(t, x.v, c)
	}
	vcore.Report(t, r.v, c)
}

func both(t vcore.Failer, c Case) {
	for _, d := range []string{"empty", "gtp5g"} {
		c.Driver = d
		r := run(c)
		account(c, r)
		report(t, c, r)
	}
}

func runWindow(t vcore.Failer, c rxwindow.Case) {
	v, st := rxwindow.Run(c)
	vcore.E.Eval()
	vcore.E.Class("heartbeat_after_unanswered_requests")
	if st.Unanswered > 0 {
		vcore.E.NonTrivial(vcore.JSON(c))
	}
	vcore.Report(t, v, map[string]any{"window": c})
}

func TestC07(t *testing.T) {
	files, explicit := vcore.ReplayFiles()
	for _, f := range files {
		var w struct {
			Case
			Window  *rxwindow.Case  `json:"window"`
			History *sessmodel.Case `json:"history"`
		}
		if err := vcore.LoadReplayCase(f, &w); err != nil {
			t.Fatalf("replay %s: %v", f, err)
		}
		vcore.E.Class("replayed")
		if w.Window != nil {
			runWindow(t, *w.Window)
			continue
		}
		if w.History != nil {
			vcore.E.Eval()
			vcore.Report(t, sessmodel.Run(*w.History, sessmodel.Oracles{}).V, map[string]any{"history": w.History})
			continue
		}
		c := w.Case
		r := run(c)
		account(c, r)
		report(t, c, r)
	}
	if explicit {
		return
	}
	net2 := stack.Net2FromEnv(107)
	_ = net2
	// valid messages in unusual orders: histories of the session-handling model (takeovers, unknown nodes and sessions, probes
	// of every SEID class, reports and their answers, refused rules) with no oracle but "the UPF is still there and answers"
	vcore.Check(t, vcore.N(400, 4000), func(rt *rapid.T) {
		g := stack.DefaultGen()
		g.MaxRules = 3
		c := sessmodel.Case{Ops: sessmodel.Gen(rt, sessmodel.GenCfg{MaxOps: 25, Probes: true, SharedCP: true, Takeover: true, Negative: true, Reports: true, Rules: g}), Refuse: sessmodel.GenRefuse(rt)}
		r := sessmodel.Run(c, sessmodel.Oracles{})
		vcore.E.Eval()
		vcore.E.Class("valid_message_history")
		if r.Stats.Takeovers > 0 {
			vcore.E.Class("valid_message_history:with_takeover")
			vcore.E.NonTrivial(vcore.JSON(c))
		}
		if r.V != nil && !vcore.IsKnown(r.V.Key) {
			key := r.V.Key
			c.Ops = vcore.MinimizeSlice(c.Ops, func(ops []sessmodel.Op) bool {
				x := sessmodel.Run(sessmodel.Case{Ops: ops, Refuse: c.Refuse}, sessmodel.Oracles{})
				return x.V != nil && x.V.Key == key
			}, 200)
		}
		vcore.Report(rt, r.V, map[string]any{"history": c})
	})
	// still serving after requests that were never answered: the same socket and sequence number must work again once the
	// retention window has passed (package rxwindow, real timers)
	vcore.Check(t, vcore.N(12, 80), func(rt *rapid.T) {
		runWindow(rt, rxwindow.Gen(rt))
	})
	// one datagram of legal size whose answer does not fit a datagram: thousands of Create PDRs without PDR ID but with a UE IP
	// address; each costs 17 octets in the request and is echoed as a Created PDR of 19 octets in the response
	for _, npdr := range []int{3000, 3460, 3800} {
		var ies []*ie.IE
		ies = append(ies, ie.NewNodeID(nodeIDPlaceholder, "", ""), ie.NewFSEID(0x97, net.ParseIP(nodeIDPlaceholder), nil))
		for k := 0; k < npdr; k++ {
			ies = append(ies, ie.NewCreatePDR(ie.NewPDI(ie.NewUEIPAddress(2, "10.60.0.1", "", 0, 0))))
		}
		m := fromBytes(stack.Marshal(message.NewSessionEstablishmentRequest(0, 0, 0, 40, 0, ies...)))
		m.From = 0
		m.Muts = []string{fmt.Sprintf("amplified-answer-%d", npdr)}
		both(t, Case{Sessions: 1, Msgs: []*Msg{m}})
	}
	// every leaf IE of the session-level base messages once as the last IE of the datagram (legal re-ordering; see "to-tail")
	for _, bi := range []int{7, 8, 9} {
		var leaves []*Node
		all(fromBytes(baseMessages(nodeIDPlaceholder, []uint64{2})[bi]).IEs, &leaves)
		for li, l := range leaves {
			if l.Grouped {
				continue
			}
			m := fromBytes(baseMessages(nodeIDPlaceholder, []uint64{2})[bi])
			var nodes []*Node
			all(m.IEs, &nodes)
			m.IEs, _ = toTail(m.IEs, nodes[li])
			m.From = 0
			m.Muts = []string{fmt.Sprintf("to-tail-sweep-%d-%d", bi, li)}
			vcore.E.Class("leaf_ie_at_the_end_of_the_datagram")
			both(t, Case{Sessions: 1, Msgs: []*Msg{m}})
		}
	}
	// sweeps over single well-aimed changes that the drawn mutations reach only now and then
	{
		bases := baseMessages(nodeIDPlaceholder, []uint64{2})
		// (a) the header's length field of an Establishment Request: small values, the sign boundary, the top of the range
		for _, l := range []int{0, 1, 3, 4, 8, 11, 12, 13, 16, 0x7fff, 0x8000, 0xfff0, 0xfff8, 0xfffb, 0xfffc, 0xfffd, 0xfffe, 0xffff} {
			m := fromBytes(bases[7])
			m.From, m.LenSet = 0, l
			m.Muts = []string{fmt.Sprintf("hdr-len-sweep-%#x", l)}
			both(t, Case{Sessions: 1, Msgs: []*Msg{m}})
		}
		// (b) every response type, carrying the number of a report request that waits for its response, lacking one of its IEs
		for _, bi := range []int{11, 12, 15, 16, 17, 18, 19, 20} {
			n := len(fromBytes(bases[bi]).IEs)
			for drop := -1; drop < n; drop++ {
				m := fromBytes(bases[bi])
				m.From, m.Seq = 0, 0
				if drop >= 0 {
					m.IEs = append(m.IEs[:drop:drop], m.IEs[drop+1:]...)
				}
				m.Muts = []string{fmt.Sprintf("response-%d-without-ie-%d", bi, drop)}
				both(t, Case{Sessions: 1, Outstanding: 1, Msgs: []*Msg{m}})
			}
		}
		// (c) flow descriptions cut after every token (well-formed SDF Filter IE), real driver
		for _, txt := range []string{"permit out ip from 10.1.0.0/16 80,443 to assigned 1000-2000", "permit in 17 from any 53 to 10.0.0.1 1-2,3", "permit out 6 from assigned to any"} {
			toks := strings.Fields(txt)
			for cut := 0; cut <= len(toks); cut++ {
				part := strings.Join(toks[:cut], " ")
				m := fromBytes(bases[7])
				var nodes []*Node
				all(m.IEs, &nodes)
				for _, nd := range nodes {
					if nd.Type == ie.SDFFilter && !nd.Grouped {
						nd.Val = append([]byte{0x01, 0x00, byte(len(part) >> 8), byte(len(part))}, part...)
					}
				}
				m.From = 0
				m.Muts = []string{fmt.Sprintf("sdf-cut-sweep-%d", cut)}
				both(t, Case{Sessions: 1, Msgs: []*Msg{m}})
			}
		}
		vcore.E.Class("single_change_sweeps")
	}
	// structure-aware
	vcore.Check(t, vcore.N(1500, 12000), func(rt *rapid.T) {
		c := Case{Sessions: rapid.IntRange(0, 3).Draw(rt, "sessions")}
		c.Deleted = rapid.IntRange(0, c.Sessions).Draw(rt, "deleted")
		c.Recycled = rapid.IntRange(0, 2).Draw(rt, "recycled") == 0
		if c.Sessions > c.Deleted && rapid.Bool().Draw(rt, "has_outstanding") {
			c.Outstanding = rapid.IntRange(1, 3).Draw(rt, "outstanding")
		}
		// UP SEIDs are issued 1 (witness), 2, 3, ... on a fresh server
		var seids []uint64
		for i := 0; i < c.Sessions; i++ {
			seids = append(seids, uint64(2+i))
		}
		n := rapid.IntRange(1, 3).Draw(rt, "n")
		for i := 0; i < n; i++ {
			from := rapid.SampledFrom([]int{0, 0, 0, 100}).Draw(rt, "from")
			nodeIP := fmt.Sprintf("127.%d.0.2", 0) // replaced below
			_ = nodeIP
			bases := baseMessages(nodeIDPlaceholder, seids)
			// session-level requests carry most of the handler logic: pick them three times as often
			pickFrom := []int{0, 1, 2, 3, 4, 5, 6, 7, 7, 7, 8, 8, 8, 9, 9, 9, 10, 11, 12, 13, 14}
			if c.Outstanding > 0 {
				pickFrom = append(pickFrom, 11, 11, 12, 12, 13, 15, 15, 15, 16, 16, 17, 18, 19, 20)
			}
			bi := pickFrom[rapid.IntRange(0, len(pickFrom)-1).Draw(rt, "base")]
			m := fromBytes(bases[bi])
			m.From = from
			if c.Outstanding > 0 && (bi >= 15 || (bi >= 11 && bi <= 13)) && rapid.IntRange(0, 4).Draw(rt, "matching") != 0 {
				// a response from the node's own socket carrying the number of a request that is waiting for one
				m.From, m.Seq = 0, uint32(rapid.IntRange(0, c.Outstanding-1).Draw(rt, "rspseq"))
			}
			k := rapid.IntRange(1, 4).Draw(rt, "nmut")
			for j := 0; j < k; j++ {
				mutate(rt, m, 1)
			}
			c.Msgs = append(c.Msgs, m)
		}
		both(rt, c)
	})
	// raw
	vcore.Check(t, vcore.N(700, 6000), func(rt *rapid.T) {
		c := Case{Sessions: rapid.IntRange(0, 2).Draw(rt, "sessions")}
		n := rapid.IntRange(1, 3).Draw(rt, "n")
		for i := 0; i < n; i++ {
			var raw []byte
			switch rapid.IntRange(0, 3).Draw(rt, "shape") {
			case 0:
				raw = rapid.SliceOfN(rapid.Byte(), 0, 64).Draw(rt, "raw")
			case 1:
				// plausible header + junk
				body := rapid.SliceOfN(rapid.Byte(), 0, 200).Draw(rt, "body")
				hdr := []byte{0x20, rapid.SampledFrom([]byte{1, 5, 50, 52, 54, 57}).Draw(rt, "type"), 0, 0, 0, 0, 1, 0}
				binary.BigEndian.PutUint16(hdr[2:4], uint16(4+len(body)))
				raw = append(hdr, body...)
			case 2:
				body := rapid.SliceOfN(rapid.Byte(), 0, 300).Draw(rt, "body")
				hdr := make([]byte, 16)
				hdr[0], hdr[1] = 0x21, rapid.SampledFrom([]byte{50, 52, 54, 57}).Draw(rt, "type")
				binary.BigEndian.PutUint16(hdr[2:4], uint16(12+len(body)))
				binary.BigEndian.PutUint64(hdr[4:12], rapid.SampledFrom([]uint64{0, 2, 3, 1 << 63, 1<<64 - 1}).Draw(rt, "seid"))
				hdr[14] = 9
				raw = append(hdr, body...)
			default:
				raw = rapid.SliceOfN(rapid.Byte(), 1000, 65000).Draw(rt, "big")
			}
			if len(raw) == 0 {
				raw = []byte{0}
			}
			c.Msgs = append(c.Msgs, &Msg{Raw: raw, From: rapid.SampledFrom([]int{0, 100}).Draw(rt, "from"), LenSet: -1, Trunc: -1, Muts: []string{"raw"}})
		}
		both(rt, c)
	})
	_ = os.Getenv
}

// the node id IE inside base messages must name node 0 of the reserved subnet
var nodeIDPlaceholder = func() string {
	n, err := stack.ReserveNet(stack.Net2FromEnv(107))
	if err != nil {
		panic(err)
	}
	return n.IP(2)
}()
