//go:build verif

package c07

import (
	"testing"

	"github.com/free5gc/go-upf/internal/verif/vcore"
)

// FuzzC07 is the coverage-guided part of the thorough tier.  The input is
// decoded into (number of prefix sessions, sender, 1-3 datagrams); every
// datagram is a raw byte string, seeded with valid messages of every type and
// with hostile constants.
func FuzzC07(f *testing.F) {
	for _, b := range baseMessages(nodeIDPlaceholder, []uint64{2, 3}) {
		f.Add(uint8(2), b, []byte{}, []byte{})
		f.Add(uint8(0x82), b, b, []byte{})
	}
	f.Add(uint8(1), []byte{0x21, 52, 0, 12, 0x80, 0, 0, 0, 0, 0, 0, 1, 0, 0, 1, 0}, []byte{}, []byte{})
	f.Add(uint8(1), []byte{0x21, 54, 0xff, 0xff, 0xff, 0xff, 0xff, 0xff, 0xff, 0xff, 0xff, 0xff, 0, 0, 1, 0}, []byte{}, []byte{})
	f.Fuzz(func(t *testing.T, sel uint8, d1, d2, d3 []byte) {
		c := Case{Sessions: int(sel & 3)}
		from := 0
		if sel&0x80 != 0 {
			from = 100
		}
		for _, d := range [][]byte{d1, d2, d3} {
			if len(d) == 0 {
				continue
			}
			if len(d) > 65000 {
				d = d[:65000]
			}
			c.Msgs = append(c.Msgs, &Msg{Raw: d, From: from, LenSet: -1, Trunc: -1, Muts: []string{"fuzz"}})
		}
		if len(c.Msgs) == 0 {
			return
		}
		for _, drv := range []string{"empty", "gtp5g"} {
			c.Driver = drv
			r := run(c)
			if r.v != nil && !vcore.IsKnown(r.v.Key) {
				vcore.Report(t, r.v, c)
			}
		}
	})
}
