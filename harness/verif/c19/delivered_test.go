//go:build verif

package c19

import (
	"fmt"
	"sync"
	"testing"
	"time"

	"pgregory.net/rapid"

	"github.com/free5gc/go-upf/internal/report"
	"github.com/free5gc/go-upf/internal/verif/fullstack"
	"github.com/free5gc/go-upf/internal/verif/simkernel"
	"github.com/free5gc/go-upf/internal/verif/vcore"
)

// ---------------------------------------------------------------- causes as the data plane delivers them
//
// "Each reporting-trigger cause delivered by the data plane maps to the usage-
// report trigger of the same name and to no other" is a statement about the
// delivery path, not only about SetReportingTrigger in isolation: one netlink
// REPORT message carries several usage reports, each with its own cause.  The
// simulated kernel multicasts such messages to the real netlink listener of
// the real driver; a recording handler sees what the PFCP server would see.

type DCase struct {
	Words []uint32 `json:"words"` // cause word of each report, in message order
	SEIDs []uint64 `json:"seids"` // session of each report
}

type drec struct {
	mu     sync.Mutex
	got    map[[2]uint64]uint32 // (seid, urr) -> flags word
	n      int
	queued []report.SessReport
}

// NotifySessReport only queues, as the PFCP server does; read() looks at the reports once the listener has served the message.
func (r *drec) NotifySessReport(sr report.SessReport) {
	r.mu.Lock()
	defer r.mu.Unlock()
	r.queued = append(r.queued, sr)
}

func (r *drec) read() {
	for _, sr := range r.queued {
		for _, rep := range sr.Reports {
			if u, ok := rep.(report.USAReport); ok {
				r.got[[2]uint64{sr.SEID, uint64(u.URRID)}] = u.USARTrigger.Flags
				r.n++
			}
		}
	}
	r.queued = nil
}
func (r *drec) PopBufPkt(uint64, uint16) ([]byte, bool) { return nil, false }

var (
	ddrv *fullstack.Driver
	drc  = &drec{got: map[[2]uint64]uint32{}}
)

func causeOf(w uint32) string {
	rb := []byte{byte(w), byte(w >> 8), byte(w >> 16)}
	nb, _ := popcountSpread(rb)
	if nb != 1 || w >= 1<<24 {
		return ""
	}
	for _, b := range reportingTriggerBits {
		if want(reportingTriggerBits, rb, b.name) {
			return b.name
		}
	}
	return ""
}

func checkDelivered(c DCase) *vcore.Violation {
	if ddrv == nil {
		d, err := fullstack.NewDriver(fullstack.Opts{})
		if err != nil {
			panic(err)
		}
		d.G.HandleReport(drc)
		ddrv = d
	}
	drc.mu.Lock()
	drc.got, drc.n, drc.queued = map[[2]uint64]uint32{}, 0, nil
	drc.mu.Unlock()
	var rs []simkernel.MReport
	for i, w := range c.Words {
		rs = append(rs, simkernel.MReport{SEID: c.SEIDs[i], URR: uint32(i + 1), Usage: simkernel.Usage{Trigger: w, TotVol: uint64(10 + i),
			Start: time.Unix(1700000000, 0), End: time.Unix(1700000001, 0)}})
	}
	if err := ddrv.K.SendReports(rs); err != nil {
		panic(err)
	}
	if !ddrv.K.Flush(10 * time.Second) {
		return vcore.Violatef("delivery-stuck", "the netlink listener did not take a REPORT message with %d reports within 10 s", len(rs))
	}
	drc.mu.Lock()
	defer drc.mu.Unlock()
	drc.read()
	if drc.n != len(rs) {
		return vcore.Violatef("delivered-count", "REPORT message with %d usage reports: %d delivered", len(rs), drc.n)
	}
	for i, w := range c.Words {
		flags, ok := drc.got[[2]uint64{c.SEIDs[i], uint64(i + 1)}]
		if !ok {
			return vcore.Violatef("delivered-count", "report %d (session %#x URR %d) of the message was not delivered", i, c.SEIDs[i], i+1)
		}
		u := report.UsageReportTrigger{Flags: flags}
		out, err := u.IE().UsageReportTrigger()
		if err != nil {
			return vcore.Violatef("usar-map-ie", "IE(): %v", err)
		}
		cause := causeOf(w)
		if cause == "" {
			continue
		}
		for _, b := range usageReportTriggerBits {
			got := want(usageReportTriggerBits, out, b.name)
			w2 := b.name == cause
			if cause == "REEMR" {
				if b.name == "EMRRE" {
					continue
				}
				w2 = false
			}
			if got != w2 {
				return vcore.Violatef("delivered-"+b.name, "REPORT message with causes %s: report %d (cause %s) reaches the PFCP server with usage report trigger octets %x: flag %s=%v want %v",
					causeList(c.Words), i, cause, out, b.name, got, w2)
			}
		}
	}
	return nil
}

func causeList(ws []uint32) string {
	s := "["
	for i, w := range ws {
		if i > 0 {
			s += " "
		}
		if n := causeOf(w); n != "" {
			s += n
		} else {
			s += fmt.Sprintf("%#x", w)
		}
	}
	return s + "]"
}

func runDelivered(t vcore.Failer, c DCase) {
	vcore.E.Eval()
	vcore.E.Class("delivered")
	distinct := map[uint32]bool{}
	for _, w := range c.Words {
		distinct[w] = true
	}
	if len(distinct) >= 2 {
		vcore.E.Class("delivered:several_causes_in_one_message")
		vcore.E.NonTrivial(vcore.FP("delivered", c.Words, c.SEIDs))
	}
	vcore.Report(t, checkDelivered(c), map[string]any{"delivered": c})
}

func deliveredPart(t *testing.T) {
	var single []uint32
	for _, b := range reportingTriggerBits {
		single = append(single, 1<<(uint(b.octet)*8+uint(b.bit-1)))
	}
	// every ordered pair of causes in one message, same and different sessions
	for _, a := range single {
		for _, b := range single {
			runDelivered(t, DCase{Words: []uint32{a, b}, SEIDs: []uint64{1, 1}})
			if a < b {
				runDelivered(t, DCase{Words: []uint32{a, b}, SEIDs: []uint64{1, 2}})
			}
		}
	}
	vcore.E.Sample("delivered", DCase{Words: []uint32{single[0], single[3], single[5]}, SEIDs: []uint64{1, 1, 2}})
	vcore.Check(t, vcore.N(300, 3000), func(rt *rapid.T) {
		n := rapid.IntRange(1, 8).Draw(rt, "n")
		var c DCase
		for i := 0; i < n; i++ {
			c.Words = append(c.Words, rapid.SampledFrom(single).Draw(rt, "cause"))
			c.SEIDs = append(c.SEIDs, uint64(rapid.IntRange(1, 3).Draw(rt, "seid")))
		}
		runDelivered(rt, c)
	})
}
