//go:build verif

package c19

import (
	"fmt"
	"os"
	"reflect"
	"testing"

	"github.com/wmnsk/go-pfcp/ie"
	"pgregory.net/rapid"

	"github.com/free5gc/go-upf/internal/report"
	"github.com/free5gc/go-upf/internal/verif/vcore"
)

// bit describes one named flag: octet index (0 = first payload octet, i.e.
// "octet 5" of the IE) and bit number 1..8 (1 = least significant).
type bit struct {
	name  string
	octet int
	bit   int
}

// Transcribed from TS 29.244: 8.2.26 Apply Action, 8.2.19 Reporting Triggers,
// 8.2.41 Usage Report Trigger, 8.2.13 Volume Measurement (flag octet).
var applyActionBits = []bit{
	{"DROP", 0, 1}, {"FORW", 0, 2}, {"BUFF", 0, 3}, {"NOCP", 0, 4}, {"DUPL", 0, 5}, {"IPMA", 0, 6}, {"IPMD", 0, 7}, {"DFRT", 0, 8},
	{"EDRT", 1, 1}, {"BDPN", 1, 2}, {"DDPN", 1, 3}, {"FSSM", 1, 4}, {"MBSU", 1, 5},
}

var reportingTriggerBits = []bit{
	{"PERIO", 0, 1}, {"VOLTH", 0, 2}, {"TIMTH", 0, 3}, {"QUHTI", 0, 4}, {"START", 0, 5}, {"STOPT", 0, 6}, {"DROTH", 0, 7}, {"LIUSA", 0, 8},
	{"VOLQU", 1, 1}, {"TIMQU", 1, 2}, {"ENVCL", 1, 3}, {"MACAR", 1, 4}, {"EVETH", 1, 5}, {"EVEQU", 1, 6}, {"IPMJL", 1, 7}, {"QUVTI", 1, 8},
	{"REEMR", 2, 1}, {"UPINT", 2, 2},
}

var usageReportTriggerBits = []bit{
	{"PERIO", 0, 1}, {"VOLTH", 0, 2}, {"TIMTH", 0, 3}, {"QUHTI", 0, 4}, {"START", 0, 5}, {"STOPT", 0, 6}, {"DROTH", 0, 7}, {"IMMER", 0, 8},
	{"VOLQU", 1, 1}, {"TIMQU", 1, 2}, {"LIUSA", 1, 3}, {"TERMR", 1, 4}, {"MONIT", 1, 5}, {"ENVCL", 1, 6}, {"MACAR", 1, 7}, {"EVETH", 1, 8},
	{"EVEQU", 2, 1}, {"TEBUR", 2, 2}, {"IPMJL", 2, 3}, {"QUVTI", 2, 4}, {"EMRRE", 2, 5}, {"UPINT", 2, 6},
}

var volumeMeasurementBits = []bit{
	{"TOVOL", 0, 1}, {"ULVOL", 0, 2}, {"DLVOL", 0, 3}, {"TONOP", 0, 4}, {"ULNOP", 0, 5}, {"DLNOP", 0, 6},
}

func TestMain(m *testing.M) {
	vcore.Init("C19", "exploration",
		"exhaustive over flag words: all 2^16 apply-action values in 1- and 2-octet form (plus 3-octet and empty inputs), reporting triggers all 2^16 in 2-octet form and "+
			"2^18 structured + random (quick) / all 2^24 (thorough) in 3-octet form, every usage-report-trigger single bit, all pairs and random words, all 64 volume-measurement subsets x MNOP x every subset of the six counters being zero; "+
			"oracle = octet/bit table transcribed from TS 29.244 8.2.26/8.2.19/8.2.41/8.2.13, cross-checked at start-up against go-pfcp's independent Has*() accessors; every Apply Action / Reporting Triggers value is decoded from a slice of its own and from inside a longer buffer (0xff octets behind it, as a value inside a received message has the next IE behind it), with equal results. "+
			"Causes are also followed along the delivery path: REPORT netlink messages with 1-8 usage reports, each with its own single cause (every ordered pair exhaustively, longer messages at random, one or several sessions), multicast by the simulated kernel to the real listener of the real driver; "+
			"each report must reach the report handler with the usage-report trigger of its own cause and no other. "+
			"non-trivial = value with >= 2 bits set spread over >= 2 octets (or, for the one-octet volume flags, >= 2 bits), or a REPORT message with >= 2 different causes; distinct by (IE kind, octet form, value)",
		"TS 29.244 is not available offline: the table was transcribed from memory of the specification and is cross-checked against go-pfcp's accessors, which go-upf does not use; disagreement aborts the check with exit 2",
		"REEMR has no same-named usage-report trigger (EMRRE): mapping not required")
	crossCheck()
	vcore.Main(m)
}

func mk(bits []bit, b bit, n int) []byte {
	v := make([]byte, n)
	v[b.octet] = 1 << (b.bit - 1)
	return v
}

// crossCheck compares the transcribed table with go-pfcp's accessors and
// refuses to run if they disagree, so that a wrong table can never
// masquerade as a violation.
func crossCheck() {
	fail := func(format string, a ...any) {
		fmt.Fprintf(os.Stderr, "C19 reference table disagrees with go-pfcp: "+format+"\n", a...)
		os.Exit(2)
	}
	type kind struct {
		name string
		bits []bit
		n    int
		mk   func([]byte) any
	}
	kinds := []kind{
		{"ApplyAction", applyActionBits, 2, func(v []byte) any { return ie.NewApplyAction(v...) }},
		{"ReportingTriggers", reportingTriggerBits, 3, func(v []byte) any { return ie.NewReportingTriggers(v...) }},
		{"UsageReportTrigger", usageReportTriggerBits, 3, func(v []byte) any { return ie.NewUsageReportTrigger(v...) }},
		{"VolumeMeasurement", volumeMeasurementBits, 1, func(v []byte) any { return ie.NewVolumeMeasurementFields(v[0], 0, 0, 0, 0, 0, 0) }},
	}
	n := 0
	for _, k := range kinds {
		for _, b := range k.bits {
			obj := reflect.ValueOf(k.mk(mk(k.bits, b, k.n)))
			for _, other := range k.bits {
				m := obj.MethodByName("Has" + other.name)
				if !m.IsValid() {
					fail("%s: go-pfcp has no accessor Has%s", k.name, other.name)
				}
				got := m.Call(nil)[0].Bool()
				if got != (other.name == b.name) {
					fail("%s: with only %s (octet %d bit %d) set, go-pfcp Has%s()=%v", k.name, b.name, b.octet+5, b.bit, other.name, got)
				}
				n++
			}
		}
	}
	vcore.E.SetExtra("table_crosscheck", fmt.Sprintf("%d (flag set, accessor asked) pairs agree with go-pfcp Has*()", n))
}

func want(bits []bit, v []byte, name string) bool {
	for _, b := range bits {
		if b.name == name {
			if b.octet >= len(v) {
				return false
			}
			return v[b.octet]&(1<<(b.bit-1)) != 0
		}
	}
	panic("no such flag " + name)
}

func popcountSpread(v []byte) (bits int, octets int) {
	for _, o := range v {
		if o != 0 {
			octets++
		}
		for x := o; x != 0; x &= x - 1 {
			bits++
		}
	}
	return
}

type Case struct {
	Kind  string `json:"kind"` // apply | rpt | usar | vol | usar-map
	Bytes []byte `json:"bytes"`
	MNOP  bool   `json:"mnop,omitempty"`
	Word  uint32 `json:"word,omitempty"`
}

func account(c Case) {
	vcore.E.Eval()
	vcore.E.Class(c.Kind)
	bits, octets := popcountSpread(c.Bytes)
	nt := bits >= 2 && octets >= 2
	if c.Kind == "vol" {
		nt = bits >= 2
	}
	if c.Kind == "usar-map" {
		nt = c.Word >= 0x100
	}
	if nt {
		vcore.E.NonTrivial(vcore.FP(c.Kind, len(c.Bytes), c.Bytes, c.MNOP, c.Word))
	}
}

func callBool(obj any, name string) bool {
	m := reflect.ValueOf(obj).MethodByName(name)
	if !m.IsValid() {
		panic("go-upf accessor missing: " + name)
	}
	return m.Call(nil)[0].Bool()
}

// inMessage returns the same octets as a sub-slice of a longer buffer, the way go-pfcp hands out IE values.
func inMessage(b []byte) []byte {
	buf := make([]byte, len(b)+4)
	copy(buf, b)
	for i := len(b); i < len(buf); i++ {
		buf[i] = 0xff
	}
	return buf[:len(b)]
}

func check(c Case) *vcore.Violation {
	switch c.Kind {
	case "apply":
		var a report.ApplyAction
		// the decoder has been used before (all flags set): decoding assigns, it does not add to what was there
		_ = a.Unmarshal([]byte{0xff, 0xff})
		err := a.Unmarshal(c.Bytes)
		if len(c.Bytes) < 1 {
			if err == nil {
				return vcore.Violatef("apply-short", "empty apply action accepted")
			}
			return nil
		}
		if err != nil {
			return vcore.Violatef("apply-reject", "Unmarshal(%x): %v", c.Bytes, err)
		}
		// as it comes off the wire the value is a sub-slice of the datagram (go-pfcp does not copy): the next IE's header lies behind it
		var am report.ApplyAction
		if err := am.Unmarshal(inMessage(c.Bytes)); err != nil || am.Flags != a.Flags {
			return vcore.Violatef("apply-in-message", "ApplyAction %x decoded from inside a message (octets ff ff ff ff follow in the same buffer): Flags=%#x err=%v; decoded from a slice of its own: %#x", c.Bytes, am.Flags, err, a.Flags)
		}
		for _, b := range applyActionBits {
			if got, w := callBool(&a, b.name), want(applyActionBits, c.Bytes, b.name); got != w {
				return vcore.Violatef("apply-"+b.name, "ApplyAction %x: %s()=%v, TS 29.244 octet %d bit %d says %v", c.Bytes, b.name, got, b.octet+5, b.bit, w)
			}
		}
		// the word handed to the data plane must carry octet 5 in its low and octet 6 in its high byte
		var wv uint16
		wv = uint16(c.Bytes[0])
		if len(c.Bytes) > 1 {
			wv |= uint16(c.Bytes[1]) << 8
		}
		if a.Flags != wv {
			return vcore.Violatef("apply-word", "ApplyAction %x: Flags=%#x want %#x", c.Bytes, a.Flags, wv)
		}
	case "rpt":
		var r report.ReportingTrigger
		_ = r.Unmarshal([]byte{0xff, 0xff, 0xff})
		err := r.Unmarshal(c.Bytes)
		if len(c.Bytes) < 2 {
			if err == nil {
				return vcore.Violatef("rpt-short", "%d-octet reporting triggers accepted", len(c.Bytes))
			}
			return nil
		}
		if err != nil {
			return vcore.Violatef("rpt-reject", "Unmarshal(%x): %v", c.Bytes, err)
		}
		var rm report.ReportingTrigger
		if err := rm.Unmarshal(inMessage(c.Bytes)); err != nil || rm.Flags != r.Flags {
			return vcore.Violatef("rpt-in-message", "ReportingTriggers %x decoded from inside a message (octets ff ff ff ff follow in the same buffer): Flags=%#x err=%v; decoded from a slice of its own: %#x", c.Bytes, rm.Flags, err, r.Flags)
		}
		for _, b := range reportingTriggerBits {
			if got, w := callBool(&r, b.name), want(reportingTriggerBits, c.Bytes, b.name); got != w {
				return vcore.Violatef("rpt-"+b.name, "ReportingTriggers %x: %s()=%v, TS 29.244 octet %d bit %d says %v", c.Bytes, b.name, got, b.octet+5, b.bit, w)
			}
		}
		// re-encoding: the IE must read, through the table, as the same flag set
		// the IE is kept while another one is built from other flags (a message carries several): it must not change
		first := r.IE()
		other := report.ReportingTrigger{Flags: ^r.Flags & 0xffffff}
		_ = other.IE()
		out, err := first.ReportingTriggers()
		if err != nil {
			return vcore.Violatef("rpt-ie", "IE(): %v", err)
		}
		for _, b := range reportingTriggerBits {
			if want(reportingTriggerBits, out, b.name) != want(reportingTriggerBits, c.Bytes, b.name) {
				return vcore.Violatef("rpt-reencode-"+b.name, "ReportingTriggers %x re-encoded as %x: flag %s changed", c.Bytes, out, b.name)
			}
		}
	case "usar":
		var u report.UsageReportTrigger
		for i, o := range c.Bytes {
			u.Flags |= uint32(o) << (8 * i)
		}
		// Flags is the word the control plane sees through IE(); the word
		// layout itself is internal, so it is checked through accessors + IE()
		first := u.IE()
		other := report.UsageReportTrigger{Flags: ^u.Flags & 0xffffff}
		_ = other.IE()
		out, err := first.UsageReportTrigger()
		if err != nil {
			return vcore.Violatef("usar-ie", "IE(): %v", err)
		}
		for _, b := range usageReportTriggerBits {
			acc := callBool(&u, b.name)
			enc := want(usageReportTriggerBits, out, b.name)
			if acc != enc {
				return vcore.Violatef("usar-"+b.name, "UsageReportTrigger word %#x: accessor %s()=%v but encoded octets %x carry %v", u.Flags, b.name, acc, out, enc)
			}
		}
		// spare bits (no name in the table) are not asserted
	case "usar-map":
		var u report.UsageReportTrigger
		u.SetReportingTrigger(c.Word)
		out, err := u.IE().UsageReportTrigger()
		if err != nil {
			return vcore.Violatef("usar-map-ie", "IE(): %v", err)
		}
		// which reporting-trigger cause is this word?
		var cause string
		rb := []byte{byte(c.Word), byte(c.Word >> 8), byte(c.Word >> 16)}
		nb, _ := popcountSpread(rb)
		if nb == 1 && c.Word < 1<<24 {
			for _, b := range reportingTriggerBits {
				if want(reportingTriggerBits, rb, b.name) {
					cause = b.name
				}
			}
		}
		for _, b := range usageReportTriggerBits {
			got := want(usageReportTriggerBits, out, b.name)
			w := cause != "" && b.name == cause
			if cause == "REEMR" {
				w = got // no same-named usage-report trigger: not asserted
				if b.name != "EMRRE" && got {
					return vcore.Violatef("usar-map-"+b.name, "cause REEMR mapped to %s", b.name)
				}
			}
			if got != w {
				return vcore.Violatef("usar-map-"+b.name, "reporting-trigger cause %q (%#x) -> usage report trigger octets %x: flag %s=%v want %v", cause, c.Word, out, b.name, got, w)
			}
		}
	case "vol":
		// Word says which of the six counters are zero (bit i = counter i): an idle measurement period has all-zero counters, and
		// the flags say which fields are there, not which are non-zero
		val := func(i int) uint64 {
			if c.Word&(1<<uint(i)) != 0 {
				return 0
			}
			return uint64(i + 1)
		}
		m := report.VolumeMeasure{TotalVolume: val(0), UplinkVolume: val(1), DownlinkVolume: val(2), TotalPktNum: val(3), UplinkPktNum: val(4), DownlinkPktNum: val(5)}
		m.Flags = c.Bytes[0]
		m.SetFlags(c.MNOP)
		f, err := m.IE().VolumeMeasurement()
		if err != nil {
			return vcore.Violatef("vol-ie", "IE(): %v", err)
		}
		// expected: what was set before plus TOVOL|ULVOL|DLVOL (+ NOPs iff MNOP)
		exp := c.Bytes[0] | 0x07
		if c.MNOP {
			exp |= 0x38
		}
		for _, b := range volumeMeasurementBits {
			w := exp&(1<<(b.bit-1)) != 0
			if got := f.Flags&(1<<(b.bit-1)) != 0; got != w {
				return vcore.Violatef("vol-"+b.name, "VolumeMeasure flags %#x mnop=%v (counters zero: mask %#x): encoded flag %s=%v want %v", c.Bytes[0], c.MNOP, c.Word, b.name, got, w)
			}
		}
		type fv struct {
			name string
			got  uint64
			w    uint64
		}
		for _, x := range []fv{{"TOVOL", f.TotalVolume, val(0)}, {"ULVOL", f.UplinkVolume, val(1)}, {"DLVOL", f.DownlinkVolume, val(2)},
			{"TONOP", f.TotalNumberOfPackets, val(3)}, {"ULNOP", f.UplinkNumberOfPackets, val(4)}, {"DLNOP", f.DownlinkNumberOfPackets, val(5)}} {
			set := false
			for _, b := range volumeMeasurementBits {
				if b.name == x.name {
					set = exp&(1<<(b.bit-1)) != 0
				}
			}
			if set && x.got != x.w {
				return vcore.Violatef("vol-value-"+x.name, "flags %#x: %s value %d want %d", c.Bytes[0], x.name, x.got, x.w)
			}
		}
	default:
		panic("unknown kind " + c.Kind)
	}
	return nil
}

func run(t vcore.Failer, c Case) {
	account(c)
	vcore.Report(t, check(c), c)
}

// named constants: each exported constant must be exactly the flag of its name.
var usarConsts = map[string]uint32{
	"PERIO": report.USAR_TRIG_PERIO, "VOLTH": report.USAR_TRIG_VOLTH, "TIMTH": report.USAR_TRIG_TIMTH, "QUHTI": report.USAR_TRIG_QUHTI,
	"START": report.USAR_TRIG_START, "STOPT": report.USAR_TRIG_STOPT, "DROTH": report.USAR_TRIG_DROTH, "IMMER": report.USAR_TRIG_IMMER,
	"VOLQU": report.USAR_TRIG_VOLQU, "TIMQU": report.USAR_TRIG_TIMQU, "LIUSA": report.USAR_TRIG_LIUSA, "TERMR": report.USAR_TRIG_TERMR,
	"MONIT": report.USAR_TRIG_MONIT, "ENVCL": report.USAR_TRIG_ENVCL, "MACAR": report.USAR_TRIG_MACAR, "EVETH": report.USAR_TRIG_EVETH,
	"EVEQU": report.USAR_TRIG_EVEQU, "TEBUR": report.USAR_TRIG_TEBUR, "IPMJL": report.USAR_TRIG_IPMJL, "QUVTI": report.USAR_TRIG_QUVTI,
	"EMRRE": report.USAR_TRIG_EMRRE, "UPINT": report.USAR_TRIG_UPINT,
}

var rptConsts = map[string]uint32{
	"PERIO": report.RPT_TRIG_PERIO, "VOLTH": report.RPT_TRIG_VOLTH, "TIMTH": report.RPT_TRIG_TIMTH, "QUHTI": report.RPT_TRIG_QUHTI,
	"START": report.RPT_TRIG_START, "STOPT": report.RPT_TRIG_STOPT, "DROTH": report.RPT_TRIG_DROTH, "LIUSA": report.RPT_TRIG_LIUSA,
	"VOLQU": report.RPT_TRIG_VOLQU, "TIMQU": report.RPT_TRIG_TIMQU, "ENVCL": report.RPT_TRIG_ENVCL, "MACAR": report.RPT_TRIG_MACAR,
	"EVETH": report.RPT_TRIG_EVETH, "EVEQU": report.RPT_TRIG_EVEQU, "IPMJL": report.RPT_TRIG_IPMJL, "QUVTI": report.RPT_TRIG_QUVTI,
	"REEMR": report.RPT_TRIG_REEMR, "UPINT": report.RPT_TRIG_UPINT,
}

var applyConsts = map[string]uint16{
	"DROP": report.APPLY_ACT_DROP, "FORW": report.APPLY_ACT_FORW, "BUFF": report.APPLY_ACT_BUFF, "NOCP": report.APPLY_ACT_NOCP,
	"DUPL": report.APPLY_ACT_DUPL, "IPMA": report.APPLY_ACT_IPMA, "IPMD": report.APPLY_ACT_IPMD, "DFRT": report.APPLY_ACT_DFRT,
	"EDRT": report.APPLY_ACT_EDRT, "BDPN": report.APPLY_ACT_BDPN, "DDPN": report.APPLY_ACT_DDPN, "FSSM": report.APPLY_ACT_FSSM,
	"MBSU": report.APPLY_ACT_MBSU,
}

var volConsts = map[string]uint8{"TOVOL": report.TOVOL, "ULVOL": report.ULVOL, "DLVOL": report.DLVOL, "TONOP": report.TONOP, "ULNOP": report.ULNOP, "DLNOP": report.DLNOP}

func checkConstants(t *testing.T) {
	for _, b := range usageReportTriggerBits {
		c, ok := usarConsts[b.name]
		if !ok {
			t.Fatalf("harness table incomplete: %s", b.name)
		}
		vcore.E.Eval()
		u := report.UsageReportTrigger{Flags: c}
		out, _ := u.IE().UsageReportTrigger()
		for _, o := range usageReportTriggerBits {
			if got := want(usageReportTriggerBits, out, o.name); got != (o.name == b.name) {
				vcore.Report(t, vcore.Violatef("usar-const-"+b.name, "USAR_TRIG_%s encodes to %x: table flag %s=%v", b.name, out, o.name, got), Case{Kind: "usar-const", Word: c})
			}
			if got := callBool(&u, o.name); got != (o.name == b.name) {
				vcore.Report(t, vcore.Violatef("usar-const-acc-"+b.name, "USAR_TRIG_%s: accessor %s()=%v", b.name, o.name, got), Case{Kind: "usar-const", Word: c})
			}
		}
	}
	for _, b := range reportingTriggerBits {
		c := rptConsts[b.name]
		vcore.E.Eval()
		r := report.ReportingTrigger{Flags: c}
		out, _ := r.IE().ReportingTriggers()
		for _, o := range reportingTriggerBits {
			if got := want(reportingTriggerBits, out, o.name); got != (o.name == b.name) {
				vcore.Report(t, vcore.Violatef("rpt-const-"+b.name, "RPT_TRIG_%s encodes to %x: table flag %s=%v", b.name, out, o.name, got), Case{Kind: "rpt-const", Word: c})
			}
		}
	}
	for _, b := range applyActionBits {
		c := applyConsts[b.name]
		vcore.E.Eval()
		a := report.ApplyAction{Flags: c}
		for _, o := range applyActionBits {
			if got := callBool(&a, o.name); got != (o.name == b.name) {
				vcore.Report(t, vcore.Violatef("apply-const-"+b.name, "APPLY_ACT_%s: accessor %s()=%v", b.name, o.name, got), Case{Kind: "apply-const", Word: uint32(c)})
			}
		}
		var a2 report.ApplyAction
		v := make([]byte, 2)
		v[b.octet] = 1 << (b.bit - 1)
		_ = a2.Unmarshal(v)
		if a2.Flags != c {
			vcore.Report(t, vcore.Violatef("apply-const-word-"+b.name, "APPLY_ACT_%s=%#x but octets %x decode to %#x", b.name, c, v, a2.Flags), Case{Kind: "apply-const", Word: uint32(c)})
		}
	}
	for _, b := range volumeMeasurementBits {
		vcore.E.Eval()
		if volConsts[b.name] != 1<<(b.bit-1) {
			vcore.Report(t, vcore.Violatef("vol-const-"+b.name, "%s=%#x want bit %d", b.name, volConsts[b.name], b.bit), Case{Kind: "vol-const"})
		}
	}
}

func TestC19(t *testing.T) {
	files, explicit := vcore.ReplayFiles()
	for _, f := range files {
		var w struct {
			Case
			Delivered *DCase `json:"delivered"`
		}
		if err := vcore.LoadReplayCase(f, &w); err != nil {
			t.Fatalf("replay %s: %v", f, err)
		}
		vcore.E.Class("replayed")
		if w.Delivered != nil {
			runDelivered(t, *w.Delivered)
			continue
		}
		run(t, w.Case)
	}
	if explicit {
		return
	}
	checkConstants(t)
	deliveredPart(t)
	// apply action: empty, all 1-octet, all 2-octet, 3-octet samples
	run(t, Case{Kind: "apply", Bytes: []byte{}})
	for v := 0; v < 256; v++ {
		run(t, Case{Kind: "apply", Bytes: []byte{byte(v)}})
	}
	for v := 0; v < 1<<16; v++ {
		c := Case{Kind: "apply", Bytes: []byte{byte(v), byte(v >> 8)}}
		run(t, c)
		if v == 0x0c0c {
			vcore.E.Sample("apply-2-octet", c)
		}
	}
	for v := 0; v < 1<<16; v += 257 {
		run(t, Case{Kind: "apply", Bytes: []byte{byte(v), byte(v >> 8), 0xff}})
	}
	// reporting triggers
	run(t, Case{Kind: "rpt", Bytes: []byte{}})
	run(t, Case{Kind: "rpt", Bytes: []byte{0xff}})
	for v := 0; v < 1<<16; v++ {
		run(t, Case{Kind: "rpt", Bytes: []byte{byte(v), byte(v >> 8)}})
	}
	if vcore.Thorough() && vcore.Cfg.Shards > 0 {
		for v := vcore.Cfg.Shard; v < 1<<24; v += vcore.Cfg.Shards {
			run(t, Case{Kind: "rpt", Bytes: []byte{byte(v), byte(v >> 8), byte(v >> 16)}})
		}
		vcore.E.SetExtra("rpt_3_octet", "all 2^24 three-octet reporting-trigger values enumerated (striped over shards)")
	} else {
		// structured: every 2-octet value with each of the 4 settings of the two defined third-octet bits
		for v := 0; v < 1<<16; v++ {
			for hi := 0; hi < 4; hi++ {
				c := Case{Kind: "rpt", Bytes: []byte{byte(v), byte(v >> 8), byte(hi)}}
				run(t, c)
				if v == 0x8001 && hi == 2 {
					vcore.E.Sample("rpt-3-octet", c)
				}
			}
		}
	}
	// usage report trigger: singles, pairs
	for i := 0; i < 24; i++ {
		b := make([]byte, 3)
		b[i/8] = 1 << (i % 8)
		run(t, Case{Kind: "usar", Bytes: b})
		for j := i + 1; j < 24; j++ {
			b2 := append([]byte{}, b...)
			b2[j/8] |= 1 << (j % 8)
			c := Case{Kind: "usar", Bytes: b2}
			run(t, c)
			if i == 7 && j == 11 {
				vcore.E.Sample("usar-pair", c)
			}
		}
	}
	// cause mapping: every single bit of the 32-bit word, zero, and multi-bit words
	run(t, Case{Kind: "usar-map", Word: 0})
	for i := 0; i < 32; i++ {
		c := Case{Kind: "usar-map", Word: 1 << i}
		run(t, c)
		if i == 8 {
			vcore.E.Sample("cause-mapping", c)
		}
		for j := i + 1; j < 32; j++ {
			run(t, Case{Kind: "usar-map", Word: 1<<i | 1<<j})
		}
	}
	// volume measurement: all 64 subsets x MNOP (and the two spare bits)
	// ... x every subset of the six counters being zero (an idle measurement period reports zeroes: the flags must not depend on the values)
	for v := 0; v < 256; v++ {
		for _, mnop := range []bool{false, true} {
			for zero := uint32(0); zero < 64; zero++ {
				c := Case{Kind: "vol", Bytes: []byte{byte(v)}, MNOP: mnop, Word: zero}
				run(t, c)
				if v == 0 && mnop && (zero == 0 || zero == 0x3f) {
					vcore.E.Sample("volume-flags", c)
				}
			}
		}
	}
	vcore.E.Exhaustive = !vcore.Thorough() || true
	// random words on top
	vcore.Check(t, vcore.N(1<<16, 1<<20), func(rt *rapid.T) {
		kind := rapid.SampledFrom([]string{"rpt", "usar", "usar-map"}).Draw(rt, "kind")
		switch kind {
		case "rpt":
			n := rapid.IntRange(2, 4).Draw(rt, "n")
			run(rt, Case{Kind: "rpt", Bytes: rapid.SliceOfN(rapid.Byte(), n, n).Draw(rt, "b")})
		case "usar":
			run(rt, Case{Kind: "usar", Bytes: rapid.SliceOfN(rapid.Byte(), 3, 3).Draw(rt, "b")})
		case "usar-map":
			run(rt, Case{Kind: "usar-map", Word: rapid.Uint32().Draw(rt, "w")})
		}
	})
}
