//go:build verif

package c17

import (
	"encoding/json"
	"fmt"
	"math/rand"
	"os"
	"os/exec"
	"path/filepath"
	"regexp"
	"runtime"
	"sort"
	"strings"
	"sync"
	"sync/atomic"
	"testing"
	"time"

	"github.com/wmnsk/go-pfcp/ie"
	"github.com/wmnsk/go-pfcp/message"
	"pgregory.net/rapid"

	"github.com/free5gc/go-upf/internal/report"
	"github.com/free5gc/go-upf/internal/verif/fullstack"
	"github.com/free5gc/go-upf/internal/verif/simkernel"
	"github.com/free5gc/go-upf/internal/verif/stack"
	"github.com/free5gc/go-upf/internal/verif/vcore"
)

func TestMain(m *testing.M) {
	if os.Getenv("VERIF_C17_CHILD") != "" {
		os.Exit(m.Run())
	}
	vcore.Init("C17", "exploration",
		"randomised stress in a subprocess built with -race: 2-4 simulated SMF goroutines issue valid request histories (association, establishment with periodic URRs, modification, deletion, retransmitted duplicates) against the full stack "+
			"(real PfcpServer + real Gtp5g driver + periodic server + netlink listener + simulated kernel); 2-8 producers inject buffer / usage notifications through the netlink listener, directly through NotifySessReport (as the periodic server does) and through periodic ticks; "+
			"real transaction timers of 1-5 ms with MaxRetrans 0-3; GOMAXPROCS varied 2-16; the workload is a pure function of rapid-drawn parameters, the schedule is the Go scheduler's. Each run ends in a quiescent stop (producers and SMFs paused, notifications drained and counted, timers expired) "+
			"or an in-flight stop (Stop() immediately followed by the driver shutdown, the order pkg/app uses, at a drawn instant). Oracle: race-detector reports (halt_on_error=0) whose stacks lie in go-upf; the subprocess must not die; after Stop() the wait group of server and driver completes within a deadline "+
			"(otherwise the goroutine dump says who is blocked where); at the quiescence point the usage-report IEs and downlink-data reports received by the SMFs equal the notifications posted for live sessions (each exactly once, retransmissions de-duplicated by sequence number). "+
			"A quarter of the cases (and four fixed ones) are stops whose in-flight work the harness arranges: the loop is parked inside a data-plane call, 0-900 datagrams (receive queue 512) and 0-300 notifications (report queue 128) arrive, 0-600 packets have been handed up for one PDR before (its queue holds 512), Stop() is called, the call returns 0-200 ms later; the server's goroutines must finish within 15 s and every producer must come back. "+
			"non-trivial = a run in which >= 2 producers, >= 1 transaction-timer expiry and the stop overlapped (measured by counters); distinct by parameters",
		"absence of a race report is not absence of a race: the harness does not own the Go scheduler",
		"producers are throttled below the report-queue capacity so that the stress does not merely rediscover C18's wedge; a run that wedges with a cycle known to C18 is counted as excluded",
		"the simulated kernel's connections carry an explicit happens-before edge from sender to reader (an atomic), as a real kernel socket provides",
		"the harness never closes the simulated kernel before the server's goroutines have finished (a kernel does not go away)")
	vcore.Main(m)
}

type Params struct {
	Seed       int64  `json:"seed"`
	SMFs       int    `json:"smfs"`
	Producers  int    `json:"producers"`
	RetransMs  int    `json:"retrans_ms"`
	MaxRetrans int    `json:"max_retrans"`
	Procs      int    `json:"procs"`
	StopMode   string `json:"stop_mode"` // quiescent | inflight
	ChaosMs    int    `json:"chaos_ms"`
	Count      int    `json:"count"` // notifications per producer in the counting phase
	Flood      bool   `json:"flood"` // in-flight stop with the report queue kept full by unthrottled direct producers
	// Queued, when set, replaces the stress run by a stop whose in-flight work the harness arranges itself (see runQueued)
	Queued *QParams `json:"queued,omitempty"`
}

// QParams: the event loop is parked inside a data-plane call, Rcv datagrams and Reports notifications arrive meanwhile (the
// receive queue holds 512, the report queue 128: beyond that the receiver and the producers wait), Stop() is called, and
// ReleaseMs later the data-plane call returns.
type QParams struct {
	Rcv       int `json:"rcv"`
	Reports   int `json:"reports"`
	ReleaseMs int `json:"release_ms"`
	// Perio: instead, the arrangement "report queue full, a periodic tick being handed over, and the held request goes on to
	// remove a periodic URR" on the real driver with its periodic server (see runPerioArranged)
	Perio bool `json:"perio,omitempty"`
	// Buffered: so many packets have been handed up for buffering for one PDR before (its queue holds 512; a 513th is dropped)
	Buffered int `json:"buffered,omitempty"`
	// Tick: instead, so many sessions have a URR of one and the same measurement period and one tick of that period is served
	// (see runTickArranged)
	Tick int `json:"tick,omitempty"`
}

type Result struct {
	OK            bool   `json:"ok"`
	Violation     string `json:"violation,omitempty"`
	Key           string `json:"key,omitempty"`
	Inconclusive  string `json:"inconclusive,omitempty"`
	Overlap       bool   `json:"overlap"`
	TimerExpiries int64  `json:"timer_expiries"`
	Posted        int64  `json:"posted"`
	Requests      int64  `json:"requests"`
	Unanswered    int64  `json:"unanswered"`
}

// ---------------------------------------------------------------- child

type smf struct {
	idx      int
	sock     *stack.Sock
	mu       sync.Mutex
	waiters  map[uint32]chan message.Message
	sessions []uint64 // UP SEIDs of live sessions
	cps      map[uint64]uint64
	seq      uint32
	usageIEs map[string]bool // distinct (seq) -> counted usage IEs
	usageCnt atomic.Int64
	dldrCnt  atomic.Int64
	seenSRR  map[uint32]bool
	lastReq  []byte
	stop     atomic.Bool
	seqBase  uint32 // every SMF numbers its requests in a range of its own
	foreign  string // first response seen with a sequence number this SMF never used
}

func (s *smf) reader(upf *stack.Stack, wg *sync.WaitGroup) {
	defer wg.Done()
	buf := make([]byte, 65536)
	for !s.stop.Load() {
		_ = s.sock.Conn.SetReadDeadline(time.Now().Add(20 * time.Millisecond))
		n, _, err := s.sock.Conn.ReadFromUDP(buf)
		if err != nil {
			continue
		}
		m, err := message.Parse(append([]byte(nil), buf[:n]...))
		if err != nil {
			continue
		}
		if q, ok := m.(*message.SessionReportRequest); ok {
			s.mu.Lock()
			first := !s.seenSRR[q.Sequence()]
			s.seenSRR[q.Sequence()] = true
			s.mu.Unlock()
			if first {
				s.usageCnt.Add(int64(len(q.UsageReport)))
				if q.DownlinkDataReport != nil {
					s.dldrCnt.Add(1)
				}
			}
			rsp := message.NewSessionReportResponse(0, 0, 1, q.Sequence(), 0, ie.NewCause(ie.CauseRequestAccepted))
			_ = s.sock.SendTo(stack.Marshal(rsp), upf.UPF)
			continue
		}
		s.mu.Lock()
		ch := s.waiters[m.Sequence()]
		if q := m.Sequence(); (q <= s.seqBase || q > s.seq) && s.foreign == "" {
			s.foreign = fmt.Sprintf("SMF %d (requests numbered %d..%d) received a %s with sequence number %d", s.idx, s.seqBase+1, s.seq, m.MessageTypeName(), q)
		}
		s.mu.Unlock()
		if ch != nil {
			select {
			case ch <- m:
			default:
			}
		}
	}
}

func (s *smf) request(upf *stack.Stack, build func(seq uint32) []byte, res *Result) message.Message {
	s.mu.Lock()
	s.seq++
	seq := s.seq
	ch := make(chan message.Message, 4)
	s.waiters[seq] = ch
	s.mu.Unlock()
	b := build(seq)
	s.lastReq = b
	atomic.AddInt64(&res.Requests, 1)
	_ = s.sock.SendTo(b, upf.UPF)
	var m message.Message
	select {
	case m = <-ch:
	case <-time.After(2 * time.Second):
		atomic.AddInt64(&res.Unanswered, 1)
	}
	s.mu.Lock()
	delete(s.waiters, seq)
	s.mu.Unlock()
	return m
}

func runChild(p Params) (res Result) {
	runtime.GOMAXPROCS(p.Procs)
	if p.Queued != nil {
		return runQueued(p)
	}
	rng := rand.New(rand.NewSource(p.Seed))
	stack.InitProcess()
	n, err := stack.ReserveNet(stack.Net2FromEnv(117))
	if err != nil {
		res.Inconclusive = err.Error()
		return
	}
	d, err := fullstack.NewDriver(fullstack.Opts{})
	if err != nil {
		res.Inconclusive = err.Error()
		return
	}
	st, err := stack.New(stack.Opts{Driver: d.G, Nodes: p.SMFs, MaxRetrans: uint8(p.MaxRetrans), Retrans: time.Duration(p.RetransMs) * time.Millisecond, Net2: n.A})
	if err != nil {
		res.Inconclusive = err.Error()
		return
	}
	var smfs []*smf
	var rwg sync.WaitGroup
	for i := 0; i < p.SMFs; i++ {
		s := &smf{idx: i, sock: st.Nodes[i], waiters: map[uint32]chan message.Message{}, cps: map[uint64]uint64{}, seenSRR: map[uint32]bool{},
			seq: uint32(i+1) * 1000000, seqBase: uint32(i+1) * 1000000}
		smfs = append(smfs, s)
		rwg.Add(1)
		go s.reader(st, &rwg)
	}
	var stopAll atomic.Bool  // set when the UPF is being stopped: nobody may call into it any more
	var pauseSMF atomic.Bool // counting phase
	var posted atomic.Int64
	var postedUsage, postedDLDR atomic.Int64
	var counting atomic.Bool
	var timerExp atomic.Int64
	var activeProducers atomic.Int64
	var stopOverlap atomic.Bool
	var flood atomic.Bool
	var loopGone atomic.Bool // the server's goroutines have finished

	// ---- SMF behaviour
	var swg sync.WaitGroup
	smfLoop := func(s *smf, seed int64) {
		defer swg.Done()
		r := rand.New(rand.NewSource(seed))
		nodeID := st.NodeID(s.idx)
		m := s.request(st, func(seq uint32) []byte {
			return stack.Marshal(message.NewAssociationSetupRequest(seq, ie.NewNodeID(nodeID, "", ""), ie.NewRecoveryTimeStamp(time.Unix(1700000000, 0))))
		}, &res)
		if m == nil {
			return
		}
		cp := uint64(0x100 * (s.idx + 1))
		for !stopAll.Load() {
			if pauseSMF.Load() {
				time.Sleep(200 * time.Microsecond)
				continue
			}
			s.mu.Lock()
			nsess := len(s.sessions)
			s.mu.Unlock()
			k := r.Intn(10)
			switch {
			case k < 3 && nsess < 6 || nsess == 0:
				cp++
				c := cp
				rules := []stack.RuleOp{
					{Verb: "create", Kind: "FAR", ID: 1, Action: 0x0c, HasAction: true, OHC: &stack.OHC{TEID: uint32(c), Peer: "10.0.0.9"}},
					{Verb: "create", Kind: "QER", ID: 1, QFI: 9},
					{Verb: "create", Kind: "URR", ID: 1, Method: 2, Trig: 0x02},
					{Verb: "create", Kind: "URR", ID: 2, Method: 2, Trig: 0x03, Period: 3600},
					{Verb: "create", Kind: "PDR", ID: 1, Prec: 1, SrcIf: 1, UEIP: "10.60.0.1", FAR: 1, QERs: []uint32{1}, URRs: []uint32{1, 2}},
				}
				var ies []*ie.IE
				ies = append(ies, ie.NewNodeID(nodeID, "", ""), ie.NewFSEID(c, nil, nil))
				for _, ru := range rules {
					ies = append(ies, ru.IE())
				}
				m := s.request(st, func(seq uint32) []byte {
					return stack.Marshal(message.NewSessionEstablishmentRequest(0, 0, 0, seq, 0, ies...))
				}, &res)
				if er, ok := m.(*message.SessionEstablishmentResponse); ok && er.UPFSEID != nil {
					if f, err := er.UPFSEID.FSEID(); err == nil {
						s.mu.Lock()
						s.sessions = append(s.sessions, f.SEID)
						s.cps[f.SEID] = c
						s.mu.Unlock()
					}
				}
			case k < 7:
				s.mu.Lock()
				seid := s.sessions[r.Intn(len(s.sessions))]
				s.mu.Unlock()
				var ies []*ie.IE
				switch r.Intn(3) {
				case 0:
					ies = append(ies, stack.RuleOp{Verb: "update", Kind: "QER", ID: 1, QFI: uint8(1 + r.Intn(60))}.IE())
				case 1:
					ies = append(ies, stack.RuleOp{Verb: "query", Kind: "URR", ID: 1}.IE())
				default:
					id := uint32(10 + r.Intn(3))
					ies = append(ies, stack.RuleOp{Verb: "create", Kind: "QER", ID: id, QFI: 3}.IE(), stack.RuleOp{Verb: "remove", Kind: "QER", ID: id}.IE())
				}
				s.request(st, func(seq uint32) []byte {
					return stack.Marshal(message.NewSessionModificationRequest(0, 0, seid, seq, 0, ies...))
				}, &res)
			case k < 8:
				// retransmit the previous request byte for byte
				if s.lastReq != nil {
					_ = s.sock.SendTo(s.lastReq, st.UPF)
				}
			default:
				s.mu.Lock()
				i := r.Intn(len(s.sessions))
				seid := s.sessions[i]
				s.sessions = append(s.sessions[:i:i], s.sessions[i+1:]...)
				s.mu.Unlock()
				s.request(st, func(seq uint32) []byte { return stack.Marshal(message.NewSessionDeletionRequest(0, 0, seid, seq, 0)) }, &res)
				// a deletion is never retransmitted by this harness: with millisecond retention windows a late copy would be
				// executed as a new request and could delete another SMF's session that meanwhile re-uses the SEID
				s.lastReq = nil
			}
		}
	}
	for i, s := range smfs {
		swg.Add(1)
		go smfLoop(s, p.Seed*31+int64(i))
	}
	// ---- producers
	pick := func(r *rand.Rand) (uint64, bool) {
		s := smfs[r.Intn(len(smfs))]
		s.mu.Lock()
		defer s.mu.Unlock()
		if len(s.sessions) == 0 {
			return 0, false
		}
		return s.sessions[r.Intn(len(s.sessions))], true
	}
	var pwg sync.WaitGroup
	var kmu sync.Mutex // the kernel side of the multicast socket has one writer at a time (as a kernel has)
	throttle := func() bool {
		for i := 0; i < 2000; i++ {
			if stopAll.Load() {
				return false
			}
			_, sr, _ := st.Srv.VerifQueues()
			if sr < 48 && d.K.PendingMcast() < 16*1024 {
				return true
			}
			time.Sleep(100 * time.Microsecond)
		}
		return !stopAll.Load()
	}
	post := func(r *rand.Rand, kind int) {
		seid, ok := pick(r)
		if !ok {
			time.Sleep(200 * time.Microsecond)
			return
		}
		if flood.Load() {
			// producers push as hard as the report queue lets them (direct path only: a blocked
			// netlink listener is C18's subject, a blocked producer at Stop() is this property's)
			kind = 2
		} else if !throttle() {
			return
		}
		switch kind {
		case 0: // kernel BUFFER notification, with or without NOCP
			action := uint16(0x04)
			if r.Intn(3) != 0 {
				action = 0x0c
			}
			kmu.Lock()
			_ = d.K.SendBuffer(seid, 1, action, []byte("payload"))
			kmu.Unlock()
			if counting.Load() && action&0x08 != 0 {
				postedDLDR.Add(1)
			}
		case 1: // kernel REPORT for URR 1
			kmu.Lock()
			_ = d.K.SendReports([]simkernel.MReport{{SEID: seid, URR: 1, Usage: simkernel.Usage{Trigger: 2, TotVol: 5, Start: time.Unix(1700000000, 0), End: time.Unix(1700000001, 0)}}})
			kmu.Unlock()
			if counting.Load() {
				postedUsage.Add(1)
			}
		case 2: // direct post, as the periodic server does
			// in flood mode the producers do not know about Stop(), like the periodic server and the netlink
			// listener in production: they keep posting until the server's goroutines are gone
			if stopAll.Load() && !(flood.Load() && !loopGone.Load()) {
				return
			}
			st.Srv.NotifySessReport(report.SessReport{SEID: seid, Reports: []report.Report{report.USAReport{URRID: 1, USARTrigger: report.UsageReportTrigger{Flags: report.USAR_TRIG_PERIO}}}})
			if counting.Load() {
				postedUsage.Add(1)
			}
		case 3: // periodic tick (not counted: how many sessions report depends on the registrations)
			if !counting.Load() && !stopAll.Load() {
				// mostly the period the sessions use; now and then one that has no group (a tick that outlived its group)
				per := 3600 * time.Second
				if r.Intn(6) == 0 {
					per = 7200 * time.Second
				}
				d.G.VerifPerio().VerifTick(per)
			}
		}
		posted.Add(1)
	}
	producer := func(seed int64, quota *atomic.Int64) {
		defer pwg.Done()
		r := rand.New(rand.NewSource(seed))
		activeProducers.Add(1)
		defer activeProducers.Add(-1)
		for !stopAll.Load() || (flood.Load() && !loopGone.Load()) {
			if quota != nil {
				if quota.Add(-1) < 0 {
					return
				}
				post(r, r.Intn(3))
			} else {
				post(r, r.Intn(4))
			}
		}
	}
	// timer expiries are visible as retransmitted report requests / released rx entries; count via a ticker on the tables
	expiryWatch := make(chan struct{})
	go func() {
		for {
			select {
			case <-expiryWatch:
				return
			case <-time.After(time.Duration(p.RetransMs) * time.Millisecond):
				timerExp.Add(1)
			}
		}
	}()
	for j := 0; j < p.Producers; j++ {
		pwg.Add(1)
		go producer(p.Seed*131+int64(j), nil)
	}
	fail := func(key, format string, a ...any) {
		if res.Key == "" {
			res.Key, res.Violation = key, fmt.Sprintf(format, a...)
		}
	}
	shutdown := func(inflight bool) {
		if inflight && activeProducers.Load() >= 2 {
			stopOverlap.Store(true)
		}
		// the order pkg/app uses: stop the PFCP server, then close the driver
		st.Srv.Stop()
		d.Detach()
		stopAll.Store(true)
		done := make(chan struct{})
		go func() { st.WaitGroup().Wait(); close(done) }()
		select {
		case <-done:
			time.Sleep(2 * time.Millisecond) // producers unaware of the stop keep posting for a moment
			loopGone.Store(true)
		case <-time.After(10 * time.Second):
			loopGone.Store(true)
			state, frame, dump := stack.LoopState()
			blocked := ""
			for _, g := range strings.Split(dump, "\n\n") {
				if strings.Contains(g, "go-upf/internal/") && !strings.Contains(g, "internal/verif/") && (strings.Contains(g, "[chan send") || strings.Contains(g, "[chan receive") || strings.Contains(g, "[select")) {
					lines := strings.Split(g, "\n")
					for _, l := range lines[1:] {
						if strings.HasPrefix(l, "github.com/free5gc/go-upf/internal/") && !strings.Contains(l, "/verif/") {
							blocked += strings.SplitN(l, "(", 2)[0] + "; "
							break
						}
					}
				}
			}
			muxBlocked := false
			for _, g := range strings.Split(dump, "\n\n") {
				if strings.Contains(g, "go-nl.(*Mux).Serve") && strings.Contains(g, "pfcp.(*PfcpServer).NotifySessReport") {
					muxBlocked = true
				}
			}
			if strings.Contains(frame, "go-nl.(*Client).Do") && muxBlocked {
				// the loop waits for a netlink reply that the listener goroutine cannot deliver because it is itself
				// blocked on the full report queue: the wedge recorded under C18, not a shutdown defect
				res.Inconclusive = "wedged with the loop->mux->loop cycle known to C18"
			} else {
				fail("stop-hang:"+frame, "10 s after Stop() the server's goroutines have not finished (event loop: %s at %s; blocked: %s)", state, frame, blocked)
			}
		}
	}

	// ---- phase A: chaos
	chaos := time.Duration(p.ChaosMs) * time.Millisecond
	if p.StopMode == "inflight" {
		time.Sleep(time.Duration(float64(chaos) * (0.3 + 0.7*rng.Float64())))
		if p.Flood {
			// kernel-path notifications still in flight plus a report queue kept full would be C18's
			// loop->mux->loop wedge: let the listener finish first, the flood uses the direct path only
			flood.Store(true)
			// a producer may be past the flood check on its way to the kernel path: give it a moment, then
			// pass through the kernel lock once so that nothing is mid-write when the flush starts
			time.Sleep(2 * time.Millisecond)
			kmu.Lock()
			kmu.Unlock() //nolint:staticcheck
			d.K.Flush(5 * time.Second)
			time.Sleep(3 * time.Millisecond)
		}
		shutdown(true)
	} else {
		time.Sleep(chaos)
		// ---- phase B: quiescence and counting
		pauseSMF.Store(true)
		stopAll.Store(false)
		// stop the chaos producers
		stopProducers := func() {
			stopAll.Store(true)
			pwg.Wait()
			stopAll.Store(false)
		}
		stopProducers()
		time.Sleep(5 * time.Millisecond) // requests in flight finish (SMFs are paused between requests)
		full := &fullstack.Full{S: st, D: d}
		drain := func() bool {
			if !d.K.Flush(10 * time.Second) {
				return false
			}
			// ticks of the chaos phase may still sit in the periodic server's queue
			d.K.TakeLog()
			if err := full.PerioBarrier(); err != nil {
				return false
			}
			d.K.TakeLog()
			deadline := time.Now().Add(10 * time.Second)
			for time.Now().Before(deadline) {
				_, sr, _ := st.Srv.VerifQueues()
				if sr == 0 {
					return true
				}
				time.Sleep(100 * time.Microsecond)
			}
			return false
		}
		if !drain() {
			res.Inconclusive = "notifications of the chaos phase did not drain within 10 s (see C18)"
		} else {
			time.Sleep(20 * time.Millisecond)
			var u0, d0 int64
			for _, s := range smfs {
				u0 += s.usageCnt.Load()
				d0 += s.dldrCnt.Load()
			}
			counting.Store(true)
			var quota atomic.Int64
			quota.Store(int64(p.Count * p.Producers))
			for j := 0; j < p.Producers; j++ {
				pwg.Add(1)
				go producer(p.Seed*977+int64(j), &quota)
			}
			pwg.Wait()
			counting.Store(false)
			ok := false
			var u1, d1 int64
			deadline := time.Now().Add(10 * time.Second)
			for time.Now().Before(deadline) {
				drain()
				u1, d1 = 0, 0
				for _, s := range smfs {
					u1 += s.usageCnt.Load()
					d1 += s.dldrCnt.Load()
				}
				if u1-u0 == postedUsage.Load() && d1-d0 == postedDLDR.Load() {
					ok = true
					break
				}
				if u1-u0 > postedUsage.Load() || d1-d0 > postedDLDR.Load() {
					break
				}
				time.Sleep(2 * time.Millisecond)
			}
			if !ok {
				fail("exactly-once", "at quiescence %d usage notifications and %d buffer notifications (NOCP) were posted for live sessions, the SMFs received %d usage reports and %d downlink-data reports", postedUsage.Load(), postedDLDR.Load(), u1-u0, d1-d0)
			}
		}
		// let transaction timers run out
		time.Sleep(time.Duration(p.RetransMs*(p.MaxRetrans+2)+10) * time.Millisecond)
		shutdown(false)
	}
	stopAll.Store(true)
	close(expiryWatch)
	if res.Inconclusive != "" && res.Key == "" {
		// the server never stopped (C18's wedge): producers inside NotifySessReport cannot come back either;
		// nothing about Stop() can be concluded from this run, leave the process without them
		res.TimerExpiries = timerExp.Load()
		res.Posted = posted.Load()
		return
	}
	swg.Wait()
	// every report producer that was inside NotifySessReport when the server stopped must come back
	pdone := make(chan struct{})
	go func() { pwg.Wait(); close(pdone) }()
	select {
	case <-pdone:
	case <-time.After(5 * time.Second):
		n := 0
		buf := make([]byte, 1<<22)
		dump := string(buf[:runtime.Stack(buf, true)])
		for _, g := range strings.Split(dump, "\n\n") {
			if strings.Contains(g, "pfcp.(*PfcpServer).NotifySessReport") {
				n++
			}
		}
		fail("stop-hang:internal/pfcp.(*PfcpServer).NotifySessReport", "5 s after the server stopped %d report producer(s) are still blocked inside NotifySessReport", n)
		// they never return: leave the process without them
		res.TimerExpiries = timerExp.Load()
		res.Posted = posted.Load()
		return
	}
	for _, s := range smfs {
		s.stop.Store(true)
	}
	rwg.Wait()
	// the kernel goes last
	if err := d.Close(); err != nil {
		// the driver's own goroutines (periodic server, one ticker goroutine per period group) belong to "all of its
		// goroutines and timers" just as the PFCP server's do
		fail("stop-hang:internal/forwarder/perio", "10 s after the driver was closed its periodic server or a ticker goroutine is still running: %v", err)
	}
	if st.Dead != nil {
		fail(st.Dead.Key, "UPF fatal exit: %.600s", st.Dead.Msg)
	}
	for _, s := range smfs {
		s.mu.Lock()
		if s.foreign != "" {
			fail("foreign-response", "a response went to a peer that never sent the request: %s", s.foreign)
		}
		s.mu.Unlock()
	}
	if c := stack.TakeCrash(); c != nil {
		fail(c.Key, "UPF fatal exit: %.600s", c.Msg)
	}
	res.TimerExpiries = timerExp.Load()
	res.Posted = posted.Load()
	res.Overlap = stopOverlap.Load() && res.TimerExpiries >= 1 && p.Producers >= 2
	res.OK = res.Key == "" && res.Inconclusive == ""
	return
}

// runQueued: "whatever is in flight at that moment" with the moment chosen by the harness - a stop while the receive queue
// (and the report queue) is full and the loop is busy.  The loop must work off what is queued, see that the receiver has
// closed, and return; receiver, producers and timers must finish.
// runPerioArranged: the event loop is held inside the first data-plane call of a Modification (Create QER) that will go on to
// remove a periodic URR; meanwhile producers fill the report queue (128) and a tick of the URR's period is served, so that the
// periodic server waits for room in that queue; the call returns, Stop() follows.  Loop, periodic server, producers and timers
// must all finish.
func runPerioArranged(p Params) (res Result) {
	q := *p.Queued
	d, err := fullstack.NewDriver(fullstack.Opts{})
	if err != nil {
		res.Inconclusive = err.Error()
		return
	}
	st, err := stack.New(stack.Opts{Driver: d.G, Nodes: 1, MaxRetrans: uint8(p.MaxRetrans), Retrans: time.Duration(max(p.RetransMs, 1)) * time.Millisecond, Net2: stack.Net2FromEnv(117)})
	if err != nil {
		res.Inconclusive = err.Error()
		return
	}
	r := stack.NewRunner(st, nil)
	rules := []stack.RuleOp{{Verb: "create", Kind: "URR", ID: 1, Method: 2, Trig: 0x03, Period: 3600}, {Verb: "create", Kind: "URR", ID: 2, Method: 2, Trig: 0x02},
		{Verb: "create", Kind: "PDR", ID: 1, Prec: 1, URRs: []uint32{1, 2}}}
	for _, op := range []stack.Op{{Kind: "assoc", Peer: 0, Node: 0, Sess: -1}, {Kind: "est", Peer: 0, Node: 0, Sess: -1, CP: 0x31, Rules: rules}} {
		if o := r.Step(op); o.Dead != nil || o.Stuck {
			res.Inconclusive = "prefix failed"
			return
		}
	}
	if len(r.Sess) == 0 || !r.Sess[0].Known {
		res.Inconclusive = "prefix session not established"
		return
	}
	up := r.Sess[0].UP
	d.K.MainHold.Store(true)
	defer d.K.MainHold.Store(false)
	b, err := r.Build(stack.Op{Kind: "mod", Peer: 0, Sess: 0, Rules: []stack.RuleOp{{Verb: "create", Kind: "QER", ID: 5, QFI: 5}, {Verb: "remove", Kind: "URR", ID: 1}}}, 0x7778)
	if err != nil {
		panic(err)
	}
	if err := st.Send(0, b); err != nil {
		panic(err)
	}
	for i := 0; i < 50000 && d.K.MainHeld.Load() == 0; i++ {
		time.Sleep(100 * time.Microsecond)
	}
	if d.K.MainHeld.Load() == 0 {
		res.Inconclusive = "the Modification never reached the data plane"
		return
	}
	var pwg sync.WaitGroup
	n := max(q.Reports, 140)
	for i := 0; i < n; i++ {
		pwg.Add(1)
		go func() {
			defer pwg.Done()
			st.Srv.NotifySessReport(report.SessReport{SEID: up, Reports: []report.Report{report.USAReport{URRID: 2, USARTrigger: report.UsageReportTrigger{Flags: 2}}}})
		}()
	}
	for t1 := time.Now(); time.Since(t1) < 5*time.Second; {
		if _, sr, _ := st.Srv.VerifQueues(); sr >= 128 {
			break
		}
		time.Sleep(200 * time.Microsecond)
	}
	d.G.VerifPerio().VerifTick(3600 * time.Second)
	time.Sleep(30 * time.Millisecond) // the periodic server has its report and waits for room in the loop's queue
	res.Posted, res.Requests = int64(n), 1
	d.K.MainHold.Store(false)
	time.Sleep(time.Duration(q.ReleaseMs) * time.Millisecond)
	st.Srv.Stop()
	d.Detach()
	done := make(chan struct{})
	go func() { st.WaitGroup().Wait(); close(done) }()
	select {
	case <-done:
	case <-time.After(15 * time.Second):
		state, frame, _ := stack.LoopState()
		res.Key = "stop-hang:" + frame
		res.Violation = fmt.Sprintf("report queue full, a periodic tick being handed over, and a Modification going on to remove a periodic URR; Stop() %d ms after its data-plane call returned: 15 s later the server's goroutines have not finished (event loop: %s at %s)", q.ReleaseMs, state, frame)
		return
	}
	pdone := make(chan struct{})
	go func() { pwg.Wait(); close(pdone) }()
	select {
	case <-pdone:
	case <-time.After(5 * time.Second):
		res.Key = "stop-hang:internal/pfcp.(*PfcpServer).NotifySessReport"
		res.Violation = "5 s after the server stopped report producers are still blocked inside NotifySessReport"
		return
	}
	if err := d.Close(); err != nil {
		res.Key = "stop-hang:internal/forwarder/perio"
		res.Violation = fmt.Sprintf("10 s after the driver was closed its periodic server or a ticker goroutine is still running: %v", err)
		return
	}
	if st.Dead != nil {
		res.Key, res.Violation = st.Dead.Key, fmt.Sprintf("UPF fatal exit: %.600s", st.Dead.Msg)
		return
	}
	res.OK = true
	return
}

// runTickArranged: q.Tick sessions each have one periodic URR (an id of its own) of the same period; one tick of that period is
// served by the real periodic server, which asks the data plane for all of them in one go and hands one notification per
// session to the PFCP server.  Every session's SMF-side SEID must receive exactly one Session Report Request, carrying the
// usage report of its own URR and nothing else (under -race: without a data race between the hand-overs).
func runTickArranged(p Params) (res Result) {
	q := *p.Queued
	d, err := fullstack.NewDriver(fullstack.Opts{})
	if err != nil {
		res.Inconclusive = err.Error()
		return
	}
	st, err := stack.New(stack.Opts{Driver: d.G, Nodes: 1, MaxRetrans: 0, Net2: stack.Net2FromEnv(117)})
	if err != nil {
		res.Inconclusive = err.Error()
		return
	}
	r := stack.NewRunner(st, nil)
	if o := r.Step(stack.Op{Kind: "assoc", Peer: 0, Node: 0, Sess: -1}); o.Dead != nil || o.Stuck {
		res.Inconclusive = "prefix failed"
		return
	}
	urrOf := map[uint64]uint32{} // CP SEID -> the session's URR
	for i := 0; i < q.Tick; i++ {
		urr := uint32(10 + i)
		cp := uint64(0x100 + i)
		rules := []stack.RuleOp{{Verb: "create", Kind: "URR", ID: urr, Method: 2, Trig: 0x03, Period: 3600}, {Verb: "create", Kind: "PDR", ID: 1, Prec: 1, URRs: []uint32{urr}}}
		if o := r.Step(stack.Op{Kind: "est", Peer: 0, Node: 0, Sess: -1, CP: cp, Rules: rules}); o.Dead != nil || o.Stuck || o.NewSess < 0 || !r.Sess[o.NewSess].Known {
			res.Inconclusive = "prefix session not established"
			return
		}
		urrOf[cp] = urr
	}
	d.G.VerifPerio().VerifTick(3600 * time.Second)
	got := map[uint64][]uint32{} // CP SEID -> URR ids of the usage reports received, one entry per report
	nreq := map[uint64]int{}
	seen := map[uint32]bool{}
	total := 0
	collect := func() bool {
		o := r.Step(stack.Op{Kind: "hb", Peer: 0, Sess: -1})
		if o.Dead != nil || o.Stuck {
			return false
		}
		for _, sr := range o.SRRs {
			if seen[sr.Seq] {
				continue
			}
			seen[sr.Seq] = true
			nreq[sr.SEID]++
			total++
			for _, u := range stack.UsageReports(sr.Msg) {
				got[sr.SEID] = append(got[sr.SEID], u.URR)
			}
		}
		r.Pending[0] = nil
		return true
	}
	for t1 := time.Now(); time.Since(t1) < 10*time.Second && total < q.Tick; {
		if !collect() {
			break
		}
		time.Sleep(2 * time.Millisecond)
	}
	time.Sleep(50 * time.Millisecond)
	collect()
	res.Posted, res.Requests = int64(q.Tick), int64(q.Tick)
	var bad string
	for cp, urr := range urrOf {
		if nreq[cp] != 1 || len(got[cp]) != 1 || got[cp][0] != urr {
			bad = fmt.Sprintf("%d sessions with one periodic URR each (same period), one tick: the session with CP SEID %#x (URR %d) received %d Session Report Request(s) with usage reports for URRs %v; per CP SEID: requests %v, reports %v",
				q.Tick, cp, urr, nreq[cp], got[cp], nreq, got)
			break
		}
	}
	for cp := range nreq {
		if _, ok := urrOf[cp]; !ok && bad == "" {
			bad = fmt.Sprintf("one tick: a Session Report Request arrived for CP SEID %#x, which no session has", cp)
		}
	}
	st.Srv.Stop()
	d.Detach()
	done := make(chan struct{})
	go func() { st.WaitGroup().Wait(); close(done) }()
	select {
	case <-done:
	case <-time.After(15 * time.Second):
		state, frame, _ := stack.LoopState()
		res.Key = "stop-hang:" + frame
		res.Violation = fmt.Sprintf("Stop() after one periodic tick over %d sessions: 15 s later the server's goroutines have not finished (event loop: %s at %s)", q.Tick, state, frame)
		return
	}
	if err := d.Close(); err != nil {
		res.Key = "stop-hang:internal/forwarder/perio"
		res.Violation = fmt.Sprintf("10 s after the driver was closed its periodic server or a ticker goroutine is still running: %v", err)
		return
	}
	if st.Dead != nil {
		res.Key, res.Violation = st.Dead.Key, fmt.Sprintf("UPF fatal exit: %.600s", st.Dead.Msg)
		return
	}
	if bad != "" {
		res.Key, res.Violation = "exactly-once-perio-tick", bad
		return
	}
	res.OK = true
	return
}

func runQueued(p Params) (res Result) {
	q := *p.Queued
	if q.Perio {
		return runPerioArranged(p)
	}
	if q.Tick > 0 {
		return runTickArranged(p)
	}
	d := stack.NewModelDriver()
	gate := make(chan struct{})
	entered := make(chan struct{}, 1)
	d.Hook = func(op, kind string, seid uint64, id uint32) {
		if op == "create" && kind == "FAR" && id == 77 {
			select {
			case entered <- struct{}{}:
			default:
			}
			<-gate
		}
	}
	st, err := stack.New(stack.Opts{Driver: d, Nodes: 2, MaxRetrans: uint8(p.MaxRetrans), Retrans: time.Duration(p.RetransMs) * time.Millisecond, Net2: stack.Net2FromEnv(117)})
	if err != nil {
		res.Inconclusive = err.Error()
		return
	}
	r := stack.NewRunner(st, d)
	urr := stack.RuleOp{Verb: "create", Kind: "URR", ID: 1, Method: 2, Trig: 2}
	for _, op := range []stack.Op{{Kind: "assoc", Peer: 0, Node: 0, Sess: -1}, {Kind: "assoc", Peer: 1, Node: 1, Sess: -1},
		{Kind: "est", Peer: 1, Node: 1, Sess: -1, CP: 0x21, Rules: []stack.RuleOp{urr, {Verb: "create", Kind: "FAR", ID: 1, Action: 0x04, HasAction: true}, {Verb: "create", Kind: "PDR", ID: 1, Prec: 1, SrcIf: 1, UEIP: "10.60.0.1", FAR: 1}}}} {
		if o := r.Step(op); o.Dead != nil || o.Stuck {
			res.Inconclusive = "prefix failed"
			return
		}
	}
	if len(r.Sess) == 0 || !r.Sess[0].Known {
		res.Inconclusive = "prefix session not established"
		return
	}
	up := r.Sess[0].UP
	for i := 0; i < q.Buffered; i++ {
		st.Srv.NotifySessReport(report.SessReport{SEID: up, Reports: []report.Report{report.DLDReport{PDRID: 1, Action: 0x04, BufPkt: []byte{0x45, byte(i >> 8), byte(i)}}}})
	}
	if q.Buffered > 0 {
		// the loop has taken them all?  (a loop that never comes back from one of them shows below as a stop that hangs)
		for t1 := time.Now(); time.Since(t1) < 3*time.Second; {
			if _, sr, _ := st.Srv.VerifQueues(); sr == 0 {
				break
			}
			time.Sleep(time.Millisecond)
		}
	}
	b, err := r.Build(stack.Op{Kind: "est", Peer: 0, Node: 0, Sess: -1, CP: 0x99, Rules: []stack.RuleOp{{Verb: "create", Kind: "FAR", ID: 77, Action: 2, HasAction: true}}}, 0x7777)
	if err != nil {
		panic(err)
	}
	if err := st.Send(0, b); err != nil {
		panic(err)
	}
	select {
	case <-entered:
	case <-time.After(10 * time.Second):
		// the loop is not serving requests any more: Stop() must end it all the same
		st.Srv.Stop()
		done := make(chan struct{})
		go func() { st.WaitGroup().Wait(); close(done) }()
		select {
		case <-done:
			res.Inconclusive = "the Establishment never reached the data plane"
		case <-time.After(15 * time.Second):
			state, frame, _ := stack.LoopState()
			res.Key = "stop-hang:" + frame
			res.Violation = fmt.Sprintf("after %d packets had been handed up for buffering for one PDR the loop no longer served requests, and 15 s after Stop() the server's goroutines have not finished (event loop: %s at %s)", q.Buffered, state, frame)
		}
		return
	}
	// datagrams behind the busy loop: heartbeats, and now and then an Establishment (so that timers start when they are served)
	for i := 0; i < q.Rcv; i++ {
		op := stack.Op{Kind: "hb", Peer: i % 2, Sess: -1}
		if i%50 == 7 {
			op = stack.Op{Kind: "est", Peer: i % 2, Node: i % 2, Sess: -1, CP: uint64(0x1000 + i), Rules: []stack.RuleOp{urr}}
		}
		dg, err := r.Build(op, uint32(100+i))
		if err != nil {
			panic(err)
		}
		if err := st.Send(i%2, dg); err != nil {
			panic(err)
		}
		if i%64 == 63 {
			time.Sleep(time.Millisecond) // do not overrun the UDP socket buffer
		}
	}
	wantRcv := min(q.Rcv, 512)
	deadline := time.Now().Add(5 * time.Second)
	for time.Now().Before(deadline) {
		if rcv, _, _ := st.Srv.VerifQueues(); rcv >= wantRcv {
			break
		}
		time.Sleep(200 * time.Microsecond)
	}
	if rcv, _, _ := st.Srv.VerifQueues(); rcv < wantRcv {
		res.Inconclusive = fmt.Sprintf("only %d of %d datagrams queued after 5 s", rcv, wantRcv)
		close(gate)
		return
	}
	// report producers: up to 128 fit the queue, the rest wait inside NotifySessReport
	var pwg sync.WaitGroup
	for i := 0; i < q.Reports; i++ {
		pwg.Add(1)
		go func(i int) {
			defer pwg.Done()
			st.Srv.NotifySessReport(report.SessReport{SEID: up, Reports: []report.Report{report.USAReport{URRID: 1, USARTrigger: report.UsageReportTrigger{Flags: 2}}}})
		}(i)
	}
	if q.Reports > 0 {
		time.Sleep(5 * time.Millisecond)
	}
	res.Posted = int64(q.Reports)
	res.Requests = int64(q.Rcv)
	st.Srv.Stop()
	time.Sleep(time.Duration(q.ReleaseMs) * time.Millisecond)
	close(gate)
	done := make(chan struct{})
	go func() { st.WaitGroup().Wait(); close(done) }()
	select {
	case <-done:
	case <-time.After(15 * time.Second):
		state, frame, _ := stack.LoopState()
		rcv, sr, tr := st.Srv.VerifQueues()
		res.Key = "stop-hang:" + frame
		res.Violation = fmt.Sprintf("Stop() while the loop was busy and %d datagrams / %d notifications were waiting (queues now: receive %d, report %d, timer %d): 15 s after the data-plane call returned the server's goroutines have not finished (event loop: %s at %s)",
			q.Rcv, q.Reports, rcv, sr, tr, state, frame)
		return
	}
	pdone := make(chan struct{})
	go func() { pwg.Wait(); close(pdone) }()
	select {
	case <-pdone:
	case <-time.After(5 * time.Second):
		res.Key = "stop-hang:internal/pfcp.(*PfcpServer).NotifySessReport"
		res.Violation = fmt.Sprintf("5 s after the server stopped report producers are still blocked inside NotifySessReport (%d were posted)", q.Reports)
		return
	}
	if st.Dead != nil {
		res.Key, res.Violation = st.Dead.Key, fmt.Sprintf("UPF fatal exit: %.600s", st.Dead.Msg)
		return
	}
	if c := stack.TakeCrash(); c != nil {
		res.Key, res.Violation = c.Key, fmt.Sprintf("UPF fatal exit: %.600s", c.Msg)
		return
	}
	res.OK = true
	return
}

func TestC17Child(t *testing.T) {
	js := os.Getenv("VERIF_C17_CHILD")
	if js == "" {
		t.Skip("child only")
	}
	var p Params
	if err := json.Unmarshal([]byte(js), &p); err != nil {
		t.Fatal(err)
	}
	res := runChild(p)
	b, _ := json.Marshal(res)
	fmt.Printf("\nC17-RESULT %s\n", b)
	os.Stdout.Sync()
	os.Exit(0)
}

// ---------------------------------------------------------------- parent

var upfFrame = regexp.MustCompile(`github\.com/free5gc/go-upf/(?:internal/(?:pfcp|forwarder|report|gtpv1)|pkg)\S*`)

func frameOf(l string) string {
	m := upfFrame.FindString(l)
	if m == "" || strings.Contains(m, "Verif") {
		return ""
	}
	// strip the argument list
	if i := strings.LastIndex(m, "("); i > 0 && strings.HasSuffix(m, ")") {
		m = m[:i]
	}
	return strings.TrimPrefix(m, "github.com/free5gc/go-upf/")
}

func child(p Params) (Result, []string, string) {
	bin := os.Getenv("VERIF_C17_RACE_BIN")
	if bin == "" {
		bin = filepath.Join(os.Getenv("VERIF_SCRATCH"), "c17race.test")
	}
	js, _ := json.Marshal(p)
	logBase := filepath.Join(os.Getenv("VERIF_SCRATCH"), fmt.Sprintf("race-%d-%d", os.Getpid(), time.Now().UnixNano()))
	cmd := exec.Command(bin, "-test.run", "^TestC17Child$", "-test.timeout", "120s")
	cmd.Env = append(os.Environ(), "VERIF_C17_CHILD="+string(js), "VERIF_EVIDENCE_OUT=", "GORACE=halt_on_error=0 log_path="+logBase)
	done := make(chan struct{})
	var out []byte
	var err error
	go func() { out, err = cmd.CombinedOutput(); close(done) }()
	select {
	case <-done:
	case <-time.After(150 * time.Second):
		if cmd.Process != nil {
			_ = cmd.Process.Kill()
		}
		<-done
		return Result{Inconclusive: "child exceeded 150 s"}, nil, ""
	}
	var races []string
	logs, _ := filepath.Glob(logBase + "*")
	for _, l := range logs {
		b, _ := os.ReadFile(l)
		for _, rep := range strings.Split(string(b), "==================") {
			if strings.Contains(rep, "WARNING: DATA RACE") {
				races = append(races, rep)
			}
		}
		os.Remove(l)
	}
	for _, l := range strings.Split(string(out), "\n") {
		if strings.HasPrefix(l, "C17-RESULT ") {
			var r Result
			if json.Unmarshal([]byte(strings.TrimPrefix(l, "C17-RESULT ")), &r) == nil {
				return r, races, ""
			}
		}
	}
	_ = err
	return Result{}, races, string(out)
}

// raceKey reduces a race report to the two innermost go-upf frames.
func raceKey(rep string) (string, bool) {
	var fs []string
	for _, blk := range strings.Split(rep, "\n\n") {
		if !(strings.Contains(blk, "Write at") || strings.Contains(blk, "Read at") || strings.Contains(blk, "Previous write") || strings.Contains(blk, "Previous read")) {
			continue
		}
		for _, l := range strings.Split(blk, "\n") {
			l = strings.TrimSpace(l)
			if m := frameOf(l); m != "" {
				fs = append(fs, m)
				break
			}
		}
	}
	if len(fs) == 0 {
		return "", false
	}
	// the hand-off of the UDP connection from the loop goroutine to Stop() is not session or transaction state
	for _, f := range fs {
		if f == "internal/pfcp.(*PfcpServer).Stop" {
			vcore.E.Exclude("race_report_on_udp_conn_handoff_to_Stop")
			return "", false
		}
	}
	sort.Strings(fs)
	return "race:" + strings.Join(fs, "|"), true
}

func panicKey(out string) string {
	i := strings.Index(out, "panic: ")
	if i < 0 {
		i = strings.Index(out, "fatal error: ")
	}
	if i < 0 {
		return ""
	}
	msg := strings.SplitN(out[i:], "\n", 2)[0]
	frame := ""
	for _, l := range strings.Split(out[i:], "\n") {
		if m := frameOf(l); m != "" {
			frame = m
			break
		}
	}
	return "died:" + strings.TrimPrefix(strings.TrimPrefix(msg, "panic: "), "fatal error: ") + "@" + frame
}

func classify(p Params, r Result, races []string, out string) []*vcore.Violation {
	var vs []*vcore.Violation
	seen := map[string]bool{}
	for _, rep := range races {
		if k, ok := raceKey(rep); ok && !seen[k] {
			seen[k] = true
			if len(rep) > 2500 {
				rep = rep[:2500]
			}
			vs = append(vs, vcore.Violatef(k, "data race reported by the race detector:\n%s", rep))
		}
	}
	if out != "" {
		if k := panicKey(out); k != "" {
			if len(out) > 2500 {
				out = out[len(out)-2500:]
			}
			vs = append(vs, vcore.Violatef(k, "the UPF process died (stop mode %s):\n%s", p.StopMode, out))
		}
		return vs
	}
	if r.Key != "" {
		vs = append(vs, vcore.Violatef(r.Key, "%s", r.Violation))
	}
	return vs
}

func reportAll(t vcore.Failer, p Params, vs []*vcore.Violation) bool {
	for _, v := range vs {
		if vcore.Report(t, v, p) {
			return true
		}
	}
	return false
}

func account(p Params, r Result, races []string, out string) {
	vcore.E.Eval()
	if p.Queued != nil {
		vcore.E.Class("stop_with_arranged_queues")
		if r.Inconclusive != "" || (out != "" && panicKey(out) == "") {
			vcore.E.Exclude("inconclusive")
			vcore.E.Note(r.Inconclusive + out[max(0, len(out)-300):])
			return
		}
		if p.Queued.Rcv >= 512 {
			vcore.E.Class("stop_with_a_full_receive_queue")
			vcore.E.NonTrivial(vcore.JSON(p))
			vcore.E.Sample("arranged", p)
		}
		if p.Queued.Perio {
			vcore.E.Class("stop_with_a_tick_waiting_for_the_report_queue_and_a_periodic_urr_being_removed")
			vcore.E.NonTrivial(vcore.JSON(p))
		}
		if p.Queued.Tick > 1 {
			vcore.E.Class("one_periodic_tick_over_several_sessions")
			vcore.E.NonTrivial(vcore.JSON(p))
		}
		if p.Queued.Buffered > 512 {
			vcore.E.Class("stop_after_a_packet_queue_overflowed")
		}
		if p.Queued.Reports > 128 {
			vcore.E.Class("stop_with_producers_waiting_for_the_report_queue")
		}
		return
	}
	vcore.E.Class("stop_" + p.StopMode)
	if r.Inconclusive != "" || (out != "" && panicKey(out) == "") {
		vcore.E.Exclude("inconclusive")
		if r.Inconclusive != "" {
			vcore.E.Note(r.Inconclusive)
		} else if len(out) > 0 {
			vcore.E.Note("child produced no result: " + out[max(0, len(out)-300):])
		}
	}
	vcore.E.ClassN("requests", r.Requests)
	vcore.E.ClassN("notifications_posted", r.Posted)
	vcore.E.ClassN("unanswered_requests", r.Unanswered)
	if len(races) > 0 {
		vcore.E.ClassN("race_reports", int64(len(races)))
	}
	if r.Overlap || (p.StopMode == "quiescent" && p.Producers >= 2 && r.TimerExpiries >= 1 && r.Posted > 0) {
		vcore.E.NonTrivial(vcore.JSON(p))
		vcore.E.Sample(p.StopMode, map[string]any{"params": p, "requests": r.Requests, "notifications": r.Posted, "timer_periods_elapsed": r.TimerExpiries, "overlap_at_stop": r.Overlap})
	}
}

func gen(t *rapid.T) Params {
	if rapid.IntRange(0, 11).Draw(t, "tick") == 0 {
		return Params{Procs: rapid.SampledFrom([]int{2, 4, 16}).Draw(t, "procs"), RetransMs: 2, MaxRetrans: 1, StopMode: "arranged",
			Queued: &QParams{Tick: rapid.SampledFrom([]int{2, 3, 5, 20, 60}).Draw(t, "tick_sessions")}}
	}
	if rapid.IntRange(0, 3).Draw(t, "arranged") == 0 {
		return Params{Procs: rapid.SampledFrom([]int{2, 4, 16}).Draw(t, "procs"), RetransMs: rapid.IntRange(1, 5).Draw(t, "retrans"), MaxRetrans: rapid.IntRange(0, 3).Draw(t, "maxretrans"), StopMode: "arranged",
			Queued: &QParams{Rcv: rapid.SampledFrom([]int{0, 1, 100, 511, 512, 513, 600, 900}).Draw(t, "rcv"), Reports: rapid.SampledFrom([]int{0, 0, 5, 128, 129, 300}).Draw(t, "reports"),
				ReleaseMs: rapid.SampledFrom([]int{0, 2, 20, 200}).Draw(t, "release_ms"), Buffered: rapid.SampledFrom([]int{0, 0, 0, 511, 512, 513, 600}).Draw(t, "buffered")}}
	}
	return Params{
		Seed:       rapid.Int64Range(1, 1<<40).Draw(t, "seed"),
		SMFs:       rapid.IntRange(2, 4).Draw(t, "smfs"),
		Producers:  rapid.IntRange(2, 8).Draw(t, "producers"),
		RetransMs:  rapid.IntRange(1, 5).Draw(t, "retrans"),
		MaxRetrans: rapid.IntRange(0, 3).Draw(t, "maxretrans"),
		Procs:      rapid.SampledFrom([]int{2, 4, 8, 16}).Draw(t, "procs"),
		StopMode:   rapid.SampledFrom([]string{"quiescent", "inflight"}).Draw(t, "stop"),
		ChaosMs:    rapid.IntRange(20, 150).Draw(t, "chaos"),
		Count:      rapid.IntRange(5, 60).Draw(t, "count"),
		Flood:      rapid.Bool().Draw(t, "flood"),
	}
}

func TestC17(t *testing.T) {
	files, explicit := vcore.ReplayFiles()
	for _, f := range files {
		var p Params
		if err := vcore.LoadReplayCase(f, &p); err != nil {
			t.Fatalf("replay %s: %v", f, err)
		}
		// schedule-dependent: a replay is a handful of runs with the same parameters
		for i := 0; i < 3; i++ {
			r, races, out := child(p)
			account(p, r, races, out)
			vcore.E.Class("replayed")
			if reportAll(t, p, classify(p, r, races, out)) {
				break
			}
		}
	}
	if explicit {
		return
	}
	// stops whose in-flight work the harness arranges: receive queue at, below and beyond its capacity
	for _, qp := range []QParams{{Rcv: 512, ReleaseMs: 20}, {Rcv: 700, Reports: 200, ReleaseMs: 2}, {Rcv: 40, Reports: 129}, {Rcv: 10, Buffered: 513, ReleaseMs: 2}, {Perio: true, ReleaseMs: 0}, {Perio: true, ReleaseMs: 50}, {Tick: 3}, {Tick: 12}} {
		qp := qp
		p := Params{Procs: 4, RetransMs: 2, MaxRetrans: 1, StopMode: "arranged", Queued: &qp}
		r, races, out := child(p)
		account(p, r, races, out)
		reportAll(t, p, classify(p, r, races, out))
	}
	vcore.Check(t, vcore.N(24, 80), func(rt *rapid.T) {
		p := gen(rt)
		r, races, out := child(p)
		account(p, r, races, out)
		reportAll(rt, p, classify(p, r, races, out))
	})
}
