//go:build verif

package c13

import (
	"crypto/sha256"
	"encoding/hex"
	"fmt"
	"sort"
	"testing"
	"time"

	"github.com/wmnsk/go-pfcp/ie"
	"github.com/wmnsk/go-pfcp/message"
	"pgregory.net/rapid"

	"github.com/free5gc/go-upf/internal/verif/fullstack"
	"github.com/free5gc/go-upf/internal/verif/gtpref"
	"github.com/free5gc/go-upf/internal/verif/stack"
	"github.com/free5gc/go-upf/internal/verif/vcore"
)

func TestMain(m *testing.M) {
	vcore.Init("C13", "exploration",
		"full stack (real PfcpServer + real Gtp5g driver + simulated kernel + 3 simulated gNB sockets): sessions with downlink PDRs -> FARs (BUFF, BUFF|NOCP, FORW, DROP) -> outer-header creation towards a gNB, QERs with and without QFI; "+
			"rapid histories of BUFFER notification bursts (1-700 distinct payloads, any PDR, live / unknown / ended SEIDs), Update FAR between all action combinations (sometimes with a new tunnel), Remove PDR, session deletion and re-establishment re-using the SEID. "+
			"Oracle: FIFO model per (session incarnation, PDR) with tail drop at a capacity K that is inferred from the first overflow (then required to stay the same; survivors must be the oldest K in arrival order), checked against the server's queues after every burst; "+
			"at a BUFF->FORW transition the gNB named by the FAR receives exactly the queued payloads, each once, per-PDR in order, as G-PDUs (independent reference decoder) with the FAR's TEID and the QFI of the PDR's first QER carrying one; BUFF->DROP emits nothing and a later FORW emits nothing; "+
			"nothing is emitted for an ended session or under a re-used SEID; a downlink-data Session Report Request (right CP SEID, PDR id) reaches the owner for each notification iff its action has NOCP. "+
			"non-trivial = a burst beyond capacity followed by a release, or a release after SEID re-use, or two successive FORW transitions; distinct by history",
		"notifications carry an action with BUFF and are sent only for PDRs whose FAR currently buffers (what the kernel does); Update FAR keeps FAR ID first",
		"when the same Update FAR carries a new outer-header creation, release towards the old or the new tunnel is accepted",
		"interleaving between different PDRs of one FAR is not asserted; re-creating a PDR id while its queue is non-empty is not generated",
		"notification bursts are written while the event loop is idle - in chunks of <= 100 with the listener drained in between, or (half of the large ones) in one go so that the report queue fills - and the listener is drained before the next request, so that the check stays clear of the loop/listener wedge that C18 hunts for")
	vcore.Main(m)
}

type QERSpec struct {
	ID  uint32 `json:"id"`
	QFI uint8  `json:"qfi"`
}
type FARSpec struct {
	ID     uint32 `json:"id"`
	Action uint16 `json:"action"`
	GNB    int    `json:"gnb"`
	TEID   uint32 `json:"teid"`
}
type PDRSpec struct {
	ID   uint16   `json:"id"`
	FAR  uint32   `json:"far"`
	QERs []uint32 `json:"qers"`
}
type SessSpec struct {
	Node int       `json:"node"`
	CP   uint64    `json:"cp"`
	QERs []QERSpec `json:"qers"`
	FARs []FARSpec `json:"fars"`
	PDRs []PDRSpec `json:"pdrs"`
	// URRs: every PDR measures into a URR of its own (id 100 + PDR id), so that removing a PDR also tears a URR reference down
	URRs bool `json:"urrs,omitempty"`
}
type Ev struct {
	Kind    string    `json:"kind"` // burst updfar rmpdr del est
	Sess    int       `json:"sess"`
	Target  string    `json:"target,omitempty"` // burst: live unknown
	PDR     uint16    `json:"pdr,omitempty"`
	N       int       `json:"n,omitempty"`
	NOCP    bool      `json:"nocp,omitempty"`
	FAR     uint32    `json:"far,omitempty"`
	Action  uint16    `json:"action,omitempty"`
	NewGNB  int       `json:"new_gnb,omitempty"` // 0: unchanged, else gnb index+1
	NewTEID uint32    `json:"new_teid,omitempty"`
	IDLast  bool      `json:"id_last,omitempty"`  // updfar: FAR ID IE after the Apply Action IE
	QERs    []uint32  `json:"qers,omitempty"`     // mkpdr
	WithURR bool      `json:"with_urr,omitempty"` // rmpdr: the same message removes the PDR's URR
	Late    bool      `json:"late,omitempty"`     // burst: notifications that were on their way when the PDR was removed (the kernel had handed the packets up before): they belong to no PDR the session has
	Whole   bool      `json:"whole,omitempty"`    // burst: written in one go (the listener runs ahead of the idle loop and the report queue fills) instead of chunks of 100
	Spec    *SessSpec `json:"spec,omitempty"`
}
type Case struct {
	Sess []SessSpec `json:"sess"`
	Evs  []Ev       `json:"evs"`
	// Perm != 0: the child IEs of every Create / Update IE are sent in another order derived from it
	Perm uint32 `json:"perm,omitempty"`
	// Silent: node 1 names itself by an IPv6 address; the UPF (IPv4 only) cannot address a report request to it, so it is
	// never told about downlink data - its packets are held and released like anybody's all the same
	Silent bool `json:"silent,omitempty"`
}

const (
	DROP = 1
	FORW = 2
	BUFF = 4
	NOCP = 8
)

type mfar struct {
	action uint16
	gnb    int
	teid   uint32
}
type mpdr struct {
	far     uint32
	qers    []uint32
	removed bool
	urrGone bool // the URR the PDR measured into has been removed
}
type msess struct {
	spec   SessSpec
	ref    int
	up     uint64
	alive  bool
	fars   map[uint32]*mfar
	pdrs   map[uint16]*mpdr
	qfi    map[uint32]uint8
	q      map[uint16][]string
	reused bool
	owner  int // the node whose socket the session's reports go to and whose requests address it (changes with a takeover)
}

type stats struct {
	overflowThenRelease, releaseAfterReuse, twoForw bool
	recreated                                       bool
	createdAgain                                    bool // a Create PDR for a PDR that exists (refused), with the session going on
	gaveUp                                          bool // a downlink data notification abandoned after its last retransmission, packets held
	silent                                          bool // packets handed up for a session whose SMF cannot be sent a report request
	takeover                                        bool // a session taken over by the other SMF, with notifications afterwards
	late                                            bool // notifications delivered after the removal of their PDR
	rmWithURR                                       bool // a PDR and its URR removed by one message
	lateSeid0                                       bool // a notification answered with SEID 0 after its session had ended
	released, notified                              int
}

func hash(p string) string {
	h := sha256.Sum256([]byte(p))
	return hex.EncodeToString(h[:6])
}

func run(c Case) (v *vcore.Violation, stt stats) {
	vcore.Journal(c)
	fo := fullstack.FullOpts{Nodes: 2, Gtpu: true}
	if c.Silent {
		fo.NodeIDs = map[int]string{1: "2001:db8::b"}
	}
	f, err := fullstack.NewFull(fo)
	if err != nil {
		panic("infrastructure: " + err.Error())
	}
	type keptSRR struct {
		srr stack.SRR
		of  *msess
	}
	var kept []keptSRR // downlink data notifications the SMFs have not answered
	var gnbs []*stack.Sock
	for g := 0; g < 3; g++ {
		s, err := stack.NewSock(f.S.Net.IP(10+g), 2152)
		if err != nil {
			panic("infrastructure: " + err.Error())
		}
		gnbs = append(gnbs, s)
	}
	defer func() {
		for _, g := range gnbs {
			g.Conn.Close()
		}
		if v != nil && (v.Key == "stuck" || v.Key == "mcast-not-consumed") {
			// the event loop is blocked for good: such a server cannot be torn down, and nothing else can run beside it
			vcore.ReportWedged(v, c)
		}
		if cerr := f.Close(); cerr != nil && v == nil {
			v = vcore.Violatef("stop-hang", "%v", cerr)
		}
		if f.S.Dead != nil && v == nil {
			v = vcore.Violatef(f.S.Dead.Key, "UPF fatal exit: %.600s", f.S.Dead.Msg)
		}
	}()
	r := f.R
	dead := func(o *stack.Obs, what string) *vcore.Violation {
		if o.Dead != nil {
			return vcore.Violatef(o.Dead.Key, "%s: UPF fatal exit: %.500s", what, o.Dead.Msg)
		}
		if o.Stuck {
			return vcore.Violatef("stuck", "%s: no heartbeat answer", what)
		}
		return nil
	}
	for n := 0; n < 2; n++ {
		if x := dead(r.Step(stack.Op{Kind: "assoc", Peer: n, Node: n, Sess: -1}), "assoc"); x != nil {
			return x, stt
		}
	}
	var ms []*msess
	usedUP := map[uint64]bool{}
	establish := func(sp SessSpec, what string) *vcore.Violation {
		var rules []stack.RuleOp
		m := &msess{spec: sp, owner: sp.Node, alive: true, fars: map[uint32]*mfar{}, pdrs: map[uint16]*mpdr{}, qfi: map[uint32]uint8{}, q: map[uint16][]string{}}
		for _, q := range sp.QERs {
			rules = append(rules, stack.RuleOp{Verb: "create", Kind: "QER", ID: q.ID, QFI: q.QFI})
			m.qfi[q.ID] = q.QFI
		}
		for _, fa := range sp.FARs {
			rules = append(rules, stack.RuleOp{Verb: "create", Kind: "FAR", ID: fa.ID, Action: fa.Action, HasAction: true,
				OHC: &stack.OHC{TEID: fa.TEID, Peer: f.S.Net.IP(10 + fa.GNB)}})
			m.fars[fa.ID] = &mfar{fa.Action, fa.GNB, fa.TEID}
		}
		// QER and FAR children in another order; the Create PDRs keep theirs (the order of their QER IDs carries meaning)
		rules = stack.Permute(rules, c.Perm)
		for _, p := range sp.PDRs {
			if sp.URRs {
				rules = append(rules, stack.RuleOp{Verb: "create", Kind: "URR", ID: 100 + uint32(p.ID), Method: 2, Trig: 2})
			}
		}
		for _, p := range sp.PDRs {
			var urrs []uint32
			if sp.URRs {
				urrs = []uint32{100 + uint32(p.ID)}
			}
			rules = append(rules, stack.RuleOp{Verb: "create", Kind: "PDR", ID: uint32(p.ID), Prec: 1, SrcIf: 1, UEIP: "10.60.0.1", FAR: p.FAR, QERs: p.QERs, URRs: urrs})
			m.pdrs[p.ID] = &mpdr{far: p.FAR, qers: p.QERs}
		}
		o := r.Step(stack.Op{Kind: "est", Peer: sp.Node, Node: sp.Node, Sess: -1, CP: sp.CP, Rules: rules})
		if x := dead(o, what); x != nil {
			return x
		}
		if o.NewSess < 0 || !r.Sess[o.NewSess].Known {
			return vcore.Violatef("est-failed", "%s: establishment not accepted", what)
		}
		m.ref, m.up = o.NewSess, r.Sess[o.NewSess].UP
		if usedUP[m.up] {
			m.reused = true
		}
		usedUP[m.up] = true
		ms = append(ms, m)
		return nil
	}
	for i, sp := range c.Sess {
		if x := establish(sp, fmt.Sprintf("prefix establishment %d", i)); x != nil {
			return x, stt
		}
	}
	K := -1
	overflowed := map[*msess]bool{}
	forwCount := map[*msess]int{}
	drainGNBs := func() map[int][]stack.Datagram {
		out := map[int][]stack.Datagram{}
		for g, s := range gnbs {
			if ds := s.Drain(); len(ds) > 0 {
				out[g] = ds
			}
		}
		return out
	}
	collect := func(what string) (*stack.Obs, *vcore.Violation) {
		o := &stack.Obs{Rx: map[int][]stack.Datagram{}, Msgs: map[int][]message.Message{}, NewSess: -1}
		r.Collect(o)
		return o, dead(o, what)
	}

	// queuesMatch compares every packet queue of every live session with the model (the state the previous event left):
	// nothing may linger that should have been released or discarded, whichever PDR of a shared FAR it was queued for
	queuesMatch := func(when string) *vcore.Violation {
		snap := f.S.Srv.VerifSnapshot()
		for si, m := range ms {
			if !m.alive {
				continue
			}
			vs, ok := snap.Sess[m.up]
			if !ok {
				continue
			}
			ids := map[uint16]bool{}
			for id := range vs.Queues {
				ids[id] = true
			}
			for id := range m.q {
				ids[id] = true
			}
			for id := range ids {
				if p := m.pdrs[id]; p == nil || p.removed {
					// what becomes of a removed PDR's packets is not stated (only that they are never emitted
					// under another PDR or session); its queue is not compared
					continue
				}
				held, model := vs.Queues[id], m.q[id]
				if K >= 0 && len(model) > K {
					model = model[:K]
				}
				if len(held) != len(model) {
					return vcore.Violatef("queue-stale", "%s: session #%d PDR %d holds %d buffered packets, %d should be there", when, si, id, len(held), len(model))
				}
				for j := range held {
					if held[j] != hash(model[j]) {
						return vcore.Violatef("queue-stale", "%s: session #%d PDR %d position %d holds a packet that should not be there", when, si, id, j)
					}
				}
			}
		}
		return nil
	}
	for i, ev := range c.Evs {
		if x := queuesMatch(fmt.Sprintf("before event %d (%s)", i, ev.Kind)); x != nil {
			return x, stt
		}
		what := fmt.Sprintf("event %d (%s)", i, ev.Kind)
		switch ev.Kind {
		case "burst":
			var m *msess
			seid := uint64(0xdead0000 + uint64(i))
			if ev.Target != "unknown" && ev.Sess < len(ms) {
				m = ms[ev.Sess]
				seid = m.up
				if !m.alive {
					// ended session: its SEID may meanwhile belong to a newer session
					for _, o := range ms {
						if o.alive && o.up == m.up {
							m = o
						}
					}
					if !m.alive {
						m = nil
					}
				}
			}
			if m != nil {
				// the kernel only hands packets up for a PDR whose FAR buffers
				p := m.pdrs[ev.PDR]
				if ev.Late {
					// handed up while the PDR was there, delivered after its removal: nothing the session has can ever release them
					if p == nil || !p.removed {
						continue
					}
					stt.late = true
				} else if p == nil || p.removed || m.fars[p.far] == nil || m.fars[p.far].action&BUFF == 0 {
					continue
				}
			} else if ev.Late {
				continue
			}
			late := ev.Late && m != nil
			action := uint16(BUFF)
			if ev.NOCP {
				action |= NOCP
			}
			wantSRR := 0
			sent := 0
			for sent < ev.N {
				chunk := ev.N - sent
				if chunk > 100 && !ev.Whole {
					chunk = 100
				}
				for j := 0; j < chunk; j++ {
					pl := fmt.Sprintf("pkt/e%d/p%d/%04d/................", i, ev.PDR, sent+j)
					if err := f.D.K.SendBuffer(seid, ev.PDR, action, []byte(pl)); err != nil {
						panic("infrastructure: " + err.Error())
					}
					stt.notified++
					if m != nil && !late {
						if K < 0 || len(m.q[ev.PDR]) < K {
							m.q[ev.PDR] = append(m.q[ev.PDR], pl)
						} else {
							overflowed[m] = true
						}
						if ev.NOCP && !(c.Silent && m.owner == 1) {
							wantSRR++
						}
						if c.Silent && m.owner == 1 {
							stt.silent = true
						}
					}
				}
				sent += chunk
				if !f.D.K.Flush(30 * time.Second) {
					return vcore.Violatef("mcast-not-consumed", "%s: the netlink listener did not consume the BUFFER notifications", what), stt
				}
				if err := f.S.Barrier(); err != nil {
					o, x := collect(what)
					_ = o
					if x != nil {
						return x, stt
					}
					return vcore.Violatef("stuck", "%s: %v", what, err), stt
				}
			}
			o, x := collect(what)
			if x != nil {
				return x, stt
			}
			if g := drainGNBs(); len(g) > 0 {
				return vcore.Violatef("emitted-on-notification", "%s: GTP-U packets were emitted while only buffering was requested", what), stt
			}
			// DLDR requests
			got := 0
			for _, s := range o.SRRs {
				if m != nil {
					kept = append(kept, keptSRR{srr: s, of: m})
				}
				if m == nil {
					return vcore.Violatef("dldr-for-dead-session", "%s: a Session Report Request was sent for SEID %#x which is not a live session", what, seid), stt
				}
				if s.Sock != m.owner || s.SEID != m.spec.CP {
					return vcore.Violatef("dldr-misdirected", "%s: downlink data report went to socket %d with SEID %#x, owner is node %d with CP SEID %#x", what, s.Sock, s.SEID, m.owner, m.spec.CP), stt
				}
				if s.Msg.DownlinkDataReport == nil {
					return vcore.Violatef("dldr-missing-ie", "%s: Session Report Request without Downlink Data Report", what), stt
				}
				pid := uint16(0)
				for _, ch := range stack.Children(s.Msg.DownlinkDataReport) {
					if ch.Type == ie.PDRID {
						pid, _ = ch.PDRID()
					}
				}
				if pid != ev.PDR {
					return vcore.Violatef("dldr-pdr", "%s: downlink data report names PDR %d, notification was for PDR %d", what, pid, ev.PDR), stt
				}
				got++
			}
			if got != wantSRR {
				return vcore.Violatef("dldr-count", "%s: %d downlink data reports for %d notifications with NOCP=%v", what, got, ev.N, ev.NOCP), stt
			}
			for s := range r.Pending {
				r.Pending[s] = nil
			}
			// queue content (what the server does with packets of a PDR it no longer has shows when that id is used again)
			if m != nil && !late {
				snap := f.S.Srv.VerifSnapshot()
				held := snap.Sess[m.up].Queues[ev.PDR]
				model := m.q[ev.PDR]
				if K < 0 && len(held) < len(model) {
					// first overflow: the capacity shows itself
					K = len(held)
					if K < 1 {
						return vcore.Violatef("capacity-zero", "%s: %d packets pushed but the queue holds %d", what, len(model), len(held)), stt
					}
					model = model[:K]
					m.q[ev.PDR] = model
					overflowed[m] = true
				}
				if len(held) != len(model) {
					return vcore.Violatef("queue-length", "%s: queue of PDR %d holds %d packets, model %d (capacity %d)", what, ev.PDR, len(held), len(model), K), stt
				}
				for j := range held {
					if held[j] != hash(model[j]) {
						return vcore.Violatef("queue-order", "%s: queue of PDR %d position %d holds another packet than the %d-th oldest (an older packet was displaced or the order changed)", what, ev.PDR, j, j), stt
					}
				}
			}
		case "updfar":
			if ev.Sess >= len(ms) || !ms[ev.Sess].alive {
				continue
			}
			m := ms[ev.Sess]
			fa := m.fars[ev.FAR]
			if fa == nil {
				continue
			}
			op := stack.RuleOp{Verb: "update", Kind: "FAR", ID: ev.FAR, Action: ev.Action, HasAction: true, IDLast: ev.IDLast}
			old := *fa
			if ev.NewGNB > 0 {
				op.OHC = &stack.OHC{TEID: ev.NewTEID, Peer: f.S.Net.IP(10 + ev.NewGNB - 1)}
			}
			o := r.Step(stack.Op{Kind: "mod", Peer: m.owner, Sess: m.ref, Rules: []stack.RuleOp{op}})
			if x := dead(o, what); x != nil {
				return x, stt
			}
			got := drainGNBs()
			// expectation
			type exp struct {
				pdr uint16
				pl  []string
				qfi uint8
				has bool
			}
			var exps []exp
			if old.action&BUFF != 0 && ev.Action&DROP == 0 && ev.Action&FORW != 0 {
				var ids []int
				for id, p := range m.pdrs {
					if p.far == ev.FAR && !p.removed {
						ids = append(ids, int(id))
					}
				}
				sort.Ints(ids)
				for _, id := range ids {
					p := m.pdrs[uint16(id)]
					e := exp{pdr: uint16(id), pl: m.q[uint16(id)]}
					for _, q := range p.qers {
						if m.qfi[q] != 0 {
							e.qfi, e.has = m.qfi[q], true
							break
						}
					}
					exps = append(exps, e)
					delete(m.q, uint16(id))
				}
				forwCount[m]++
				if forwCount[m] >= 2 {
					stt.twoForw = true
				}
			} else if old.action&BUFF != 0 && ev.Action&DROP != 0 {
				for id, p := range m.pdrs {
					if p.far == ev.FAR && !p.removed {
						delete(m.q, id)
					}
				}
			}
			fa.action = ev.Action
			if ev.NewGNB > 0 {
				fa.gnb, fa.teid = ev.NewGNB-1, ev.NewTEID
			}
			total := 0
			for _, e := range exps {
				total += len(e.pl)
			}
			if total == 0 {
				if len(got) > 0 {
					n := 0
					for _, ds := range got {
						n += len(ds)
					}
					return vcore.Violatef("unexpected-emission", "%s: FAR %d of session #%d went %#x -> %#x but %d GTP-U packets were emitted", what, ev.FAR, ev.Sess, old.action, ev.Action, n), stt
				}
				continue
			}
			// all packets at one gNB: the old tunnel, or the new one if this update carried it
			type tgt struct {
				gnb  int
				teid uint32
			}
			cands := []tgt{{old.gnb, old.teid}}
			if ev.NewGNB > 0 {
				cands = append(cands, tgt{fa.gnb, fa.teid})
			}
			var used *tgt
			for g := range got {
				for k := range cands {
					if cands[k].gnb == g {
						used = &cands[k]
					}
				}
				if used == nil {
					return vcore.Violatef("wrong-tunnel", "%s: packets emitted towards gNB %d, the FAR's peer is gNB %d", what, g, old.gnb), stt
				}
			}
			if len(got) > 1 {
				return vcore.Violatef("wrong-tunnel", "%s: packets emitted towards %d different gNBs", what, len(got)), stt
			}
			if used == nil {
				return vcore.Violatef("not-released", "%s: FAR %d switched from buffering to forwarding but none of the %d buffered packets was emitted", what, ev.FAR, total), stt
			}
			stt.released += total
			if overflowed[m] {
				stt.overflowThenRelease = true
			}
			if m.reused {
				stt.releaseAfterReuse = true
			}
			// per-PDR order, exactly once
			next := map[uint16]int{}
			byPDR := map[uint16]exp{}
			index := map[string]uint16{}
			for _, e := range exps {
				byPDR[e.pdr] = e
				for _, pl := range e.pl {
					index[pl] = e.pdr
				}
			}
			for _, d := range got[used.gnb] {
				p, err := gtpref.Decode(d.B)
				if err != nil {
					return vcore.Violatef("malformed-gpdu", "%s: emitted packet is not a well-formed G-PDU: %v", what, err), stt
				}
				if p.Version != 1 || p.PT != 1 || p.Type != 255 {
					return vcore.Violatef("malformed-gpdu", "%s: version %d PT %d type %d", what, p.Version, p.PT, p.Type), stt
				}
				if p.TEID != used.teid {
					// old and new tunnel may lead to the same gNB: every packet must then use one and the same of them
					switched := false
					for k := range cands {
						if cands[k].gnb == used.gnb && cands[k].teid == p.TEID && next[0xffff] == 0 {
							used, switched = &cands[k], true
						}
					}
					if !switched {
						return vcore.Violatef("wrong-teid", "%s: packet carries TEID %#x, the FAR's tunnel has %#x", what, p.TEID, used.teid), stt
					}
				}
				next[0xffff]++ // packets seen so far (0xffff is no PDR id in use)
				pid, ok := index[string(p.Payload)]
				if !ok {
					return vcore.Violatef("foreign-packet", "%s: emitted payload %q was not buffered for this FAR's PDRs (other session, other PDR, or already released)", what, p.Payload), stt
				}
				e := byPDR[pid]
				if next[pid] >= len(e.pl) || e.pl[next[pid]] != string(p.Payload) {
					return vcore.Violatef("release-order", "%s: PDR %d: packet %q emitted out of order or twice (expected %q)", what, pid, p.Payload, e.pl[min(next[pid], len(e.pl)-1)]), stt
				}
				next[pid]++
				q, has := p.QFI()
				if has != e.has || (has && q != e.qfi) {
					return vcore.Violatef("wrong-qfi", "%s: PDR %d: packet carries QFI %d (present=%v), the PDR's first QER with a QFI has %d (present=%v)", what, pid, q, has, e.qfi, e.has), stt
				}
			}
			for _, e := range exps {
				if next[e.pdr] != len(e.pl) {
					return vcore.Violatef("not-released", "%s: PDR %d: %d of %d buffered packets were emitted", what, e.pdr, next[e.pdr], len(e.pl)), stt
				}
			}
		case "rmpdr":
			if ev.Sess >= len(ms) || !ms[ev.Sess].alive {
				continue
			}
			m := ms[ev.Sess]
			p := m.pdrs[ev.PDR]
			if p == nil || p.removed {
				continue
			}
			rm := []stack.RuleOp{{Verb: "remove", Kind: "PDR", ID: uint32(ev.PDR)}}
			if ev.WithURR && m.spec.URRs && !p.urrGone {
				// one message takes the PDR's URR away as well (the URR goes first: the PDR's last look at it finds nothing)
				rm = []stack.RuleOp{{Verb: "remove", Kind: "URR", ID: 100 + uint32(ev.PDR)}, {Verb: "remove", Kind: "PDR", ID: uint32(ev.PDR)}}
				p.urrGone = true
				stt.rmWithURR = true
			}
			o := r.Step(stack.Op{Kind: "mod", Peer: m.owner, Sess: m.ref, Rules: rm})
			if x := dead(o, what); x != nil {
				return x, stt
			}
			p.removed = true
			delete(m.q, ev.PDR) // its packets must never appear any more
			if g := drainGNBs(); len(g) > 0 {
				return vcore.Violatef("unexpected-emission", "%s: packets emitted on PDR removal", what), stt
			}
		case "mkpdr":
			// a PDR id that was removed is created again: a new PDR, which has nothing buffered yet
			if ev.Sess >= len(ms) || !ms[ev.Sess].alive {
				continue
			}
			m := ms[ev.Sess]
			if p := m.pdrs[ev.PDR]; p != nil && !p.removed {
				// a Create PDR for a PDR the session has: the data plane refuses it and goes on buffering for the installed PDR; what
				// is held for that PDR stays held (the model does not change)
				o := r.Step(stack.Op{Kind: "mod", Peer: m.owner, Sess: m.ref, Rules: []stack.RuleOp{
					{Verb: "create", Kind: "PDR", ID: uint32(ev.PDR), Prec: 1, SrcIf: 1, UEIP: "10.60.0.1", FAR: p.far, QERs: p.qers}}})
				if x := dead(o, what); x != nil {
					return x, stt
				}
				stt.createdAgain = true
				if g := drainGNBs(); len(g) > 0 {
					return vcore.Violatef("unexpected-emission", "%s: packets emitted on a refused PDR creation", what), stt
				}
				continue
			}
			if p := m.pdrs[ev.PDR]; p == nil || !p.removed || m.fars[ev.FAR] == nil {
				continue
			}
			o := r.Step(stack.Op{Kind: "mod", Peer: m.owner, Sess: m.ref, Rules: []stack.RuleOp{
				{Verb: "create", Kind: "PDR", ID: uint32(ev.PDR), Prec: 1, SrcIf: 1, UEIP: "10.60.0.1", FAR: ev.FAR, QERs: ev.QERs}}})
			if x := dead(o, what); x != nil {
				return x, stt
			}
			m.pdrs[ev.PDR] = &mpdr{far: ev.FAR, qers: ev.QERs}
			delete(m.q, ev.PDR)
			stt.recreated = true
			if vs, ok := f.S.Srv.VerifSnapshot().Sess[m.up]; ok && len(vs.Queues[ev.PDR]) > 0 {
				return vcore.Violatef("recreated-pdr-inherits-packets", "%s: PDR %d of session #%d was removed with packets buffered and created again: the new PDR starts with %d packets of the removed one queued, which the next release emits under it", what, ev.PDR, ev.Sess, len(vs.Queues[ev.PDR])), stt
			}
			if g := drainGNBs(); len(g) > 0 {
				return vcore.Violatef("unexpected-emission", "%s: packets emitted on PDR creation", what), stt
			}
		case "giveup":
			// the SMFs answer none of the downlink data notifications outstanding: each request runs out of retransmissions
			// and is abandoned.  What is held stays held - the FAR still buffers, the session and its PDRs are there
			for id := range f.S.Srv.VerifTxTable() {
				for k := 0; k < 8; k++ {
					if _, still := f.S.Srv.VerifTxTable()[id]; !still {
						stt.gaveUp = true
						break
					}
					o := r.Step(stack.Op{Kind: "expire_tx", TrID: id})
					if x := dead(o, what); x != nil {
						return x, stt
					}
					for s := range r.Pending {
						r.Pending[s] = nil
					}
				}
			}
			kept = nil
			if x := queuesMatch(what); x != nil {
				return x, stt
			}
			if g := drainGNBs(); len(g) > 0 {
				return vcore.Violatef("unexpected-emission", "%s: packets emitted when a notification was given up", what), stt
			}
		case "takeover":
			// another SMF of the set takes the session over (a Modification naming its own Node ID): from now on the session's
			// downlink data notifications are raised towards that SMF, and it is that SMF that makes the FAR forward
			if ev.Sess >= len(ms) || !ms[ev.Sess].alive {
				continue
			}
			m := ms[ev.Sess]
			to := 1 - m.owner
			o := r.Step(stack.Op{Kind: "mod", Peer: to, Sess: m.ref, Takeover: true, Node: to})
			if x := dead(o, what); x != nil {
				return x, stt
			}
			// go-upf re-keys the node the session was established under: every session of that association follows
			for _, a := range ms {
				if a.spec.Node == m.spec.Node {
					a.owner = to
				}
			}
			stt.takeover = true
		case "reassoc":
			// the session's node sets its association up again: all of its sessions end, their SEIDs become free for anybody
			if ev.Sess >= len(ms) {
				continue
			}
			node := ms[ev.Sess].spec.Node
			o := r.Step(stack.Op{Kind: "assoc", Peer: node, Node: node, Sess: -1})
			if x := dead(o, what); x != nil {
				return x, stt
			}
			for _, m := range ms {
				if m.alive && m.spec.Node == node {
					m.alive = false
					m.q = map[uint16][]string{}
				}
			}
			if g := drainGNBs(); len(g) > 0 {
				return vcore.Violatef("unexpected-emission", "%s: packets emitted on re-association", what), stt
			}
		case "rsp0":
			// the SMF answers the oldest downlink data notification it has not answered yet with SEID 0 ("I do not know this
			// session"): the UPF lets go of the session the notification was for, if it is still there - and of nothing else,
			// whoever holds that session's SEID by now
			if len(kept) == 0 {
				continue
			}
			k := kept[0]
			kept = kept[1:]
			rsp := message.NewSessionReportResponse(0, 0, 0, k.srr.Seq, 0, ie.NewCause(ie.CauseSessionContextNotFound))
			o := r.SendRaw(k.srr.Sock, stack.Marshal(rsp))
			if x := dead(o, what); x != nil {
				return x, stt
			}
			if k.of.alive {
				k.of.alive = false
				k.of.q = map[uint16][]string{}
			} else {
				stt.lateSeid0 = true
			}
			if g := drainGNBs(); len(g) > 0 {
				return vcore.Violatef("unexpected-emission", "%s: packets emitted on a SEID-0 answer", what), stt
			}
			if x := queuesMatch(what); x != nil {
				return x, stt
			}
		case "del":
			if ev.Sess >= len(ms) || !ms[ev.Sess].alive {
				continue
			}
			m := ms[ev.Sess]
			o := r.Step(stack.Op{Kind: "del", Peer: m.owner, Sess: m.ref})
			if x := dead(o, what); x != nil {
				return x, stt
			}
			m.alive = false
			m.q = map[uint16][]string{}
			if g := drainGNBs(); len(g) > 0 {
				return vcore.Violatef("unexpected-emission", "%s: packets emitted on session deletion", what), stt
			}
		case "est":
			if ev.Spec == nil || len(ms) >= 5 {
				continue
			}
			if x := establish(*ev.Spec, what); x != nil {
				return x, stt
			}
		}
	}
	if x := queuesMatch("after the last event"); x != nil {
		return x, stt
	}
	return nil, stt
}

// ---------------------------------------------------------------- generator

func genSess(t *rapid.T, cp uint64) SessSpec {
	sp := SessSpec{Node: rapid.IntRange(0, 1).Draw(t, "node"), CP: cp, URRs: rapid.Bool().Draw(t, "urrs")}
	sp.QERs = []QERSpec{{ID: 1, QFI: rapid.SampledFrom([]uint8{0, 0, 5, 9, 37, 63}).Draw(t, "qfi1")}, {ID: 2, QFI: rapid.SampledFrom([]uint8{0, 1, 16, 62}).Draw(t, "qfi2")}}
	for id := uint32(1); id <= 2; id++ {
		sp.FARs = append(sp.FARs, FARSpec{ID: id, Action: rapid.SampledFrom([]uint16{BUFF, BUFF, BUFF | NOCP, FORW, DROP}).Draw(t, "action"),
			GNB: rapid.IntRange(0, 2).Draw(t, "gnb"), TEID: rapid.Uint32().Draw(t, "teid")})
	}
	np := rapid.IntRange(1, 3).Draw(t, "npdr")
	for id := uint16(1); id <= uint16(np); id++ {
		var qs []uint32
		switch rapid.IntRange(0, 3).Draw(t, "qers") {
		case 1:
			qs = []uint32{1}
		case 2:
			qs = []uint32{2, 1}
		case 3:
			qs = []uint32{1, 2}
		}
		sp.PDRs = append(sp.PDRs, PDRSpec{ID: id, FAR: uint32(rapid.IntRange(1, 2).Draw(t, "far")), QERs: qs})
	}
	return sp
}

func gen(t *rapid.T) Case {
	var c Case
	ns := rapid.IntRange(1, 2).Draw(t, "nsess")
	for i := 0; i < ns; i++ {
		c.Sess = append(c.Sess, genSess(t, uint64(0x60+i)))
	}
	// scripted cores make the interesting shapes frequent; free-form events follow
	scen := rapid.SampledFrom([]string{"free", "free", "overflow", "twoforw", "reuse", "reuseorphan", "lateseid0", "reassocreuse", "recreate", "recreatelate", "createagain", "refill", "dropshared", "takeover", "giveup"}).Draw(t, "scenario")
	if scen != "free" {
		c.Sess[0].FARs[0].Action = rapid.SampledFrom([]uint16{BUFF, BUFF | NOCP}).Draw(t, "a0")
		c.Sess[0].PDRs[0].FAR = 1
	}
	small := func() Ev {
		return Ev{Kind: "burst", Sess: 0, Target: "live", PDR: 1, N: rapid.IntRange(1, 9).Draw(t, "sn"), NOCP: rapid.Bool().Draw(t, "snocp")}
	}
	forw := Ev{Kind: "updfar", Sess: 0, FAR: 1, Action: FORW}
	switch scen {
	case "giveup":
		c.Sess[0].FARs[0].Action = BUFF | NOCP
		c.Evs = append(c.Evs, small(), Ev{Kind: "burst", Sess: 0, Target: "live", PDR: 1, N: 2, NOCP: true}, Ev{Kind: "giveup"}, small(), forw)
	case "takeover":
		// a notification (with NOCP: the SMF is told), the other SMF takes the session over, more packets arrive: the new
		// owner is told, and it is the new owner that releases all of them.  (No random events behind this one: what
		// re-association and new sessions mean after a takeover is C05's ambiguity, not this property's.)
		c.Sess[0].FARs[0].Action = BUFF | NOCP
		c.Evs = append(c.Evs, Ev{Kind: "burst", Sess: 0, Target: "live", PDR: 1, N: rapid.IntRange(1, 4).Draw(t, "before"), NOCP: true}, Ev{Kind: "takeover", Sess: 0},
			Ev{Kind: "burst", Sess: 0, Target: "live", PDR: 1, N: rapid.IntRange(1, 4).Draw(t, "after"), NOCP: true}, forw)
		return c
	case "overflow":
		c.Evs = append(c.Evs, Ev{Kind: "burst", Sess: 0, Target: "live", PDR: 1, N: rapid.SampledFrom([]int{511, 512, 513, 520, 700}).Draw(t, "big")}, small(), forw)
	case "dropshared":
		// one buffering FAR serves two PDRs, packets wait for both (or only the second), the FAR goes to DROP and later back
		// to buffering and forwarding: nothing buffered before the DROP may come out
		for len(c.Sess[0].PDRs) < 2 {
			c.Sess[0].PDRs = append(c.Sess[0].PDRs, PDRSpec{ID: uint16(len(c.Sess[0].PDRs) + 1), FAR: 1})
		}
		c.Sess[0].PDRs[1].FAR = 1
		b2 := func() Ev {
			return Ev{Kind: "burst", Sess: 0, Target: "live", PDR: 2, N: rapid.IntRange(1, 9).Draw(t, "sn2"), NOCP: rapid.Bool().Draw(t, "snocp2")}
		}
		if rapid.Bool().Draw(t, "both") {
			c.Evs = append(c.Evs, small())
		}
		c.Evs = append(c.Evs, b2(), Ev{Kind: "updfar", Sess: 0, FAR: 1, Action: DROP}, Ev{Kind: "updfar", Sess: 0, FAR: 1, Action: BUFF}, b2(), forw)
	case "reassocreuse":
		// a notified packet for node A's session, A re-associates, the other node gets the freed SEID: its notification is its own
		sp := genSess(t, 0x7e)
		sp.Node = 1 - c.Sess[0].Node
		sp.FARs[0].Action = BUFF | NOCP
		sp.PDRs[0].FAR = 1
		c.Evs = append(c.Evs, Ev{Kind: "burst", Sess: 0, Target: "live", PDR: 1, N: 1, NOCP: true}, Ev{Kind: "reassoc", Sess: 0}, Ev{Kind: "est", Spec: &sp},
			Ev{Kind: "burst", Sess: ns, Target: "live", PDR: 1, N: 2, NOCP: true}, Ev{Kind: "updfar", Sess: ns, FAR: 1, Action: FORW})
	case "recreate":
		// packets buffered for PDR 1, PDR 1 removed (in half of the cases together with its URR) and created again, more packets,
		// release: only the new ones may come out
		c.Evs = append(c.Evs, small(), Ev{Kind: "rmpdr", Sess: 0, PDR: 1, WithURR: rapid.Bool().Draw(t, "rm_with_urr")}, Ev{Kind: "mkpdr", Sess: 0, PDR: 1, FAR: 1}, small(), forw)
	case "createagain":
		// packets buffered for PDR 1, a Create PDR 1 that the data plane refuses, more packets, release: all of them, in order
		c.Evs = append(c.Evs, small(), Ev{Kind: "mkpdr", Sess: 0, PDR: 1, FAR: 1}, small(), forw)
	case "refill":
		// buffer, release, buffer again - many this time: a queue that has been emptied holds as much as a new one
		// (the capacity is not given: it shows itself at the first overflow and must stay what it was)
		c.Evs = append(c.Evs, Ev{Kind: "burst", Sess: 0, Target: "live", PDR: 1, N: rapid.SampledFrom([]int{513, 520}).Draw(t, "refill_first")}, forw, Ev{Kind: "updfar", Sess: 0, FAR: 1, Action: BUFF},
			Ev{Kind: "burst", Sess: 0, Target: "live", PDR: 1, N: rapid.SampledFrom([]int{300, 513, 600}).Draw(t, "refill_n")}, forw)
	case "twoforw":
		c.Evs = append(c.Evs, small(), forw, Ev{Kind: "updfar", Sess: 0, FAR: 1, Action: BUFF}, small(), forw)
	case "reuseorphan":
		// notifications for PDR 1 arrive after PDR 1 has been removed (they were on their way); the session ends, the SEID is
		// issued again, the new session has a PDR 1 of its own - only its own packets may come out
		sp := genSess(t, 0x7d)
		sp.FARs[0].Action = BUFF
		sp.PDRs[0].FAR = 1
		lateN := rapid.IntRange(1, 9).Draw(t, "late_n")
		c.Evs = append(c.Evs, small(), Ev{Kind: "rmpdr", Sess: 0, PDR: 1}, Ev{Kind: "burst", Sess: 0, Target: "live", PDR: 1, N: lateN, Late: true}, Ev{Kind: "del", Sess: 0}, Ev{Kind: "est", Spec: &sp},
			Ev{Kind: "burst", Sess: ns, Target: "live", PDR: 1, N: 2}, Ev{Kind: "updfar", Sess: ns, FAR: 1, Action: FORW})
	case "recreatelate":
		// as "recreate", with notifications for the removed PDR arriving between its removal and the creation of the new one
		c.Evs = append(c.Evs, small(), Ev{Kind: "rmpdr", Sess: 0, PDR: 1}, Ev{Kind: "burst", Sess: 0, Target: "live", PDR: 1, N: rapid.IntRange(1, 9).Draw(t, "late_n"), Late: true},
			Ev{Kind: "mkpdr", Sess: 0, PDR: 1, FAR: 1}, small(), forw)
	case "lateseid0":
		// a notification of session A is still unanswered when A is deleted; the same SMF gets A's SEID back for a new session,
		// which buffers; then the old notification is answered with SEID 0: the new session and its packets stay
		sp := genSess(t, 0x7c)
		sp.Node = c.Sess[0].Node
		sp.FARs[0].Action = BUFF
		sp.PDRs[0].FAR = 1
		c.Evs = append(c.Evs, Ev{Kind: "burst", Sess: 0, Target: "live", PDR: 1, N: 1, NOCP: true}, Ev{Kind: "del", Sess: 0}, Ev{Kind: "est", Spec: &sp},
			Ev{Kind: "burst", Sess: ns, Target: "live", PDR: 1, N: 3}, Ev{Kind: "rsp0"}, Ev{Kind: "updfar", Sess: ns, FAR: 1, Action: FORW})
	case "reuse":
		sp := genSess(t, 0x7f)
		sp.FARs[0].Action = BUFF
		sp.PDRs[0].FAR = 1
		c.Evs = append(c.Evs, small(), Ev{Kind: "del", Sess: 0}, Ev{Kind: "est", Spec: &sp}, Ev{Kind: "burst", Sess: ns, Target: "live", PDR: 1, N: 3}, Ev{Kind: "updfar", Sess: ns, FAR: 1, Action: FORW})
	}
	c.Silent = rapid.IntRange(0, 3).Draw(t, "silent") == 0
	n := rapid.IntRange(2, 14).Draw(t, "nev")
	nsess := ns
	if scen == "reuse" || scen == "reassocreuse" || scen == "reuseorphan" || scen == "lateseid0" {
		nsess++
	}
	for i := 0; i < n; i++ {
		k := rapid.SampledFrom([]string{"burst", "burst", "burst", "burst", "updfar", "updfar", "updfar", "updfar", "rmpdr", "mkpdr", "del", "reassoc", "est", "est", "rsp0", "giveup"}).Draw(t, "kind")
		ev := Ev{Kind: k, Sess: rapid.IntRange(0, nsess-1).Draw(t, "sess")}
		switch k {
		case "burst":
			ev.PDR = uint16(rapid.IntRange(1, 3).Draw(t, "pdr"))
			ev.N = rapid.OneOf(rapid.IntRange(1, 12), rapid.IntRange(1, 12), rapid.SampledFrom([]int{100, 300, 511, 512, 513, 600, 700})).Draw(t, "n")
			ev.NOCP = rapid.Bool().Draw(t, "nocp")
			ev.Target = rapid.SampledFrom([]string{"live", "live", "live", "live", "live", "unknown"}).Draw(t, "target")
			if ev.N > 50 && ev.NOCP {
				ev.NOCP = rapid.IntRange(0, 3).Draw(t, "keepnocp") == 0
			}
			ev.Whole = ev.N > 100 && rapid.Bool().Draw(t, "whole")
			if ev.N <= 12 && rapid.IntRange(0, 5).Draw(t, "late") == 0 {
				ev.Late, ev.NOCP = true, false
			}
		case "updfar":
			ev.FAR = uint32(rapid.IntRange(1, 2).Draw(t, "far"))
			// FORW, DROP and BUFF also together with other legal flags (DUPL; EDRT and DDPN in the second octet): the bits decide, not the word
			ev.Action = rapid.SampledFrom([]uint16{FORW, FORW, FORW, DROP, BUFF, BUFF | NOCP, FORW | 0x10, FORW | 0x0100, DROP | 0x0400}).Draw(t, "action")
			if rapid.IntRange(0, 5).Draw(t, "newohc") == 0 {
				ev.NewGNB = rapid.IntRange(1, 3).Draw(t, "newgnb")
				ev.NewTEID = rapid.Uint32().Draw(t, "newteid")
			}
			if rapid.IntRange(0, 3).Draw(t, "idlast") == 0 {
				ev.IDLast = true
			}
		case "rmpdr":
			ev.PDR = uint16(rapid.IntRange(1, 3).Draw(t, "pdr"))
			ev.WithURR = rapid.IntRange(0, 2).Draw(t, "with_urr") == 0
		case "mkpdr":
			ev.PDR = uint16(rapid.IntRange(1, 3).Draw(t, "pdr"))
			ev.FAR = uint32(rapid.IntRange(1, 2).Draw(t, "far"))
			if rapid.Bool().Draw(t, "withqer") {
				ev.QERs = []uint32{uint32(rapid.IntRange(1, 2).Draw(t, "qer"))}
			}
		case "est":
			sp := genSess(t, uint64(0x70+i))
			ev.Spec = &sp
			nsess++
		}
		c.Evs = append(c.Evs, ev)
	}
	if rapid.IntRange(0, 2).Draw(t, "permute") == 0 {
		c.Perm = rapid.Uint32Range(1, 1<<30).Draw(t, "perm")
	}
	return c
}

func brief(c Case) any {
	var evs []string
	for _, e := range c.Evs {
		switch e.Kind {
		case "burst":
			evs = append(evs, fmt.Sprintf("burst(s%d %s pdr%d n=%d nocp=%v)", e.Sess, e.Target, e.PDR, e.N, e.NOCP))
		case "updfar":
			evs = append(evs, fmt.Sprintf("updfar(s%d far%d action=%#x newgnb=%d)", e.Sess, e.FAR, e.Action, e.NewGNB))
		default:
			evs = append(evs, fmt.Sprintf("%s(s%d pdr%d)", e.Kind, e.Sess, e.PDR))
		}
	}
	return map[string]any{"sessions": c.Sess, "events": evs}
}

func account(c Case, s stats) {
	if s.takeover {
		vcore.E.Class("notifications_after_a_takeover_by_the_other_smf")
	}
	if s.gaveUp {
		vcore.E.Class("notification_given_up_with_packets_held")
	}
	if s.silent {
		vcore.E.Class("packets_for_a_session_whose_smf_cannot_be_notified")
	}
	vcore.E.Eval()
	vcore.E.ClassN("notifications", int64(s.notified))
	vcore.E.ClassN("packets_released", int64(s.released))
	if s.overflowThenRelease {
		vcore.E.Class("overflow_then_release")
	}
	if s.releaseAfterReuse {
		vcore.E.Class("release_after_seid_reuse")
	}
	if s.twoForw {
		vcore.E.Class("two_forw_transitions")
	}
	if s.rmWithURR {
		vcore.E.Class("pdr_and_its_urr_removed_by_one_message")
	}
	if s.lateSeid0 {
		vcore.E.Class("seid0_answer_for_a_notification_of_an_ended_session")
	}
	if s.createdAgain {
		vcore.E.Class("create_pdr_for_a_pdr_that_exists")
	}
	if s.late {
		vcore.E.Class("notifications_delivered_after_the_removal_of_their_pdr")
	}
	if s.overflowThenRelease || s.releaseAfterReuse || s.twoForw {
		vcore.E.NonTrivial(vcore.JSON(c))
		vcore.E.Sample(fmt.Sprintf("ovf%v-reuse%v-two%v", s.overflowThenRelease, s.releaseAfterReuse, s.twoForw), brief(c))
	}
}

func report(t vcore.Failer, c Case, v *vcore.Violation) {
	if v == nil || vcore.IsKnown(v.Key) {
		return
	}
	key := v.Key
	c.Evs = vcore.MinimizeSlice(c.Evs, func(evs []Ev) bool {
		x, _ := run(Case{Sess: c.Sess, Evs: evs})
		return x != nil && x.Key == key
	}, 60)
	if x, _ := run(c); x != nil {
		vcore.Report(t, x, c)
	}
	vcore.Report(t, v, c)
}

func TestC13(t *testing.T) {
	files, explicit := vcore.ReplayFiles()
	for _, f := range files {
		var c Case
		if err := vcore.LoadReplayCase(f, &c); err != nil {
			t.Fatalf("replay %s: %v", f, err)
		}
		v, s := run(c)
		account(c, s)
		vcore.E.Class("replayed")
		report(t, c, v)
	}
	if explicit {
		return
	}
	vcore.Check(t, vcore.N(300, 3000), func(rt *rapid.T) {
		c := gen(rt)
		v, s := run(c)
		account(c, s)
		report(rt, c, v)
	})
}
