//go:build verif

// Package rxwindow checks the retention window of receive transactions with the real timers (shared by C06, C07, C08):
// whatever was received under an (address, sequence number) - answered or not - is forgotten once the window has elapsed,
// so a later request re-using the pair is executed and gets its own answer.
package rxwindow

import (
	"fmt"
	"sync/atomic"
	"time"

	"github.com/wmnsk/go-pfcp/ie"
	"github.com/wmnsk/go-pfcp/message"
	"pgregory.net/rapid"

	"github.com/free5gc/go-upf/internal/report"
	"github.com/free5gc/go-upf/internal/verif/stack"
	"github.com/free5gc/go-upf/internal/verif/vcore"
)

// ---------------------------------------------------------------- (b) the real retention window
//
// The histories above expire receive transactions through the public
// NotifyTransTimeout entry point; the real timers sit an hour ahead and never
// fire.  Here the window is real (20-180 ms): a history of requests - answered
// ones and ones the UPF never answers - is played, the harness waits for more
// than the window, and then every (address, sequence number) used before is
// used again for a Heartbeat Request.  Once the window has elapsed the
// bookkeeping is gone, so each of them must be executed, i.e. answered by a
// Heartbeat Response with that sequence number.  The observation is black box
// (the transaction table is not read while timers fire), and the time bound is
// generous: the heartbeat is repeated every 300 ms for 10 s before the key
// counts as never released.

type Ev struct {
	Kind string `json:"kind"` // hb assoc est estnofseid assocupd assocrel unknown
	Peer int    `json:"peer"`
	Seq  uint32 `json:"seq"`
}

type Case struct {
	RetransMs  int   `json:"retrans_ms"`
	MaxRetrans uint8 `json:"max_retrans"`
	Evs        []Ev  `json:"evs"`
	// Many > 0: after the events, so many further requests (Modification Requests for an unknown session, sequence numbers 1000, 1001, ...) arrive in one burst;
	// BusyMs > 0: the event loop is then busy inside a data-plane call until BusyMs after their windows have ended, so that
	// all their retention timers fire while nobody serves them (the loop's timer queue holds 64 expiries)
	Many   int `json:"many,omitempty"`
	BusyMs int `json:"busy_ms,omitempty"`
	// Sustain: requests with fresh sequence numbers keep arriving for about three windows, so that windows end all the time while
	// the loop is admitting and answering other requests
	Sustain bool `json:"sustain,omitempty"`
}

type Stats struct {
	Unanswered int
	Keys       int
	Sustained  bool // requests kept arriving while windows ended
	Busy       bool // the loop was busy while the retention timers of a burst fired
}

// Run plays the case on a fresh server.
func Run(c Case) (v *vcore.Violation, stt Stats) {
	vcore.Journal(map[string]any{"window": c})
	d := stack.NewModelDriver()
	gate := make(chan struct{})
	entered := make(chan struct{}, 1)
	d.Hook = func(op, kind string, seid uint64, id uint32) {
		if op == "create" && kind == "FAR" && id == 7777 {
			select {
			case entered <- struct{}{}:
			default:
			}
			<-gate
		}
	}
	released := false
	release := func() {
		if !released {
			released = true
			close(gate)
		}
	}
	st, err := stack.New(stack.Opts{Driver: d, Nodes: 2, Extra: 1, Retrans: time.Duration(c.RetransMs) * time.Millisecond, MaxRetrans: c.MaxRetrans})
	if err != nil {
		panic(fmt.Sprintf("infrastructure: %v", err))
	}
	defer func() {
		release()
		if cerr := st.Close(); cerr != nil && v == nil {
			v = vcore.Violatef("stop-hang", "%v", cerr)
		}
		if st.Dead != nil && v == nil {
			v = vcore.Violatef(st.Dead.Key, "UPF fatal exit: %.600s", st.Dead.Msg)
		}
	}()
	r := stack.NewRunner(st, d)
	window := time.Duration(c.RetransMs) * time.Millisecond * time.Duration(c.MaxRetrans+1)
	type k struct {
		peer int
		seq  uint32
	}
	used := map[k]bool{}
	hbKey := map[k]bool{} // keys under which a Heartbeat Request was sent: probed with another type of request afterwards
	var order []k
	cp := uint64(0x500)
	ts := ie.NewRecoveryTimeStamp(time.Unix(1700000000, 0))
	for i, ev := range c.Evs {
		node := ev.Peer
		if node >= 100 {
			node = 0
		}
		var o *stack.Obs
		switch ev.Kind {
		case "hb", "assoc":
			o = r.Step(stack.Op{Kind: ev.Kind, Peer: ev.Peer, Node: node, Sess: -1, Seq: ev.Seq})
		case "est":
			cp++
			o = r.Step(stack.Op{Kind: "est", Peer: ev.Peer, Node: node, Sess: -1, Seq: ev.Seq, CP: cp,
				Rules: []stack.RuleOp{{Verb: "create", Kind: "FAR", ID: 1, Action: 2, HasAction: true}}})
		case "estnofseid":
			cp++
			o = r.Step(stack.Op{Kind: "est", Peer: ev.Peer, Node: node, Sess: -1, Seq: ev.Seq, CP: cp, NoFSEID: true})
		case "assocupd":
			o = r.SendRaw(ev.Peer, stack.Marshal(message.NewAssociationUpdateRequest(ev.Seq, ie.NewNodeID(st.NodeID(node), "", ""))))
		case "assocrel":
			o = r.SendRaw(ev.Peer, stack.Marshal(message.NewAssociationReleaseRequest(ev.Seq, ie.NewNodeID(st.NodeID(node), "", ""))))
		case "unknown":
			o = r.SendRaw(ev.Peer, stack.Marshal(message.NewPFDManagementRequest(ev.Seq)))
		default:
			continue
		}
		if o.Dead != nil {
			return vcore.Violatef(o.Dead.Key, "event %d: UPF fatal exit", i), stt
		}
		if o.Stuck {
			return vcore.Violatef("stuck", "event %d (%s): no heartbeat answer", i, ev.Kind), stt
		}
		if len(o.Rx[ev.Peer]) == 0 {
			stt.Unanswered++
		}
		kk := k{ev.Peer, ev.Seq}
		if o.SentSeq != 0 {
			kk.seq = o.SentSeq
		}
		if !used[kk] {
			used[kk] = true
			order = append(order, kk)
		}
		if ev.Kind == "hb" {
			hbKey[kk] = true
		}
	}
	if c.Many > 0 {
		for i := 0; i < c.Many; i++ {
			kk := k{0, uint32(1000 + i)}
			// Modification Requests for a session that does not exist: answered (cause 'session context not found'), so a
			// transaction that is never released gives itself away by re-sending that answer to the heartbeat sent later
			if err := st.Send(0, stack.Marshal(message.NewSessionModificationRequest(0, 0, 0xfff0, kk.seq, 0))); err != nil {
				panic(err)
			}
			if !used[kk] {
				used[kk] = true
				order = append(order, kk)
			}
			if i%64 == 63 {
				time.Sleep(time.Millisecond)
			}
		}
		if c.BusyMs > 0 {
			// an Establishment whose first data-plane call does not return before every window of the burst has ended
			b, err := r.Build(stack.Op{Kind: "est", Peer: 0, Node: 0, Sess: -1, CP: 0x7777, Rules: []stack.RuleOp{{Verb: "create", Kind: "FAR", ID: 7777, Action: 2, HasAction: true}}}, 0x777777)
			if err != nil {
				panic(err)
			}
			if err := st.Send(0, b); err != nil {
				panic(err)
			}
			select {
			case <-entered:
				stt.Busy = true
				time.Sleep(window + time.Duration(c.BusyMs)*time.Millisecond)
			case <-time.After(3 * time.Second):
				// node 0 is not associated in this history: no busy loop then
			}
			release()
		}
		if err := st.Barrier(); err != nil {
			if e, ok := err.(*stack.ErrDead); ok {
				return vcore.Violatef(e.Info.Key, "burst: UPF fatal exit"), stt
			}
			return vcore.Violatef("stuck", "burst of %d heartbeats: %v", c.Many, err), stt
		}
		for _, sock := range st.AllSocks() {
			st.Sock(sock).Drain()
		}
	}
	if c.Sustain {
		seq := uint32(20000)
		for t1 := time.Now(); time.Since(t1) < 3*window+60*time.Millisecond; {
			for j := 0; j < 48; j++ {
				seq++
				if err := st.Send(int(seq%2), stack.Marshal(message.NewHeartbeatRequest(seq, ts, nil))); err != nil {
					panic(err)
				}
				if j == 0 {
					kk := k{int(seq % 2), seq}
					if !used[kk] && len(order) < 400 {
						used[kk] = true
						order = append(order, kk)
						hbKey[kk] = true
					}
				}
			}
			time.Sleep(500 * time.Microsecond)
			for _, sock := range st.AllSocks() {
				st.Sock(sock).Drain()
			}
		}
		stt.Sustained = true
		if err := st.Barrier(); err != nil {
			if e, ok := err.(*stack.ErrDead); ok {
				return vcore.Violatef(e.Info.Key, "sustained requests: UPF fatal exit: %.400s", e.Info.Msg), stt
			}
			return vcore.Violatef("stuck", "sustained requests: %v", err), stt
		}
		for _, sock := range st.AllSocks() {
			st.Sock(sock).Drain()
		}
	}
	stt.Keys = len(order)
	// more than the window after the last request
	time.Sleep(2*window + 30*time.Millisecond)
	for _, kk := range order {
		hb := stack.Marshal(message.NewHeartbeatRequest(kk.seq, ts, nil))
		wantType := message.MsgTypeHeartbeatResponse
		if hbKey[kk] {
			// a transaction that was never released would re-send its Heartbeat Response, which looks like the answer to a new
			// heartbeat: ask something else under this key
			hb = stack.Marshal(message.NewSessionModificationRequest(0, 0, 0xfff0, kk.seq, 0))
			wantType = message.MsgTypeSessionModificationResponse
		}
		deadline := time.Now().Add(10 * time.Second)
		answered := false
		tries := 0
		for !answered && time.Now().Before(deadline) {
			tries++
			o := r.SendRaw(kk.peer, hb)
			if o.Dead != nil {
				return vcore.Violatef(o.Dead.Key, "heartbeat after the window: UPF fatal exit"), stt
			}
			if o.Stuck {
				return vcore.Violatef("stuck", "heartbeat after the window: the UPF stopped answering"), stt
			}
			for _, m := range o.Msgs[kk.peer] {
				if m.MessageType() == wantType && m.Sequence() == kk.seq {
					answered = true
				}
			}
			if !answered {
				time.Sleep(300 * time.Millisecond)
			}
		}
		if !answered {
			return vcore.Violatef("window-never-elapses", "retention window %v: %d requests with (address %s, sequence %d) over 10 s, sent %v and more after the last earlier request with that key, were all taken for retransmissions (none executed)",
				window, tries, st.Sock(kk.peer).Addr, kk.seq, 2*window+30*time.Millisecond), stt
		}
	}
	// every transaction of the history (and of the probes) has been released by now, whatever the server keeps of released
	// transactions it has: requests that are never answered, each sent twice - the second copy is ignored as the first was
	time.Sleep(2*window + 30*time.Millisecond)
	for j, b := range [][]byte{
		stack.Marshal(message.NewPFDManagementRequest(0x5001)),
		stack.Marshal(message.NewAssociationUpdateRequest(0x5002, ie.NewNodeID(st.NodeID(1), "", ""))),
		stack.Marshal(message.NewAssociationReleaseRequest(0x5003, ie.NewNodeID(st.NodeID(1), "", ""))),
	} {
		for copyNo := 1; copyNo <= 2; copyNo++ {
			o := r.SendRaw(1, b)
			if o.Dead != nil {
				return vcore.Violatef(o.Dead.Key, "never-answered request after the window: UPF fatal exit"), stt
			}
			for sock, ds := range o.Rx {
				if len(ds) != 0 {
					return vcore.Violatef("dup-answered-without-original", "retention window %v, after every earlier transaction had been released: copy %d of never-answered request %d (%x) made the UPF send %d datagram(s) to socket %d, the first %x",
						window, copyNo, j, b, len(ds), sock, ds[0].B), stt
				}
			}
		}
	}
	return nil, stt
}

// Gen draws a window length and 1-8 requests after an association.
func Gen(t *rapid.T) Case {
	c := Case{
		RetransMs:  rapid.SampledFrom([]int{20, 60}).Draw(t, "retrans_ms"),
		MaxRetrans: uint8(rapid.IntRange(0, 2).Draw(t, "max_retrans")),
		Evs:        []Ev{{"assoc", 0, 77}},
	}
	n := rapid.IntRange(1, 8).Draw(t, "n")
	kinds := []string{"hb", "assoc", "est", "est", "estnofseid", "assocupd", "assocrel", "unknown"}
	for i := 0; i < n; i++ {
		c.Evs = append(c.Evs, Ev{
			Kind: rapid.SampledFrom(kinds).Draw(t, "kind"),
			Peer: rapid.SampledFrom([]int{0, 1, 100}).Draw(t, "peer"),
			Seq:  rapid.SampledFrom([]uint32{1, 2, 3, 0, 1<<24 - 1}).Draw(t, "seq"),
		})
	}
	c.Sustain = rapid.IntRange(0, 3).Draw(t, "sustain") == 0
	if rapid.IntRange(0, 5).Draw(t, "burst") == 0 {
		c.Many = rapid.SampledFrom([]int{30, 64, 65, 100, 200}).Draw(t, "many")
		c.BusyMs = rapid.SampledFrom([]int{0, 30, 150, 300}).Draw(t, "busy_ms")
	}
	return c
}

// ---------------------------------------------------------------- an expiry must not outlive its transaction
//
// A retention timer belongs to one transaction.  Here a request is answered, its duplicate re-answered inside the window,
// the window elapses, the same (address, sequence number) is used for a new request - and a duplicate of that new request
// is sent after the moment a second, stray timer of the first transaction would fire (first duplicate + window) but well
// inside the new transaction's own window.  It must be re-answered with the new request's response, octet for octet,
// without being executed.

type StaleCase struct {
	RetransMs  int    `json:"retrans_ms"`
	MaxRetrans uint8  `json:"max_retrans"`
	DupPct     int    `json:"dup_pct"` // when the first duplicate is sent, in % of the window after the first copy
	Peer       int    `json:"peer"`
	Seq        uint32 `json:"seq"`
}

// RunStale returns a violation, or skipped != "" when the machine was too slow for the schedule to mean anything.
func RunStale(c StaleCase) (v *vcore.Violation, skipped string) {
	d := stack.NewModelDriver()
	st, err := stack.New(stack.Opts{Driver: d, Nodes: 2, Extra: 1, Retrans: time.Duration(c.RetransMs) * time.Millisecond, MaxRetrans: c.MaxRetrans})
	if err != nil {
		panic(fmt.Sprintf("infrastructure: %v", err))
	}
	defer func() {
		if cerr := st.Close(); cerr != nil && v == nil {
			v = vcore.Violatef("stop-hang", "%v", cerr)
		}
		if st.Dead != nil && v == nil {
			v = vcore.Violatef(st.Dead.Key, "UPF fatal exit: %.600s", st.Dead.Msg)
		}
	}()
	r := stack.NewRunner(st, d)
	w := time.Duration(c.RetransMs) * time.Millisecond * time.Duration(c.MaxRetrans+1)
	node := c.Peer
	if node >= 100 {
		node = 0
	}
	if o := r.Step(stack.Op{Kind: "assoc", Peer: node, Node: node, Sess: -1, Seq: 0x5000}); o.Dead != nil || o.Stuck {
		return vcore.Violatef("prefix", "association failed"), ""
	}
	est := func(cp uint64) []byte {
		b, err := r.Build(stack.Op{Kind: "est", Peer: c.Peer, Node: node, Sess: -1, CP: cp,
			Rules: []stack.RuleOp{{Verb: "create", Kind: "FAR", ID: 1, Action: 2, HasAction: true}}}, c.Seq)
		if err != nil {
			panic(err)
		}
		return b
	}
	answer := func(o *stack.Obs) []byte {
		for _, dg := range o.Rx[c.Peer] {
			if m, err := message.Parse(dg.B); err == nil && m.MessageType() == message.MsgTypeSessionEstablishmentResponse {
				return dg.B
			}
		}
		return nil
	}
	a := est(0xa1)
	t0 := time.Now()
	o := r.SendRaw(c.Peer, a)
	ra := answer(o)
	if o.Dead != nil || ra == nil {
		return vcore.Violatef("prefix", "first establishment not answered"), ""
	}
	at := func(frac float64) { // sleep until t0 + frac*w
		if dl := time.Until(t0.Add(time.Duration(float64(w) * frac))); dl > 0 {
			time.Sleep(dl)
		}
	}
	dup := float64(c.DupPct) / 100
	at(dup)
	o = r.SendRaw(c.Peer, a)
	if time.Since(t0) > w*8/10 {
		return nil, "first duplicate sent too late"
	}
	if rd := answer(o); rd == nil || string(rd) != string(ra) || len(o.Calls) > 0 {
		return vcore.Violatef("dup-answer-differs", "duplicate inside the window (%v of %v) answered %x, first copy %x, data-plane calls %d", time.Since(t0).Round(time.Millisecond), w, rd, ra, len(o.Calls)), ""
	}
	// the window has elapsed: the key is free for a new request
	at(1.15)
	b := est(0xb2)
	var rb []byte
	var t1 time.Time
	for try := 0; try < 4 && rb == nil; try++ {
		t1 = time.Now()
		o = r.SendRaw(c.Peer, b)
		if x := answer(o); x != nil && string(x) != string(ra) {
			rb = x
		} else {
			time.Sleep(w / 10) // the first transaction's timer is late
		}
	}
	if rb == nil {
		return vcore.Violatef("window-never-elapses", "a new request under (socket %d, sequence %d) %v after the first copy (window %v) is still answered from the old transaction", c.Peer, c.Seq, time.Since(t0).Round(time.Millisecond), w), ""
	}
	d.TakeCalls()
	// after first-duplicate + window (+15 %), and no later than 70 % into the new transaction's window
	at(dup + 1.15)
	if time.Since(t1) > w*7/10 {
		return nil, "schedule slipped: the new transaction is too old for a safe duplicate"
	}
	o = r.SendRaw(c.Peer, b)
	rd := answer(o)
	if rd == nil || string(rd) != string(rb) || len(o.Calls) > 0 {
		return vcore.Violatef("dup-executed-after-stray-expiry", "window %v: request A at 0, its duplicate at %d %%, new request B under the same (socket %d, sequence %d) at %v, duplicate of B %v later: answered %x (B was answered %x), %d data-plane calls - B's transaction was gone although its window had not elapsed",
			w, c.DupPct, c.Peer, c.Seq, t1.Sub(t0).Round(time.Millisecond), time.Since(t1).Round(time.Millisecond), rd, rb, len(o.Calls)), ""
	}
	return nil, ""
}

func GenStale(t *rapid.T) StaleCase {
	return StaleCase{RetransMs: 300, MaxRetrans: 2, DupPct: rapid.SampledFrom([]int{25, 45, 60}).Draw(t, "dup_pct"),
		Peer: rapid.SampledFrom([]int{0, 1, 100}).Draw(t, "peer"), Seq: rapid.SampledFrom([]uint32{1, 7, 1<<24 - 1}).Draw(t, "seq")}
}

// ---------------------------------------------------------------- an answer that could not be sent
//
// The answer to a request is kept for the retention window whether or not the socket took it: when the first transmission of
// a response fails locally (full device queue, filter, route flap - here: the server's socket refuses writes while the request
// is served), the request has been executed all the same, and the peer's retransmission must get that answer - once the socket
// works again - without being executed a second time.

type LostCase struct {
	Kind string `json:"kind"` // est | mod | del | hb
	Dups int    `json:"dups"` // retransmissions after the socket works again (>= 1)
}

// served waits until the loop has served everything that was queued when it is called: the receive queue is empty, and a
// no-op report posted afterwards has been taken (the loop is single-threaded: whatever it was doing before is done by then).
// Served: see served.
func Served(st *stack.Stack) { served(st) }

func served(st *stack.Stack) {
	for t1 := time.Now(); time.Since(t1) < 5*time.Second; {
		if rcv, _, _ := st.Srv.VerifQueues(); rcv == 0 {
			break
		}
		time.Sleep(50 * time.Microsecond)
	}
	time.Sleep(2 * time.Millisecond) // a datagram may still be between the socket and the receive queue
	st.Srv.NotifySessReport(report.SessReport{SEID: 0xdead0002})
	for t1 := time.Now(); time.Since(t1) < 5*time.Second; {
		if rcv, sr, _ := st.Srv.VerifQueues(); sr == 0 && rcv == 0 {
			break
		}
		time.Sleep(50 * time.Microsecond)
	}
	st.Srv.NotifySessReport(report.SessReport{SEID: 0xdead0003})
	for t1 := time.Now(); time.Since(t1) < 5*time.Second; {
		if _, sr, _ := st.Srv.VerifQueues(); sr == 0 {
			break
		}
		time.Sleep(50 * time.Microsecond)
	}
}

// RunLost arranges the scenario (a few attempts: on a busy machine the loop may serve the first copy only after the write
// failure has been switched off again, and then nothing was lost) and checks it.
func RunLost(c LostCase) (v *vcore.Violation) {
	for attempt := 0; attempt < 6; attempt++ {
		var arranged bool
		if v, arranged = runLost(c); v != nil || arranged {
			return v
		}
		NotArranged.Add(1)
	}
	return nil
}

// NotArranged counts attempts in which the answer got through after all.
var NotArranged atomic.Int64

func runLost(c LostCase) (v *vcore.Violation, arranged bool) {
	d := stack.NewModelDriver()
	st, err := stack.New(stack.Opts{Driver: d, Nodes: 1})
	if err != nil {
		panic(fmt.Sprintf("infrastructure: %v", err))
	}
	defer func() {
		st.Srv.VerifFailSends(false)
		if cerr := st.Close(); cerr != nil && v == nil {
			v = vcore.Violatef("stop-hang", "%v", cerr)
		}
		if st.Dead != nil && v == nil {
			v = vcore.Violatef(st.Dead.Key, "UPF fatal exit: %.600s", st.Dead.Msg)
		}
	}()
	r := stack.NewRunner(st, d)
	far := []stack.RuleOp{{Verb: "create", Kind: "FAR", ID: 1, Action: 2, HasAction: true}}
	for _, op := range []stack.Op{{Kind: "assoc", Peer: 0, Node: 0, Sess: -1, Seq: 0x4001}, {Kind: "est", Peer: 0, Node: 0, Sess: -1, CP: 0x41, Seq: 0x4002, Rules: far}} {
		if o := r.Step(op); o.Dead != nil || o.Stuck {
			return vcore.Violatef("prefix", "prefix failed"), true
		}
	}
	var op stack.Op
	var wantType uint8
	switch c.Kind {
	case "est":
		op, wantType = stack.Op{Kind: "est", Peer: 0, Node: 0, Sess: -1, CP: 0x42, Rules: far}, message.MsgTypeSessionEstablishmentResponse
	case "mod":
		op, wantType = stack.Op{Kind: "mod", Peer: 0, Sess: 0, Rules: []stack.RuleOp{{Verb: "create", Kind: "FAR", ID: 2, Action: 2, HasAction: true}}}, message.MsgTypeSessionModificationResponse
	case "del":
		op, wantType = stack.Op{Kind: "del", Peer: 0, Sess: 0}, message.MsgTypeSessionDeletionResponse
	default:
		op, wantType = stack.Op{Kind: "hb", Peer: 0, Sess: -1}, message.MsgTypeHeartbeatResponse
	}
	b, err := r.Build(op, 0x4100)
	if err != nil {
		panic(err)
	}
	d.TakeCalls()
	st.Srv.VerifFailSends(true)
	if err := st.Send(0, b); err != nil {
		panic(err)
	}
	if c.Kind != "hb" {
		// the request reaches the data plane: wait for that before asking whether the loop is done with it
		for t1 := time.Now(); time.Since(t1) < 5*time.Second && d.NCalls() == 0; {
			time.Sleep(50 * time.Microsecond)
		}
	}
	served(st)
	st.Srv.VerifFailSends(false)
	if err := st.Barrier(); err != nil {
		return vcore.Violatef("stuck", "%v", err), true
	}
	first := d.TakeCalls()
	if got := st.Sock(0).Drain(); len(got) != 0 {
		return nil, false // the loop served the request only after the socket worked again: nothing was lost, nothing to check
	}
	if c.Kind != "hb" && len(first) == 0 {
		return vcore.Violatef("first-copy-not-executed", "%s request: no data-plane call although only the sending of its answer failed", c.Kind), true
	}
	var answer []byte
	for i := 0; i < max(c.Dups, 1); i++ {
		o := r.SendRaw(0, b)
		if o.Dead != nil {
			return vcore.Violatef(o.Dead.Key, "retransmission %d: UPF fatal exit", i), true
		}
		if len(o.Calls) != 0 {
			return vcore.Violatef("dup-executed", "retransmission %d of a %s request whose answer could not be sent caused data-plane calls %s", i, c.Kind, vcore.JSON(o.Calls)), true
		}
		got := o.Rx[0]
		if len(got) != 1 {
			return vcore.Violatef("lost-answer-never-sent", "the answer to a %s request could not be sent (the socket refused one write); retransmission %d of the request, sent when the socket worked again, got %d datagram(s): the request was executed (%d data-plane calls) and is never answered",
				c.Kind, i, len(got), len(first)), true
		}
		m, perr := message.Parse(got[0].B)
		if perr != nil || m.MessageType() != wantType || m.Sequence() != 0x4100 {
			return vcore.Violatef("dup-answer-differs", "retransmission %d of the %s request answered %x", i, c.Kind, got[0].B), true
		}
		if answer == nil {
			answer = got[0].B
		} else if string(answer) != string(got[0].B) {
			return vcore.Violatef("dup-answer-differs", "retransmission %d answered %x, the one before %x", i, got[0].B, answer), true
		}
	}
	// the answer the SMF finally got is true: the UPF is in the state it describes
	modAnswer := func(o *stack.Obs) *message.SessionModificationResponse {
		for _, m := range o.Msgs[0] {
			if mr, ok := m.(*message.SessionModificationResponse); ok {
				return mr
			}
		}
		return nil
	}
	upd := func(id uint32) []stack.RuleOp {
		return []stack.RuleOp{{Verb: "update", Kind: "FAR", ID: id, Action: 1, HasAction: true}}
	}
	switch c.Kind {
	case "est":
		m, _ := message.Parse(answer)
		er, ok := m.(*message.SessionEstablishmentResponse)
		if !ok || stack.Cause(er) != 1 || er.UPFSEID == nil {
			return nil, true // not accepted: nothing was promised
		}
		f, ferr := er.UPFSEID.FSEID()
		if ferr != nil {
			return nil, true
		}
		if f.SEID == r.Sess[0].UP || f.SEID == 0 {
			return vcore.Violatef("est-seid-live", "the Establishment Response that reached the SMF through a retransmission issues UP SEID %#x, which the prefix session holds", f.SEID), true
		}
		o := r.Step(stack.Op{Kind: "est", Peer: 0, Node: 0, Sess: -1, CP: 0x43, Rules: far})
		if o.Dead != nil {
			return vcore.Violatef(o.Dead.Key, "establishment after the lost answer: UPF fatal exit"), true
		}
		if o.NewSess >= 0 && r.Sess[o.NewSess].Known && r.Sess[o.NewSess].UP == f.SEID {
			return vcore.Violatef("est-seid-live", "UP SEID %#x was issued by an Establishment Response that could be sent only on retransmission of the request (CP SEID 0x42), and issued again to the next establishment (CP SEID 0x43)", f.SEID), true
		}
		o = r.Step(stack.Op{Kind: "mod", Peer: 0, Sess: -1, Raw: f.SEID, Rules: upd(1)})
		if o.Dead != nil {
			return vcore.Violatef(o.Dead.Key, "modification after the lost answer: UPF fatal exit"), true
		}
		mr := modAnswer(o)
		if mr == nil || stack.Cause(mr) != 1 || mr.SEID() != 0x42 {
			cause, seid := uint8(0), uint64(0)
			if mr != nil {
				cause, seid = stack.Cause(mr), mr.SEID()
			}
			return vcore.Violatef("seid-misresolved", "UP SEID %#x was issued to the session with CP SEID 0x42 (the Establishment Response reached the SMF through a retransmission of the request); a Modification Request addressed to it is answered with cause %d, SEID %#x", f.SEID, cause, seid), true
		}
	case "mod":
		o := r.Step(stack.Op{Kind: "mod", Peer: 0, Sess: 0, Rules: upd(2)})
		if o.Dead != nil {
			return vcore.Violatef(o.Dead.Key, "modification after the lost answer: UPF fatal exit"), true
		}
		seen := false
		for _, cl := range o.Calls {
			if cl.Op == "update" && cl.Kind == "FAR" && cl.ID == 2 && cl.SEID == r.Sess[0].UP {
				seen = true
			}
		}
		if mr := modAnswer(o); mr == nil || stack.Cause(mr) != 1 || !seen {
			return vcore.Violatef("lost-answer-untrue", "the Modification Response that reached the SMF through a retransmission said FAR 2 was created; an Update FAR 2 afterwards is not passed to the data plane (calls %s)", vcore.JSON(o.Calls)), true
		}
	case "del":
		o := r.Step(stack.Op{Kind: "mod", Peer: 0, Sess: 0, Rules: upd(1)})
		if o.Dead != nil {
			return vcore.Violatef(o.Dead.Key, "modification after the lost answer: UPF fatal exit"), true
		}
		if mr := modAnswer(o); (mr != nil && stack.Cause(mr) == 1) || len(o.Calls) != 0 {
			return vcore.Violatef("lost-answer-untrue", "the Deletion Response that reached the SMF through a retransmission said the session was deleted; a Modification Request for it afterwards is accepted or reaches the data plane (calls %s)", vcore.JSON(o.Calls)), true
		}
	}
	return nil, true
}

// LostPart runs the scenario for every kind of request.
func LostPart(t vcore.Failer) {
	for _, k := range []string{"est", "mod", "del", "hb"} {
		c := LostCase{Kind: k, Dups: 2}
		vcore.E.Eval()
		vcore.E.Class("answer_that_could_not_be_sent_then_retransmission")
		vcore.E.NonTrivial(vcore.FP("lost", k))
		vcore.Report(t, RunLost(c), map[string]any{"lost": c})
	}
}
