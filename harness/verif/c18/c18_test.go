//go:build verif

package c18

import (
	"encoding/json"
	"fmt"
	"os"
	"os/exec"
	"regexp"
	"runtime"
	"sort"
	"strings"
	"testing"
	"time"

	"github.com/wmnsk/go-pfcp/ie"
	"github.com/wmnsk/go-pfcp/message"
	"pgregory.net/rapid"

	"github.com/free5gc/go-upf/internal/verif/fullstack"
	"github.com/free5gc/go-upf/internal/verif/rxwindow"
	"github.com/free5gc/go-upf/internal/verif/simkernel"
	"github.com/free5gc/go-upf/internal/verif/stack"
	"github.com/free5gc/go-upf/internal/verif/vcore"
)

func TestMain(m *testing.M) {
	if os.Getenv("VERIF_C18_CHILD") != "" {
		// child mode: run scripts, print results, no evidence
		os.Exit(m.Run())
	}
	vcore.Init("C18", "exploration",
		"full stack (real PfcpServer + real Gtp5g driver + periodic server + netlink listener + simulated kernel) driven by scripts with drawn load parameters: sessions 1..1000, periodic URRs per session 0..4 over 1..3 periods, kernel latency 0..200 us, bursts of 0..600 buffer notifications (spread over the sessions, or all for one session and PDR so that its packet queue of 512 overflows) "+
			"placed before / during / after rule changes, ticks placed before / inside / after a bulk removal (re-association of the node or mass deletion); generator biased towards the capacity products named in the quantifier (timer events posted during one bulk removal around 512, sessions reported per tick around 128, notifications in flight around 128). "+
			"One script in three is a wall-clock schedule with real tickers instead (2..5 sessions over measurement periods of 1..3 s, staggered establishment, deletions at drawn offsets, usage queries of the periodic server slowed to 0..700 ms), built around 'a group's own tick is queued behind the removal of its last URR while another group's query is in progress'. "+
			"One script in eight (and one fixed) is a burst of 64-400 requests whose retention timers all fire while the loop is parked in a data-plane call (package rxwindow; the loop's timer queue holds 64 expiries): every key must be executed again afterwards. A tick placed inside a re-association can have its usage query held in the simulated kernel until the removal has filled the periodic server's queue, and fail as a whole. "+
			"Each script runs in its own subprocess (a wedged UPF cannot be torn down). Oracle: after the script a Heartbeat must be answered; a violation is reported only with a deadlock certificate: after 10 s without answer a goroutine dump is taken and the wait-for graph over the UPF's long-lived goroutines "+
			"(event loop, periodic server, netlink mux/listener, ticker goroutines) is built from the blocked channel operations; a cycle (through the event loop, or among the report producers alone, seen again 2 s later) can never resolve. No cycle = inconclusive (the whole run then exits 2). "+
			"After the script the listener and the periodic server must drain as well (sentinel tick observed in the kernel log within 20 s), else the same analysis runs. "+
			"non-trivial = timer events posted during one bulk removal > 512, or sessions reported by one tick > 128, or notifications in flight > 128, or (real tickers) a deletion landing inside another group's slow query; distinct by script",
		"liveness is attacked through its safety shadow (no reachable wait-for cycle); wedges without such a cycle would be missed",
		"the two cycles recorded as known findings are tolerated only for scripts that really exceed the queue capacities involved; the same cycle below capacity is a violation")
	vcore.Main(m)
}

type Script struct {
	Name      string `json:"name,omitempty"`
	Sessions  int    `json:"sessions"`
	URRs      int    `json:"urrs"`    // periodic URRs per session
	Periods   int    `json:"periods"` // 1..3
	LatencyUs int    `json:"latency_us"`
	Burst     int    `json:"burst"`               // buffer notifications
	BurstAt   string `json:"burst_at"`            // none | mods | bulk | idle
	Tick      string `json:"tick"`                // none | before | inside | after
	Bulk      string `json:"bulk"`                // none | reassoc | massdel
	Mods      int    `json:"mods"`                // rule-changing modifications issued while the burst arrives
	BurstOne  bool   `json:"burst_one,omitempty"` // all buffer notifications for one session and PDR (its packet queue holds 512)
	Silent    bool   `json:"silent,omitempty"`    // the notifications ask for buffering only (BUFF without NOCP): no report request goes out for them
	// RetransMs > 0: real retransmission timers of that length (MaxRetrans 2) and a simulated SMF that answers every
	// Session Report Request at once, so that responses and timer expiries meet in the event loop's queues
	RetransMs int `json:"retrans_ms,omitempty"`
	// TickSlowMs > 0: the usage query of the tick placed inside the bulk removal is held inside the data plane until the removal's
	// timer events have filled the periodic server's queue (the loop then waits for a slot), TickSlowMs at most; QueryErr: that query then fails as a whole
	// (ENOENT, some of its URRs are gone by the time it is evaluated)
	TickSlowMs int  `json:"tick_slow_ms,omitempty"`
	QueryErr   bool `json:"query_err,omitempty"`
	// Watch (real-ticker scripts): after the schedule every session that is still there must go on reporting periodically
	Watch bool `json:"watch,omitempty"`
	// Window, when set, replaces the script by a history of package rxwindow: a burst of requests whose retention timers all fire
	// while the loop is busy (its timer queue holds 64 expiries); every request made afterwards must be answered
	Window *rxwindow.Case `json:"window,omitempty"`
	// AnswerDelayMs: the answering SMF (RetransMs > 0) answers each report request that much later, i.e. after its timer has fired
	AnswerDelayMs int `json:"answer_delay_ms,omitempty"`
	// HoldMs > 0 (with RetransMs and AnswerDelayMs): after the burst's report requests have gone out, the loop is held inside a
	// data-plane call of a Modification for that long - the requests' timers fire meanwhile (its timer queue holds 64), the SMF's
	// answers arrive, and then the call returns
	HoldMs int `json:"hold_ms,omitempty"`
	// Real, when non-empty, replaces the injected ticks by a wall-clock schedule with real tickers (periods of 1..3 s)
	Real []RealEv `json:"real,omitempty"`
}

// RealEv is one timed action of a real-ticker script.
type RealEv struct {
	AtMs   int    `json:"at_ms"`
	Kind   string `json:"kind"`              // est | del | slow
	Sess   int    `json:"sess,omitempty"`    // del: index in establishment order
	Period int    `json:"period,omitempty"`  // est: measurement period in seconds
	SlowMs int    `json:"slow_ms,omitempty"` // slow: latency of the periodic server's usage queries from now on
}

type Result struct {
	OK            bool                   `json:"ok"`
	Cycle         string                 `json:"cycle,omitempty"`
	States        []string               `json:"states,omitempty"`
	Inconclusive  string                 `json:"inconclusive,omitempty"`
	Crash         string                 `json:"crash,omitempty"`
	TimerEvents   int                    `json:"timer_events"`         // events the loop posts to the periodic server in one turn
	Reported      int                    `json:"reported"`             // sessions one tick reports
	InFlight      int                    `json:"in_flight"`            // notifications written while the loop was busy
	Lost          string                 `json:"lost,omitempty"`       // a notification consumed by the listener that never reached its packet queue
	Checked       int                    `json:"checked,omitempty"`    // usage reports that reached the SMF and were compared with what the data plane had measured for their session
	Unanswered    string                 `json:"unanswered,omitempty"` // a request that is never answered although the loop is alive
	TimerExpiries int                    `json:"timer_expiries,omitempty"`
	HeldFull      bool                   `json:"held_full,omitempty"` // the tick's query was inside the data plane while the periodic server's queue filled up
	BusyRemovals  int                    `json:"busy_removals"`       // real-ticker scripts: deletions landing while the periodic server is inside a slow query
	WallMs        int64                  `json:"wall_ms"`
	seen          map[uint64][]time.Time // real-ticker scripts: when usage reports arrived, by CP SEID
	Watched       int                    `json:"watched,omitempty"` // real-ticker scripts: sessions whose periodic reports were awaited after the last event
}

var periodSecs = []uint32{3600, 7200, 10800}

// ---------------------------------------------------------------- wait-for analysis

type gor struct {
	role   string
	state  string
	frames []string
}

var stateRe = regexp.MustCompile(`^goroutine \d+ \[([^\],]+)`)

// firstOwn reports whether the innermost frame outside the Go runtime belongs to the given package.
func firstOwn(frames []string, pkg string) bool {
	for _, f := range frames {
		if strings.HasPrefix(f, "runtime.") {
			continue
		}
		return strings.Contains(f, pkg)
	}
	return false
}

// firstOwnAfterSync is firstOwn that also skips the frames of package sync (a goroutine parked in Mutex.Lock).
func firstOwnAfterSync(frames []string, pkg string) bool {
	for _, f := range frames {
		if strings.HasPrefix(f, "runtime.") || strings.HasPrefix(f, "sync.") || strings.HasPrefix(f, "internal/sync.") {
			continue
		}
		return strings.Contains(f, pkg)
	}
	return false
}

func analyse(dump string) (cycle string, states []string) {
	var gs []gor
	for _, blk := range strings.Split(dump, "\n\n") {
		lines := strings.Split(strings.TrimSpace(blk), "\n")
		if len(lines) < 2 {
			continue
		}
		m := stateRe.FindStringSubmatch(lines[0])
		if m == nil {
			continue
		}
		g := gor{state: m[1]}
		for _, l := range lines[1:] {
			if !strings.HasPrefix(l, "\t") {
				if k := strings.LastIndex(l, "("); k > 0 {
					l = l[:k]
				}
				g.frames = append(g.frames, l)
			}
		}
		has := func(s string) bool {
			for _, f := range g.frames {
				if strings.Contains(f, s) {
					return true
				}
			}
			return false
		}
		switch {
		case has("pfcp.(*PfcpServer).main"):
			g.role = "loop"
		case has("perio.(*Server).Serve"):
			g.role = "perio"
		case has("go-nl.(*Mux).Serve"):
			g.role = "mux"
		case has("perio.(*PERIOGroup).newTicker"):
			g.role = "ticker"
		case has("simkernel.(*Kernel).serve"):
			g.role = "kernel"
		case has("pfcp.(*PfcpServer).NotifyTransTimeout") || has("pfcp.(*TxTransaction)") || has("pfcp.(*RxTransaction)"):
			g.role = "timer" // a transaction timer's callback
		default:
			continue
		}
		gs = append(gs, g)
	}
	edges := map[string]map[string]bool{}
	add := func(a, b string) {
		if edges[a] == nil {
			edges[a] = map[string]bool{}
		}
		edges[a][b] = true
	}
	for _, g := range gs {
		has := func(s string) bool {
			for _, f := range g.frames {
				if strings.Contains(f, s) {
					return true
				}
			}
			return false
		}
		states = append(states, g.role+":"+g.state)
		if strings.Contains(g.state, "nil chan") {
			// a channel operation on a nil channel never completes: this goroutine waits for itself
			add(g.role, g.role)
		}
		if g.role == "loop" && (strings.Contains(g.state, "Mutex") || g.state == "semacquire") && firstOwnAfterSync(g.frames, "/internal/pfcp.") {
			// the loop waits for a lock inside package pfcp; the other parties that take locks of that package while the server
			// runs are the transaction timers' callbacks: if one of them is parked posting its expiry to the loop, it holds on
			// to what the loop waits for (confirmed by a second dump like every cycle)
			for _, o := range gs {
				if o.role == "timer" && (o.state == "chan send" || o.state == "select") {
					add("loop", "timer")
				}
			}
		}
		switch g.state {
		case "chan send", "select":
			// a send (plain, or inside a select whose only other case is the server's done channel) on a queue with a single consumer
			switch {
			case has("pfcp.(*PfcpServer).NotifySessReport") || has("pfcp.(*PfcpServer).NotifyTransTimeout"):
				add(g.role, "loop")
			case has("perio.(*Server).AddPeriodReportTimer") || has("perio.(*Server).DelPeriodReportTimer") || has("perio.(*Server).Close") || has("perio.(*Server).post") ||
				(g.role == "ticker" && g.state == "chan send"):
				add(g.role, "perio")
			case has("perio.(*PERIOGroup).stopTicker"):
				add(g.role, "ticker")
			case g.role == "loop" && g.state == "chan send" && firstOwn(g.frames, "/internal/pfcp."):
				// the event loop is the only consumer of every channel of package pfcp (its three input queues, the sessions'
				// packet queues): parked in a plain send inside that package it waits for itself
				add("loop", "loop")
			}
		case "chan receive":
			if has("go-nl.(*Client).Do") {
				add(g.role, "mux")
			} else if g.role == "ticker" {
				// a ticker goroutine shares channels with the periodic server only (its event queue, its group's stop channel,
				// whatever it handed over inside an event): parked in a plain receive it waits for that server
				add("ticker", "perio")
			}
		case "syscall", "IO wait":
			if g.role == "kernel" && has("kwrite") {
				add("kernel", "mux")
			}
		}
	}
	// the loop parked in the select of its own main function - idle - while somebody is parked posting to one of its queues:
	// a stop-the-world snapshot of a loop that serves all of its queues cannot show that (a full queue would have been a ready
	// case of the select), so the loop has stopped listening to a queue it is the only consumer of: it waits for itself
	for _, g := range gs {
		if g.role == "loop" && g.state == "select" && len(g.frames) > 0 && strings.Contains(g.frames[0], "pfcp.(*PfcpServer).main") {
			for from, to := range edges {
				if from != "loop" && to["loop"] {
					add("loop", "loop")
				}
			}
		}
	}
	sort.Strings(states)
	// cycle through the loop?
	var path []string
	seen := map[string]bool{}
	var dfs func(n string) bool
	dfs = func(n string) bool {
		path = append(path, n)
		if n == "loop" && len(path) > 1 {
			return true
		}
		if seen[n] {
			path = path[:len(path)-1]
			return false
		}
		seen[n] = true
		var next []string
		for m := range edges[n] {
			next = append(next, m)
		}
		sort.Strings(next)
		for _, m := range next {
			if dfs(m) {
				return true
			}
		}
		path = path[:len(path)-1]
		return false
	}
	if dfs("loop") {
		return strings.Join(path, "->"), states
	}
	// a cycle among the report producers alone: reports stop although the loop still answers
	var starts []string
	for n := range edges {
		if n != "loop" {
			starts = append(starts, n)
		}
	}
	sort.Strings(starts)
	for _, st := range starts {
		var p []string
		vis := map[string]bool{}
		var walk func(n string) bool
		walk = func(n string) bool {
			p = append(p, n)
			if n == st && len(p) > 1 {
				return true
			}
			if vis[n] {
				p = p[:len(p)-1]
				return false
			}
			vis[n] = true
			var next []string
			for m := range edges[n] {
				next = append(next, m)
			}
			sort.Strings(next)
			for _, m := range next {
				if walk(m) {
					return true
				}
			}
			p = p[:len(p)-1]
			return false
		}
		if walk(st) {
			return strings.Join(p, "->"), states
		}
	}
	return "", states
}

// ---------------------------------------------------------------- child

func runScript(s Script) (res Result) {
	t0 := time.Now()
	defer func() { res.WallMs = time.Since(t0).Milliseconds() }()
	if s.Window != nil {
		v, st := rxwindow.Run(*s.Window)
		res.TimerExpiries = st.Keys
		if v == nil {
			res.OK = true
		} else if strings.HasPrefix(v.Key, "crash") {
			res.Crash = v.Key
		} else {
			res.Unanswered = v.Key + ": " + v.Msg
		}
		return
	}
	stack.BarrierTimeout = 10 * time.Second
	fo := fullstack.FullOpts{Nodes: 1, Gtpu: false}
	if s.RetransMs > 0 && len(s.Real) == 0 {
		fo.Retrans, fo.MaxRetrans = time.Duration(s.RetransMs)*time.Millisecond, 2
	}
	f, err := fullstack.NewFull(fo)
	if err != nil {
		res.Inconclusive = "infrastructure: " + err.Error()
		return
	}
	f.D.K.Latency = time.Duration(s.LatencyUs) * time.Microsecond
	// what the data plane measures tells sessions and URRs apart: a report that reaches the SMF must carry its own session's values
	f.D.K.UsageFor = func(op string, k simkernel.RuleKey) simkernel.Usage {
		return simkernel.Usage{TotVol: k.SEID<<16 | k.ID, UlVol: 1, DlVol: 2, Start: time.Unix(1700000000, 0), End: time.Unix(1700000100, 0)}
	}
	r := f.R
	wedge := func(what string) bool {
		if f.S.Dead != nil {
			res.Crash = f.S.Dead.Key
			return true
		}
		buf := make([]byte, 1<<24)
		n := runtime.Stack(buf, true)
		cyc, states := analyse(string(buf[:n]))
		res.States = states
		if cyc != "" {
			// the same cycle must still be there two seconds later
			time.Sleep(2 * time.Second)
			n = runtime.Stack(buf, true)
			if again, _ := analyse(string(buf[:n])); again != cyc {
				cyc = ""
			}
		}
		if cyc != "" {
			res.Cycle = cyc
		} else {
			res.Inconclusive = what + ": heartbeat unanswered but no wait-for cycle through the event loop"
		}
		return true
	}
	step := func(op stack.Op, what string) bool {
		o := r.Step(op)
		if o.Dead != nil {
			res.Crash = o.Dead.Key
			return false
		}
		if o.Stuck {
			wedge(what)
			return false
		}
		for _, q := range o.SRRs {
			if len(stack.UsageReports(q.Msg)) > 0 {
				if res.seen == nil {
					res.seen = map[uint64][]time.Time{}
				}
				res.seen[q.SEID] = append(res.seen[q.SEID], time.Now())
			}
		}
		for k := range r.Pending {
			r.Pending[k] = nil
		}
		f.D.K.TakeLog()
		return true
	}
	if !step(stack.Op{Kind: "assoc", Peer: 0, Node: 0, Sess: -1}, "association") {
		return
	}
	if len(s.Real) > 0 {
		if !runReal(s, f, step, &res) {
			return
		}
	}
	// establishment (one at a time, with barrier: set-up must not wedge by itself)
	for i := 0; i < s.Sessions && len(s.Real) == 0; i++ {
		rules := []stack.RuleOp{
			{Verb: "create", Kind: "FAR", ID: 1, Action: 0x0c, HasAction: true, OHC: &stack.OHC{TEID: uint32(i + 1), Peer: "10.0.0.9"}},
			{Verb: "create", Kind: "QER", ID: 1, QFI: 9},
		}
		var urrs []uint32
		for u := 0; u < s.URRs; u++ {
			rules = append(rules, stack.RuleOp{Verb: "create", Kind: "URR", ID: uint32(u + 1), Method: 2, Trig: 0x03, Period: periodSecs[(i+u)%max(s.Periods, 1)]})
			urrs = append(urrs, uint32(u+1))
		}
		rules = append(rules, stack.RuleOp{Verb: "create", Kind: "PDR", ID: 1, Prec: 1, SrcIf: 1, UEIP: "10.60.0.1", FAR: 1, QERs: []uint32{1}, URRs: urrs})
		if !step(stack.Op{Kind: "est", Peer: 0, Node: 0, Sess: -1, CP: uint64(0x1000 + i), Rules: rules}, fmt.Sprintf("establishment %d", i)) {
			return
		}
	}
	if err := f.PerioBarrier(); err != nil {
		wedge("periodic server after set-up")
		return
	}
	// the capacity products of this script
	perPeriod := 0
	if s.URRs > 0 {
		// sessions having a URR with period 0
		for i := 0; i < s.Sessions; i++ {
			for u := 0; u < s.URRs; u++ {
				if (i+u)%max(s.Periods, 1) == 0 {
					perPeriod++
					break
				}
			}
		}
	}
	if s.Tick != "none" {
		res.Reported = perPeriod
	}
	if s.Bulk != "none" {
		// timer events the loop posts while the periodic server may be stuck delivering a tick: all of them in one
		// loop turn for a re-association, spread over back-to-back deletion requests for a mass deletion (the loop
		// does not wait for the periodic server in between, so they pile up in its queue just the same)
		res.TimerEvents = s.Sessions * s.URRs
	}
	tick := func() { f.D.G.VerifPerio().VerifTick(time.Duration(periodSecs[0]) * time.Second) }
	sentTo := map[uint64]int{} // buffer notifications written per session (all for PDR 1)
	burst := func(n int) {
		for i := 0; i < n; i++ {
			seid := r.Sess[i%len(r.Sess)].UP
			if s.BurstOne {
				seid = r.Sess[0].UP
			}
			action := uint16(0x0c)
			if s.Silent {
				action = 0x04
			}
			_ = f.D.K.SendBuffer(seid, 1, action, []byte(fmt.Sprintf("pkt-%d", i)))
			sentTo[seid]++
		}
	}
	send := func(op stack.Op) {
		seq := uint32(0x400000 + time.Now().Nanosecond()%0x3fffff)
		b, err := r.Build(op, seq)
		if err == nil {
			_ = f.S.Send(op.Peer, b)
		}
	}
	if len(r.Sess) == 0 {
		res.OK = true
		return
	}
	if len(s.Real) > 0 {
		s.Tick, s.Bulk, s.BurstAt = "none", "none", "none"
	}
	if fo.Retrans > 0 {
		// the SMF: answers every Session Report Request as soon as it arrives (the script itself does not read this socket any more)
		go func() {
			sock := f.S.Sock(0)
			buf := make([]byte, 65536)
			answered := 0
			for {
				_ = sock.Conn.SetReadDeadline(time.Now().Add(50 * time.Millisecond))
				n, _, err := sock.Conn.ReadFromUDP(buf)
				if err != nil {
					continue
				}
				m, err := message.Parse(append([]byte(nil), buf[:n]...))
				if err != nil {
					continue
				}
				if q, ok := m.(*message.SessionReportRequest); ok {
					rsp := stack.Marshal(message.NewSessionReportResponse(0, 0, 1, q.Sequence(), 0, ie.NewCause(ie.CauseRequestAccepted)))
					if s.AnswerDelayMs > 0 {
						delay := time.Duration(s.AnswerDelayMs) * time.Millisecond
						if s.HoldMs > 0 {
							// the requests sent last are answered first: their expiries are the ones still waiting for room in the loop's timer queue
							answered++
							delay += time.Duration(max(0, 150-answered)) * 100 * time.Microsecond
						}
						time.AfterFunc(delay, func() { _ = sock.SendTo(rsp, f.S.UPF) })
					} else {
						_ = sock.SendTo(rsp, f.S.UPF)
					}
				}
			}
		}()
	}
	// ---- the script proper: no barrier between the pieces, they overlap inside the UPF
	if s.Tick == "before" {
		tick()
	}
	if s.BurstAt == "mods" && s.Burst > 0 {
		// rule changes (netlink calls inside the loop) while notifications pour in
		res.InFlight = s.Burst
		for m := 0; m < s.Mods; m++ {
			send(stack.Op{Kind: "mod", Peer: 0, Sess: m % len(r.Sess), Rules: []stack.RuleOp{
				{Verb: "update", Kind: "QER", ID: 1, QFI: uint8(1 + m%60)}, {Verb: "create", Kind: "QER", ID: uint32(10 + m), QFI: 3},
				{Verb: "update", Kind: "FAR", ID: 1, Action: 0x0c, HasAction: true}}})
			if m == 0 {
				burst(s.Burst)
			}
		}
	}
	if s.BurstAt == "idle" && s.Burst > 0 {
		// "idle" only at the moment of writing: whatever the script does next overlaps with the listener delivering them
		res.InFlight = s.Burst
		burst(s.Burst)
	}
	if s.HoldMs > 0 {
		// the burst's report requests are out (listener drained, loop idle again); now the loop disappears into the data plane
		f.D.K.Flush(10 * time.Second)
		_ = f.S.Barrier()
		f.D.K.MainHold.Store(true)
		send(stack.Op{Kind: "mod", Peer: 0, Sess: 0, Rules: []stack.RuleOp{{Verb: "create", Kind: "QER", ID: 77, QFI: 3}}})
		for i := 0; i < 50000 && f.D.K.MainHeld.Load() == 0; i++ {
			time.Sleep(100 * time.Microsecond)
		}
		time.Sleep(time.Duration(s.HoldMs) * time.Millisecond)
		_, _, res.TimerExpiries = f.S.Srv.VerifQueues()
		f.D.K.MainHold.Store(false)
	}
	switch s.Bulk {
	case "reassoc":
		if s.Tick == "inside" {
			if s.TickSlowMs > 0 {
				f.D.K.PsHold.Store(true)
			}
			f.D.K.MultiErrIfMissing.Store(s.QueryErr)
			tick()
			if s.TickSlowMs > 0 {
				// the tick's usage query is inside the data plane now
				for i := 0; i < 50000 && f.D.K.PsHeld.Load() == 0; i++ {
					time.Sleep(100 * time.Microsecond)
				}
			}
			// let the periodic server get as far as posting reports
			time.Sleep(time.Duration(200+s.LatencyUs*4) * time.Microsecond)
		}
		if s.BurstAt == "bulk" && s.Burst > 0 {
			res.InFlight = s.Burst
			burst(s.Burst)
		}
		send(stack.Op{Kind: "assoc", Peer: 0, Node: 0, Sess: -1})
	case "massdel":
		if s.Tick == "inside" {
			tick()
		}
		if s.BurstAt == "bulk" && s.Burst > 0 {
			res.InFlight = s.Burst
			burst(s.Burst)
		}
		for i := range r.Sess {
			send(stack.Op{Kind: "del", Peer: 0, Sess: i})
		}
	}
	if s.Tick == "after" {
		tick()
	}
	// ---- liveness
	if s.TickSlowMs > 0 {
		// the query returns once the removal has filled the periodic server's queue (the loop then waits for a slot), or after TickSlowMs
		ps := f.D.G.VerifPerio()
		for t1 := time.Now(); time.Since(t1) < time.Duration(s.TickSlowMs)*time.Millisecond && ps.VerifQueueLen() < ps.VerifQueueCap(); {
			time.Sleep(200 * time.Microsecond)
		}
		if ps.VerifQueueLen() >= ps.VerifQueueCap() {
			time.Sleep(2 * time.Millisecond) // the loop is on its way into the next post
			res.HeldFull = true
		}
		f.D.K.PsHold.Store(false)
	}
	err = f.S.Barrier()
	f.D.K.MultiErrIfMissing.Store(false)
	switch e := err.(type) {
	case nil:
		res.OK = true
	case *stack.ErrDead:
		res.Crash = e.Info.Key
	case *stack.ErrStuck:
		wedge("script")
	default:
		res.Inconclusive = err.Error()
	}
	if res.OK {
		// every report eventually forwarded: the listener and the periodic server drain, then one more barrier
		if !f.D.K.Flush(20 * time.Second) {
			res.OK = false
			wedge("drain")
			return
		}
		if err := f.PerioBarrier(); err != nil {
			res.OK = false
			wedge("periodic server")
			return
		}
		if err := f.S.Barrier(); err != nil {
			res.OK = false
			if _, stuck := err.(*stack.ErrStuck); stuck {
				wedge("final")
			} else {
				res.Inconclusive = err.Error()
			}
			return
		}
		// every report forwarded - as the report it was: the usage reports that reached the SMF for a session carry that session's
		// own measurements (datagrams lost in a socket buffer are not counted, only what arrived is looked at)
		if fo.Retrans == 0 && len(s.Real) == 0 {
			ob := &stack.Obs{Rx: map[int][]stack.Datagram{}, Msgs: map[int][]message.Message{}, NewSess: -1}
			r.Collect(ob)
			upOf := map[uint64]uint64{}
			for _, ss := range r.Sess {
				upOf[ss.CP] = ss.UP
			}
			for _, q := range ob.SRRs {
				up, known := upOf[q.SEID]
				for _, d := range stack.UsageDetails(q.Msg) {
					if !known || d.Vol == nil {
						continue
					}
					if want := up<<16 | uint64(d.URR); d.Vol.TotalVolume != want {
						res.OK = false
						res.Lost = fmt.Sprintf("a usage report for URR %d reached the SMF under CP SEID %#x (session %#x) with total volume %#x: that is what the data plane measured for session %#x, URR %d", d.URR, q.SEID, up, d.Vol.TotalVolume, d.Vol.TotalVolume>>16, d.Vol.TotalVolume&0xffff)
						return
					}
					res.Checked++
				}
			}
			for k := range r.Pending {
				r.Pending[k] = nil
			}
		}
		// every report eventually forwarded: each notification written for a session that is still there has been queued
		// for its PDR (up to the queue's capacity of 512)
		if s.Bulk == "none" && len(s.Real) == 0 {
			snap := f.S.Srv.VerifSnapshot()
			for seid, n := range sentTo {
				if vs, ok := snap.Sess[seid]; ok {
					if have := len(vs.Queues[1]); have != min(n, 512) {
						res.OK = false
						res.Lost = fmt.Sprintf("%d buffer notifications were written for session %#x (PDR 1) and consumed by the listener, its packet queue holds %d (capacity 512)", n, seid, have)
						return
					}
				}
			}
		}
		_ = f.Close()
	}
	return
}

// runReal plays a wall-clock schedule: sessions with one periodic URR each (real tickers), deletions and changes of the
// usage-query latency at the given offsets.  Requests go through step (answer + barrier), so a loop that stops answering
// is noticed at once; the periodic server is checked by the common liveness part afterwards.
func runReal(s Script, f *fullstack.Full, step func(stack.Op, string) bool, res *Result) bool {
	t0 := time.Now()
	nest := 0
	defer f.D.K.PsLatency.Store(0)
	f.D.K.MultiErrIfMissing.Store(s.QueryErr)
	defer f.D.K.MultiErrIfMissing.Store(false)
	period := map[int]int{}
	gone := map[int]bool{}
	for _, ev := range s.Real {
		if d := time.Until(t0.Add(time.Duration(ev.AtMs) * time.Millisecond)); d > 0 {
			time.Sleep(d)
		}
		switch ev.Kind {
		case "est":
			rules := []stack.RuleOp{
				{Verb: "create", Kind: "FAR", ID: 1, Action: 0x0c, HasAction: true, OHC: &stack.OHC{TEID: uint32(nest + 1), Peer: "10.0.0.9"}},
				{Verb: "create", Kind: "QER", ID: 1, QFI: 9},
				{Verb: "create", Kind: "URR", ID: 1, Method: 2, Trig: 0x03, Period: uint32(max(ev.Period, 1))},
				{Verb: "create", Kind: "PDR", ID: 1, Prec: 1, SrcIf: 1, UEIP: "10.60.0.1", FAR: 1, QERs: []uint32{1}, URRs: []uint32{1}},
			}
			if !step(stack.Op{Kind: "est", Peer: 0, Node: 0, Sess: -1, CP: uint64(0x1000 + nest), Rules: rules}, fmt.Sprintf("establishment %d", nest)) {
				return false
			}
			period[nest] = max(ev.Period, 1)
			nest++
		case "del":
			if ev.Sess < nest {
				if !step(stack.Op{Kind: "del", Peer: 0, Sess: ev.Sess}, fmt.Sprintf("deletion of %d", ev.Sess)) {
					return false
				}
				gone[ev.Sess] = true
			}
		case "slow":
			f.D.K.PsLatency.Store(int64(time.Duration(ev.SlowMs) * time.Millisecond))
		}
	}
	res.BusyRemovals = busyRemovals(s)
	if s.Watch {
		// every report eventually forwarded: whatever happened to other sessions' rules and to the ticks that were in progress,
		// a session that is still there goes on reporting - two of its periods (and a margin) are allowed for the next report
		f.D.K.PsLatency.Store(0)
		if !step(stack.Op{Kind: "hb", Peer: 0, Sess: -1}, "end of the schedule") { // what arrived so far is stamped now
			return false
		}
		tEnd := time.Now()
		longest := 0
		for i := 0; i < nest; i++ {
			if !gone[i] && period[i] > longest {
				longest = period[i]
			}
		}
		if longest > 0 {
			time.Sleep(time.Duration(2*longest)*time.Second + 700*time.Millisecond)
			if !step(stack.Op{Kind: "hb", Peer: 0, Sess: -1}, "watching periodic reports") {
				return false
			}
			for i := 0; i < nest; i++ {
				if gone[i] {
					continue
				}
				res.Watched++
				late := 0
				for _, at := range res.seen[uint64(0x1000+i)] {
					if at.After(tEnd) {
						late++
					}
				}
				if late == 0 {
					res.Lost = fmt.Sprintf("session %d (measurement period %d s) is alive, but no periodic usage report of it reached the SMF during the %d s after the last event of the schedule (%d reports before)",
						i, period[i], 2*longest, len(res.seen[uint64(0x1000+i)]))
					return false
				}
			}
		}
	}
	return true
}

// busyRemovals estimates from the schedule how many deletions land while the periodic server is inside a slow usage
// query of another period group (tick times of a group = first registration + k * period).
func busyRemovals(s Script) int {
	first := map[int]int{} // period -> ms of first registration
	var slowFrom []struct{ at, ms int }
	n := 0
	var ests []RealEv
	for _, ev := range s.Real {
		switch ev.Kind {
		case "est":
			if _, ok := first[ev.Period]; !ok {
				first[ev.Period] = ev.AtMs
			}
			ests = append(ests, ev)
		case "slow":
			slowFrom = append(slowFrom, struct{ at, ms int }{ev.AtMs, ev.SlowMs})
		}
	}
	for _, ev := range s.Real {
		if ev.Kind != "del" || ev.Sess >= len(ests) {
			continue
		}
		ms := 0
		for _, sf := range slowFrom {
			if sf.at <= ev.AtMs {
				ms = sf.ms
			}
		}
		for p, st := range first {
			if p == ests[ev.Sess].Period || ms == 0 {
				continue
			}
			since := ev.AtMs - st
			if since >= p*1000 && since%(p*1000) < ms {
				n++
				break
			}
		}
	}
	return n
}

func TestC18Child(t *testing.T) {
	js := os.Getenv("VERIF_C18_CHILD")
	if js == "" {
		t.Skip("child only")
	}
	var s Script
	if err := json.Unmarshal([]byte(js), &s); err != nil {
		t.Fatal(err)
	}
	res := runScript(s)
	b, _ := json.Marshal(res)
	fmt.Printf("\nC18-RESULT %s\n", b)
	// a wedged UPF cannot be torn down: leave without waiting for it
	os.Stdout.Sync()
	os.Exit(0)
}

// ---------------------------------------------------------------- parent

func child(s Script) Result {
	js, _ := json.Marshal(s)
	cmd := exec.Command(os.Args[0], "-test.run", "^TestC18Child$", "-test.timeout", "300s")
	cmd.Env = append(os.Environ(), "VERIF_C18_CHILD="+string(js), "VERIF_EVIDENCE_OUT=")
	done := make(chan struct{})
	var out []byte
	var err error
	go func() { out, err = cmd.CombinedOutput(); close(done) }()
	select {
	case <-done:
	case <-time.After(320 * time.Second):
		if cmd.Process != nil {
			_ = cmd.Process.Kill()
		}
		<-done
		return Result{Inconclusive: "child exceeded 320 s"}
	}
	for _, l := range strings.Split(string(out), "\n") {
		if strings.HasPrefix(l, "C18-RESULT ") {
			var r Result
			if json.Unmarshal([]byte(strings.TrimPrefix(l, "C18-RESULT ")), &r) == nil {
				return r
			}
		}
	}
	tail := string(out)
	if len(tail) > 1500 {
		tail = tail[len(tail)-1500:]
	}
	return Result{Inconclusive: fmt.Sprintf("child gave no result (%v): %s", err, tail)}
}

const (
	capEvents  = 512 // perio.EVENT_CHANNEL_LEN
	capReports = 128 // pfcp.REPORT_CHANNEL_LEN
)

// classify turns a script result into a violation (or nil).
func classify(s Script, r Result) *vcore.Violation {
	switch {
	case r.OK:
		return nil
	case r.Crash != "":
		return vcore.Violatef(r.Crash, "script %s: UPF fatal exit", vcore.JSON(s))
	case r.Unanswered != "":
		return vcore.Violatef("request-never-answered", "script %s: %s", vcore.JSON(s), r.Unanswered)
	case r.Lost != "":
		return vcore.Violatef("report-lost", "script %s: %s", vcore.JSON(s), r.Lost)
	case r.Cycle != "":
		over := false
		switch r.Cycle {
		case "loop->perio->loop":
			over = r.TimerEvents > capEvents && r.Reported > capReports
		case "loop->mux->loop":
			// the report queue takes the listener's notifications and the periodic server's reports of a tick alike
			over = r.InFlight+r.Reported > capReports
		case "perio->ticker->perio", "ticker->perio->ticker":
			// the unchanged code can only get there with a ticker stuck on a full event queue
			over = r.TimerEvents > capEvents
		}
		key := "wedge:" + r.Cycle
		if over {
			key += ":beyond-queue-capacity"
		} else {
			key += ":within-queue-capacity"
		}
		return vcore.Violatef(key, "script %s wedges the UPF for good: wait-for cycle %s (timer events posted during the bulk removal %d, sessions reported by one tick %d, notifications in flight %d; goroutines: %v)",
			vcore.JSON(s), r.Cycle, r.TimerEvents, r.Reported, r.InFlight, r.States)
	}
	return nil
}

func account(s Script, r Result) {
	vcore.E.Eval()
	switch {
	case r.OK:
		vcore.E.Class("progress")
	case r.Cycle != "":
		vcore.E.Class("wedge:" + r.Cycle)
	case r.Crash != "":
		vcore.E.Class("crash")
	default:
		vcore.E.Class("inconclusive")
		vcore.E.Exclude("inconclusive")
		vcore.E.Note(r.Inconclusive)
	}
	if s.HoldMs > 0 && r.TimerExpiries >= 64 {
		vcore.E.Class("timer_queue_full_while_the_loop_was_held_and_late_answers_waiting")
		vcore.E.NonTrivial(vcore.JSON(s))
	}
	if s.Window != nil && r.TimerExpiries > 64 {
		vcore.E.Class("more_than_64_timer_expiries_while_the_loop_was_busy")
		vcore.E.NonTrivial(vcore.JSON(s))
	}
	if r.Watched > 0 {
		vcore.E.Class("real-tickers:survivors_watched_for_their_next_periodic_report")
	}
	if r.Checked > 0 {
		vcore.E.ClassN("usage_reports_compared_with_their_session's_measurements", int64(r.Checked))
	}
	if r.HeldFull {
		vcore.E.Class("tick_query_in_the_data_plane_while_the_timer_queue_filled_up")
	}
	if len(s.Real) > 0 {
		vcore.E.Class("real-tickers")
		if r.BusyRemovals > 0 {
			vcore.E.Class("real-tickers:removal-during-slow-query")
			vcore.E.NonTrivial(vcore.JSON(s))
			vcore.E.Sample("real-removal-during-slow-query", map[string]any{"script": s, "ok": r.OK, "cycle": r.Cycle, "busy_removals": r.BusyRemovals, "wall_ms": r.WallMs})
		}
	}
	if r.TimerEvents > capEvents || r.Reported > capReports || r.InFlight > capReports {
		vcore.E.NonTrivial(vcore.JSON(s))
		vcore.E.Sample(fmt.Sprintf("ev%v-rep%v-inflight%v", r.TimerEvents > capEvents, r.Reported > capReports, r.InFlight > capReports),
			map[string]any{"script": s, "ok": r.OK, "cycle": r.Cycle, "timer_events": r.TimerEvents, "reported": r.Reported, "in_flight": r.InFlight, "wall_ms": r.WallMs})
	}
}

func fixed() []Script {
	return []Script{
		{Name: "small-everything", Sessions: 20, URRs: 2, Periods: 2, Burst: 50, BurstAt: "mods", Mods: 5, Tick: "inside", Bulk: "reassoc"},
		{Name: "tick-inside-reassoc-below-capacity", Sessions: 100, URRs: 2, Periods: 1, Tick: "inside", Bulk: "reassoc"},
		{Name: "events-over-reports-under", Sessions: 110, URRs: 5, Periods: 1, Tick: "inside", Bulk: "reassoc"},
		{Name: "events-under-reports-over", Sessions: 200, URRs: 2, Periods: 1, Tick: "inside", Bulk: "reassoc"},
		{Name: "burst-below-capacity-during-mods", Sessions: 10, URRs: 0, Periods: 1, Burst: 100, BurstAt: "mods", Mods: 20, LatencyUs: 100, Tick: "none", Bulk: "none"},
		{Name: "slow-failing-tick-inside-reassoc", Sessions: 60, URRs: 10, Periods: 1, Tick: "inside", Bulk: "reassoc", TickSlowMs: 5000, QueryErr: true},
		{Name: "slow-tick-inside-reassoc", Sessions: 110, URRs: 5, Periods: 2, Tick: "inside", Bulk: "reassoc", TickSlowMs: 5000},
		{Name: "150-retention-timers-fire-while-the-loop-is-busy", Window: &rxwindow.Case{RetransMs: 20, MaxRetrans: 1, Evs: []rxwindow.Ev{{Kind: "assoc", Peer: 0, Seq: 77}}, Many: 150, BusyMs: 300}},
		{Name: "massdel-with-tick", Sessions: 200, URRs: 2, Periods: 1, Tick: "inside", Bulk: "massdel"},
		{Name: "burst-idle-600", Sessions: 5, URRs: 1, Periods: 1, Burst: 600, BurstAt: "idle", Tick: "after", Bulk: "none"},
		{Name: "silent-burst-during-mods", Sessions: 4, URRs: 1, Periods: 1, LatencyUs: 200, Burst: 100, BurstAt: "mods", Mods: 30, Tick: "before", Bulk: "none", Silent: true},
		{Name: "responses-meet-expiries", Sessions: 20, URRs: 1, Periods: 1, LatencyUs: 200, Burst: 100, BurstAt: "mods", Mods: 40, Tick: "before", Bulk: "none", RetransMs: 1},
		{Name: "late-answers-meet-blocked-expiries", Sessions: 20, URRs: 1, Periods: 1, Burst: 120, BurstAt: "idle", Tick: "none", Bulk: "none", RetransMs: 40, AnswerDelayMs: 60, HoldMs: 90},
		{Name: "burst-600-for-one-pdr", Sessions: 3, URRs: 0, Periods: 1, Burst: 600, BurstAt: "idle", BurstOne: true, Tick: "none", Bulk: "none"},
		{Name: "real-removal-inside-a-failing-tick-of-a-shared-period", QueryErr: true, Watch: true, Real: []RealEv{{AtMs: 0, Kind: "est", Period: 1}, {AtMs: 50, Kind: "est", Period: 1},
			{AtMs: 400, Kind: "slow", SlowMs: 500}, {AtMs: 1250, Kind: "del", Sess: 0}, {AtMs: 1900, Kind: "slow", SlowMs: 0}}},
		{Name: "real-tick-queued-behind-last-removal", Real: []RealEv{{AtMs: 0, Kind: "est", Period: 1}, {AtMs: 200, Kind: "est", Period: 2}, {AtMs: 900, Kind: "slow", SlowMs: 500},
			{AtMs: 2100, Kind: "del", Sess: 1}, {AtMs: 2800, Kind: "del", Sess: 0}, {AtMs: 3000, Kind: "slow", SlowMs: 0}}},
		// the same, and the period whose stale tick was served after its group had gone is used again: the new session must report
		{Name: "real-period-used-again-after-a-stale-tick", Watch: true, Real: []RealEv{{AtMs: 0, Kind: "est", Period: 1}, {AtMs: 200, Kind: "est", Period: 2}, {AtMs: 900, Kind: "slow", SlowMs: 500},
			{AtMs: 2100, Kind: "del", Sess: 1}, {AtMs: 3000, Kind: "slow", SlowMs: 0}, {AtMs: 3300, Kind: "est", Period: 2}}},
	}
}

// genReal draws a wall-clock schedule of 2..5 sessions over periods of 1..3 s, deletions and a slow-query window.  Half of
// the schedules are built around the shape "group A's query is slow, group B's last URR is removed meanwhile, B's own tick
// arrives right after", with the two offsets drawn freely around the window.
func genReal(t *rapid.T) Script {
	var evs []RealEv
	add := func(e RealEv) { evs = append(evs, e) }
	slow := rapid.SampledFrom([]int{0, 200, 400, 700}).Draw(t, "slow_ms")
	if rapid.Bool().Draw(t, "core") {
		if slow == 0 {
			slow = 400
		}
		offA := rapid.IntRange(0, 3).Draw(t, "offA") * 100
		d1 := rapid.IntRange(1, 8).Draw(t, "d1") * 50  // removal after A's tick
		d2 := rapid.IntRange(1, 10).Draw(t, "d2") * 50 // B's tick after A's tick
		add(RealEv{AtMs: offA, Kind: "est", Period: 1})
		add(RealEv{AtMs: offA + d2, Kind: "est", Period: 2})
		add(RealEv{AtMs: offA + d2 + 100, Kind: "slow", SlowMs: slow})
		add(RealEv{AtMs: offA + 2000 + d1, Kind: "del", Sess: 1})
		if rapid.Bool().Draw(t, "delA") {
			add(RealEv{AtMs: offA + 2000 + 600 + rapid.IntRange(0, 6).Draw(t, "dA")*100, Kind: "del", Sess: 0})
		}
	} else {
		n := rapid.IntRange(2, 5).Draw(t, "n")
		ats := rapid.SliceOfN(rapid.IntRange(0, 16), n, n).Draw(t, "ats")
		sort.Ints(ats)
		for i := 0; i < n; i++ {
			add(RealEv{AtMs: ats[i] * 50, Kind: "est", Period: rapid.IntRange(1, 3).Draw(t, "period")})
		}
		add(RealEv{AtMs: 850, Kind: "slow", SlowMs: slow})
		for i := 0; i < n; i++ {
			if rapid.IntRange(0, 3).Draw(t, "del") != 0 {
				add(RealEv{AtMs: 1000 + rapid.IntRange(0, 50).Draw(t, "delat")*50, Kind: "del", Sess: i})
			}
		}
	}
	sort.SliceStable(evs, func(i, j int) bool { return evs[i].AtMs < evs[j].AtMs })
	return Script{Real: evs, QueryErr: rapid.Bool().Draw(t, "query_err"), Watch: rapid.Bool().Draw(t, "watch")}
}

func gen(t *rapid.T) Script {
	if rapid.IntRange(0, 2).Draw(t, "real") == 0 {
		return genReal(t)
	}
	if rapid.IntRange(0, 7).Draw(t, "window") == 0 {
		return Script{Window: &rxwindow.Case{RetransMs: rapid.SampledFrom([]int{20, 60}).Draw(t, "retrans_ms"), MaxRetrans: uint8(rapid.IntRange(0, 2).Draw(t, "max_retrans")),
			Evs: []rxwindow.Ev{{Kind: "assoc", Peer: 0, Seq: 77}}, Many: rapid.SampledFrom([]int{64, 65, 100, 200, 400}).Draw(t, "many"), BusyMs: rapid.SampledFrom([]int{30, 150, 300}).Draw(t, "busy_ms")}}
	}
	s := Script{
		Sessions:  rapid.OneOf(rapid.IntRange(1, 60), rapid.IntRange(100, 300), rapid.SampledFrom([]int{120, 129, 200, 257, 400})).Draw(t, "sessions"),
		URRs:      rapid.IntRange(0, 4).Draw(t, "urrs"),
		Periods:   rapid.IntRange(1, 3).Draw(t, "periods"),
		LatencyUs: rapid.SampledFrom([]int{0, 0, 20, 100, 200}).Draw(t, "latency"),
		Burst:     rapid.SampledFrom([]int{0, 0, 30, 100, 127, 129, 300, 513, 600}).Draw(t, "burst"),
		BurstOne:  rapid.IntRange(0, 2).Draw(t, "burst_one") == 0,
		Silent:    rapid.IntRange(0, 2).Draw(t, "silent") == 0,
		RetransMs: rapid.SampledFrom([]int{0, 0, 1, 3}).Draw(t, "retrans_ms"),
		BurstAt:   rapid.SampledFrom([]string{"none", "mods", "bulk", "idle"}).Draw(t, "burstat"),
		Tick:      rapid.SampledFrom([]string{"none", "before", "inside", "inside", "after"}).Draw(t, "tick"),
		Bulk:      rapid.SampledFrom([]string{"none", "reassoc", "reassoc", "massdel"}).Draw(t, "bulk"),
		Mods:      rapid.IntRange(1, 40).Draw(t, "mods"),
	}
	if s.Burst == 0 {
		s.BurstAt = "none"
	}
	if s.RetransMs > 0 && rapid.Bool().Draw(t, "late_answers") {
		s.AnswerDelayMs = rapid.SampledFrom([]int{2, 8, 30}).Draw(t, "answer_delay_ms")
		if s.BurstAt == "idle" && s.Burst <= 128 && rapid.Bool().Draw(t, "hold") {
			s.RetransMs, s.AnswerDelayMs, s.HoldMs = 40, 60, 90
		}
	}
	if s.Tick == "inside" && s.Bulk == "reassoc" && rapid.Bool().Draw(t, "slow_tick") {
		s.TickSlowMs = rapid.SampledFrom([]int{20, 200, 3000}).Draw(t, "tick_slow_ms")
		s.QueryErr = rapid.Bool().Draw(t, "query_err")
	}
	return s
}

// unexplained counts scripts after which the UPF stopped answering although no
// wait-for cycle was found: the run is then inconclusive as a whole (exit 2),
// never a violation and never a silent pass.
var unexplained []string

func note(s Script, r Result) {
	if !r.OK && r.Cycle == "" && r.Crash == "" && strings.Contains(r.Inconclusive, "no wait-for cycle") {
		unexplained = append(unexplained, vcore.JSON(s)+": "+strings.Join(r.States, " "))
	}
}

func TestC18(t *testing.T) {
	defer func() {
		if len(unexplained) > 0 && !t.Failed() {
			t.Fatalf("INCONCLUSIVE: %d script(s) left the UPF unresponsive without a wait-for cycle the analysis understands: %v", len(unexplained), unexplained)
		}
	}()
	files, explicit := vcore.ReplayFiles()
	for _, f := range files {
		var s Script
		if err := vcore.LoadReplayCase(f, &s); err != nil {
			t.Fatalf("replay %s: %v", f, err)
		}
		r := child(s)
		account(s, r)
		note(s, r)
		vcore.E.Class("replayed")
		vcore.Report(t, classify(s, r), s)
	}
	if explicit {
		return
	}
	for _, s := range fixed() {
		if vcore.Cfg.Shards > 1 && vcore.Cfg.Shard != 0 {
			break
		}
		r := child(s)
		account(s, r)
		note(s, r)
		vcore.Report(t, classify(s, r), s)
	}
	vcore.Check(t, vcore.N(6, 24), func(rt *rapid.T) {
		s := gen(rt)
		r := child(s)
		account(s, r)
		note(s, r)
		vcore.Report(rt, classify(s, r), s)
	})
	_ = ie.Cause
	_ = message.MsgTypeHeartbeatRequest
}
