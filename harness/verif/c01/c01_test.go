//go:build verif

package c01

import (
	"fmt"
	"sort"
	"strings"
	"testing"

	"github.com/wmnsk/go-pfcp/message"
	"pgregory.net/rapid"

	"github.com/free5gc/go-upf/internal/verif/stack"
	"github.com/free5gc/go-upf/internal/verif/vcore"
)

func TestMain(m *testing.M) {
	vcore.Init("C01", "fault_enumeration",
		"rapid-generated histories (<= 14 messages; Association Setup incl. re-association, Establishment, Modification with Create/Update/Remove/Query of PDR/FAR/QER/URR/BAR over id pools of 2-3, Deletion, "+
			"usage reports answered with SEID 0 or normally, requests to dead SEIDs; one history in four starts with a session holding a FAR, a QER, a URR, a BAR and a PDR with one and the same number, removes one of them, updates the others and ends the session) run against the real PfcpServer with a model data plane; each history is executed fault-free and then once per position of a create/update/query call "+
			"in its data-plane call stream, in both fail-before-apply and fail-after-apply mode (thorough: plus random double/triple fault sets). Invariants after every message: every rule in the data plane belongs to a live session and was "+
			"requested by a not-yet-removed Create IE; update/remove/query only for ids ever requested by the addressed live session; an ended session leaves nothing behind; final clean-up empties the data plane. "+
			"non-trivial = (a fault was injected and a session ended afterwards) or (an update/remove/query of a never-created or already-removed id) or (re-association / SEID-0 end of a session holding >= 1 rule); distinct by (history, fault set)",
		"model data plane has kernel semantics: create of an existing id fails EEXIST, update/remove/query of a missing id fails ENOENT; removes never fail by injection",
		"'rules the session has created' is read as ids ever requested by a Create IE during the session's lifetime (session close queries URRs it has just removed)",
		"nodes associate and send from <node id>:8805; CP SEIDs are distinct per session (collisions are C05's domain)")
	vcore.Main(m)
}

type Case struct {
	Ops    []stack.Op    `json:"ops"`
	Faults []stack.Fault `json:"faults"`
	// FQDN: node 0 names itself by the host name "localhost" (a Node ID may be an FQDN) and lives at 127.0.0.1, where the
	// UPF's own requests to it then go.  That address is one per machine: when another process holds it the case is skipped.
	FQDN bool `json:"fqdn,omitempty"`
}

// ---------------------------------------------------------------- generator

func genHistory(t *rapid.T) []stack.Op {
	g := stack.DefaultGen()
	n := rapid.IntRange(2, 14).Draw(t, "len")
	ops := []stack.Op{{Kind: "assoc", Peer: 0, Node: 0, Sess: -1}}
	nsess := 0
	cp := uint64(0x1000)
	associated := []int{0}
	// one history in three lets the nodes choose equal CP SEIDs (unique per node only)
	sharedCP := rapid.IntRange(0, 2).Draw(t, "sharedcp") == 0
	cpOf := map[int]uint64{}
	var sessNode []int
	// scripted core (one history in four): two nodes, one session each with one and the same CP SEID, and the node whose
	// session comes later in the table lets go of it by a SEID-0 answer - ownership can then only be told by the peer address
	if rapid.IntRange(0, 3).Draw(t, "core") == 0 {
		a, b := 0, 1
		if rapid.Bool().Draw(t, "swap") {
			a, b = 1, 0
		}
		ops = append(ops, stack.Op{Kind: "assoc", Peer: 1, Node: 1, Sess: -1})
		associated = append(associated, 1)
		for _, nd := range []int{a, b} {
			ops = append(ops, stack.Op{Kind: "est", Peer: nd, Node: nd, Sess: -1, CP: 0x3001, Rules: g.GenRules(t, true)})
			sessNode = append(sessNode, nd)
			nsess++
		}
		ops = append(ops, stack.Op{Kind: "report", Sess: 1, URRs: []uint32{1}, Trig: 2}, stack.Op{Kind: "rsp", Peer: -2, Sess: 1, SEID0: true})
	}
	// second scripted core (one history in four): rule ids are small per-type numbers, so a FAR, a QER, a URR, a BAR and a PDR
	// with one and the same number live side by side in a session; one of them is removed (and the others updated), later
	// the session ends - every rule of every type must be withdrawn, none under another type's id
	if rapid.IntRange(0, 3).Draw(t, "core2") == 0 {
		id := uint32(rapid.IntRange(1, 2).Draw(t, "same_id"))
		rules := []stack.RuleOp{
			{Verb: "create", Kind: "FAR", ID: id, Action: 2, HasAction: true}, {Verb: "create", Kind: "QER", ID: id, QFI: 5},
			{Verb: "create", Kind: "URR", ID: id, Method: 2, Trig: 2}, {Verb: "create", Kind: "BAR", ID: id},
			{Verb: "create", Kind: "PDR", ID: id, Prec: 1, FAR: id, QERs: []uint32{id}, URRs: []uint32{id}},
		}
		ops = append(ops, stack.Op{Kind: "est", Peer: 0, Node: 0, Sess: -1, CP: 0x3100, Rules: rules})
		mine := nsess
		sessNode = append(sessNode, 0)
		nsess++
		gone := rapid.SampledFrom([]string{"QER", "FAR", "URR", "BAR", "PDR"}).Draw(t, "removed_kind")
		ops = append(ops, stack.Op{Kind: "mod", Peer: -2, Sess: mine, Rules: []stack.RuleOp{{Verb: "remove", Kind: gone, ID: id}}})
		var upd []stack.RuleOp
		for _, ru := range rules {
			if ru.Kind != gone && ru.Kind != "BAR" && rapid.Bool().Draw(t, "update_other") {
				ru.Verb = "update"
				upd = append(upd, ru)
			}
		}
		if len(upd) > 0 {
			ops = append(ops, stack.Op{Kind: "mod", Peer: -2, Sess: mine, Rules: upd})
		}
		if rapid.Bool().Draw(t, "end_now") {
			ops = append(ops, stack.Op{Kind: "del", Peer: -2, Sess: mine})
		}
	}
	// third scripted core (one history in four): a rule is created, removed, created again and used, then the session ends.  With
	// every single position of the call stream failing in turn, this is "the first creation failed, the removal found nothing,
	// the second creation succeeded": whatever the session remembers from the first round must not make it forget the second
	if rapid.IntRange(0, 3).Draw(t, "core3") == 0 {
		id := uint32(rapid.IntRange(1, 2).Draw(t, "again_id"))
		kind := rapid.SampledFrom([]string{"URR", "URR", "FAR", "QER", "PDR"}).Draw(t, "again_kind")
		mk := func() stack.RuleOp {
			switch kind {
			case "URR":
				return stack.RuleOp{Verb: "create", Kind: "URR", ID: id, Method: 2, Trig: 2}
			case "FAR":
				return stack.RuleOp{Verb: "create", Kind: "FAR", ID: id, Action: 2, HasAction: true}
			case "QER":
				return stack.RuleOp{Verb: "create", Kind: "QER", ID: id, QFI: 7}
			}
			return stack.RuleOp{Verb: "create", Kind: "PDR", ID: id, Prec: 1}
		}
		ops = append(ops, stack.Op{Kind: "est", Peer: 0, Node: 0, Sess: -1, CP: 0x3200, Rules: []stack.RuleOp{mk()}})
		mine := nsess
		sessNode = append(sessNode, 0)
		nsess++
		ops = append(ops, stack.Op{Kind: "mod", Peer: -2, Sess: mine, Rules: []stack.RuleOp{{Verb: "remove", Kind: kind, ID: id}}},
			stack.Op{Kind: "mod", Peer: -2, Sess: mine, Rules: []stack.RuleOp{mk()}})
		use := mk()
		use.Verb = "update"
		if kind == "URR" && rapid.Bool().Draw(t, "query") {
			use = stack.RuleOp{Verb: "query", Kind: "URR", ID: id}
		}
		ops = append(ops, stack.Op{Kind: "mod", Peer: -2, Sess: mine, Rules: []stack.RuleOp{use}})
		if rapid.Bool().Draw(t, "end_now3") {
			ops = append(ops, stack.Op{Kind: "del", Peer: -2, Sess: mine})
		}
	}
	for i := 0; i < n; i++ {
		k := rapid.SampledFrom([]string{"assoc", "est", "est", "est", "mod", "mod", "mod", "mod", "mod", "modnode", "del", "report", "rsp0", "rsp", "moddead"}).Draw(t, "op")
		switch k {
		case "assoc":
			nd := rapid.IntRange(0, 2).Draw(t, "node")
			ops = append(ops, stack.Op{Kind: "assoc", Peer: nd, Node: nd, Sess: -1})
			associated = append(associated, nd)
		case "est":
			nd := rapid.SampledFrom(associated).Draw(t, "node")
			if rapid.IntRange(0, 9).Draw(t, "anynode") == 0 {
				nd = rapid.IntRange(0, 2).Draw(t, "node2")
			}
			cp++
			use := cp
			if sharedCP {
				cpOf[nd]++
				use = 0x2000 + cpOf[nd]
			}
			ops = append(ops, stack.Op{Kind: "est", Peer: nd, Node: nd, Sess: -1, CP: use, Rules: g.GenRules(t, true)})
			sessNode = append(sessNode, nd)
			nsess++
		case "modnode":
			// a Modification that repeats the owning node's own Node ID (legal; nothing changes hands)
			if nsess == 0 {
				continue
			}
			s := rapid.IntRange(0, nsess-1).Draw(t, "sess")
			// Node -3: "the node this session was established under", resolved when the step runs, so that the op keeps
			// its meaning when the minimiser drops earlier establishments
			ops = append(ops, stack.Op{Kind: "mod", Peer: -2, Sess: s, Takeover: true, Node: -3, Rules: g.GenRules(t, false)})
		case "mod":
			if nsess == 0 {
				continue
			}
			s := rapid.IntRange(0, nsess-1).Draw(t, "sess")
			ops = append(ops, stack.Op{Kind: "mod", Peer: -2, Sess: s, Rules: g.GenRules(t, false)})
		case "moddead":
			// raw SEIDs: small values hit released or never issued ids
			raw := uint64(rapid.IntRange(1, 8).Draw(t, "raw"))
			ops = append(ops, stack.Op{Kind: "mod", Peer: 0, Sess: -1, Raw: raw, Rules: g.GenRules(t, false)})
		case "del":
			if nsess == 0 {
				continue
			}
			s := rapid.IntRange(0, nsess-1).Draw(t, "sess")
			ops = append(ops, stack.Op{Kind: "del", Peer: -2, Sess: s})
		case "report", "rsp0", "rsp":
			if nsess == 0 {
				continue
			}
			s := rapid.IntRange(0, nsess-1).Draw(t, "sess")
			ops = append(ops, stack.Op{Kind: "report", Sess: s, URRs: []uint32{uint32(rapid.IntRange(1, g.URRs).Draw(t, "urr"))}, Trig: 2})
			if k != "report" {
				ops = append(ops, stack.Op{Kind: "rsp", Peer: -2, Sess: s, SEID0: k == "rsp0"})
			}
		}
	}
	return ops
}

// ---------------------------------------------------------------- model + oracle

type rk struct {
	kind string
	id   uint32
}

type msess struct {
	up, cp uint64
	node   int
	R, E   map[rk]bool
}

type result struct {
	v               *vcore.Violation
	eligible        int
	endedAfterFault bool
	badID           bool // update/remove/query of an id not currently in R
	bulkEnd         bool // re-association / SEID-0 end of a session holding rules
	ended           int
	afterRemovalOps int
}

func run(c Case) (res result) {
	d := stack.NewModelDriver()
	d.SetFaults(c.Faults)
	opts := stack.Opts{Driver: d}
	if c.FQDN {
		opts.NodeIDs, opts.NodeAddrs = map[int]string{0: "localhost"}, map[int]string{0: "127.0.0.1"}
	}
	st, err := stack.New(opts)
	if err != nil {
		if c.FQDN && strings.Contains(err.Error(), "address already in use") {
			vcore.E.Class("fqdn_case_skipped:127.0.0.1:8805_is_held_by_another_process")
			return res
		}
		panic(fmt.Sprintf("infrastructure: %v", err))
	}
	if c.FQDN {
		vcore.E.Class("node_named_by_a_host_name")
	}
	defer func() {
		if cerr := st.Close(); cerr != nil && res.v == nil {
			res.v = vcore.Violatef("stop-hang", "%v", cerr)
		}
		if st.Dead != nil && res.v == nil {
			res.v = vcore.Violatef(st.Dead.Key, "UPF fatal exit: %.600s", st.Dead.Msg)
		}
	}()
	r := stack.NewRunner(st, d)
	live := map[uint64]*msess{}
	assoc := map[int]bool{}
	faultSeen := false

	checkDP := func(step int, op stack.Op, ended []*msess) *vcore.Violation {
		for _, s := range ended {
			for _, k := range d.Keys() {
				if k.SEID == s.up {
					// is the SEID live again (cannot be: nothing was established in this step)
					return vcore.Violatef("orphan-after-end", "step %d (%s): session %#x ended but the data plane still holds %v", step, op.Kind, s.up, k)
				}
			}
		}
		for _, k := range d.Keys() {
			s, ok := live[k.SEID]
			if !ok {
				return vcore.Violatef("rule-without-session", "step %d (%s): data plane holds %v but no live session has that SEID", step, op.Kind, k)
			}
			if !s.R[rk{k.Kind, k.ID}] {
				return vcore.Violatef("rule-not-requested", "step %d (%s): data plane holds %v which session %#x has not requested (or has removed)", step, op.Kind, k, s.up)
			}
		}
		return nil
	}

	exec := func(step int, op stack.Op) *vcore.Violation {
		// resolve the peer for session-addressed ops: the socket of the owning node
		if op.Peer == -2 {
			op.Peer = 0
			if op.Sess >= 0 && op.Sess < len(r.Sess) {
				op.Peer = r.Sess[op.Sess].Node
			}
		}
		if op.Takeover && op.Node == -3 {
			// the node that owns the session living under the addressed SEID now (the reference may be to an ended session
			// whose SEID has been re-issued to another node's session)
			op.Takeover, op.Node = false, 0
			if seid, ok := r.SEID(op); ok {
				if s := live[seid]; s != nil {
					op.Takeover, op.Node = true, s.node
				}
			}
		}
		// which sessions may this op touch?
		addressed := map[uint64]*msess{}
		switch op.Kind {
		case "mod", "del":
			if seid, ok := r.SEID(op); ok {
				if s := live[seid]; s != nil {
					addressed[seid] = s
				}
			}
		case "assoc":
			for _, s := range live {
				if s.node == op.Node {
					addressed[s.up] = s
				}
			}
		case "rsp":
			p := r.Pending[op.Peer]
			if op.Which < len(p) && op.SEID0 {
				for _, s := range live {
					if s.cp == p[op.Which].SEID && s.node == op.Peer {
						addressed[s.up] = s
					}
				}
			}
		}
		before := d.Eligible()
		o := r.Step(op)
		for _, f := range c.Faults {
			if f.Pos >= before && f.Pos < d.Eligible() {
				faultSeen = true
			}
		}
		if o.Dead != nil {
			return vcore.Violatef(o.Dead.Key, "step %d (%s): UPF fatal exit: %.600s", step, op.Kind, o.Dead.Msg)
		}
		if o.Stuck {
			return vcore.Violatef("stuck", "step %d (%s): no heartbeat answer", step, op.Kind)
		}
		var ended []*msess
		creates := map[rk]bool{}
		var target *msess
		switch op.Kind {
		case "assoc":
			answered := false
			for _, m := range o.Msgs[op.Peer] {
				if _, ok := m.(*message.AssociationSetupResponse); ok {
					answered = true
				}
			}
			if answered {
				assoc[op.Node] = true
				for _, s := range addressed {
					ended = append(ended, s)
				}
			}
		case "est":
			if o.NewSess >= 0 && r.Sess[o.NewSess].Known {
				ref := r.Sess[o.NewSess]
				if _, dup := live[ref.UP]; dup {
					return vcore.Violatef("seid-collision", "step %d: established session got UP SEID %#x of a live session", step, ref.UP)
				}
				target = &msess{up: ref.UP, cp: ref.CP, node: op.Node, R: map[rk]bool{}, E: map[rk]bool{}}
				live[ref.UP] = target
				addressed[ref.UP] = target
			}
		case "mod":
			for _, s := range addressed {
				target = s
			}
		case "del":
			for _, m := range o.Msgs[op.Peer] {
				if dr, ok := m.(*message.SessionDeletionResponse); ok && stack.Cause(dr) == 1 {
					for _, s := range addressed {
						ended = append(ended, s)
					}
				}
			}
		case "rsp":
			for _, s := range addressed {
				ended = append(ended, s)
			}
		}
		if target != nil {
			for _, ru := range op.Rules {
				if ru.Verb == "create" {
					k := rk{ru.Kind, ru.ID}
					creates[k] = true
					target.R[k] = true
					target.E[k] = true
				} else if !target.R[rk{ru.Kind, ru.ID}] {
					res.badID = true
				}
			}
		} else if (op.Kind == "mod" || op.Kind == "est") && len(o.Calls) > 0 {
			return vcore.Violatef("calls-without-session", "step %d (%s): request did not address a live session but caused data-plane calls %s", step, op.Kind, vcore.JSON(o.Calls))
		}
		// invariant 2: calls
		for _, cl := range o.Calls {
			s := addressed[cl.SEID]
			if s == nil {
				return vcore.Violatef("call-foreign-seid", "step %d (%s): data-plane call %s for SEID %#x which the message does not address (addressed: %v)", step, op.Kind, vcore.JSON(cl), cl.SEID, keys(addressed))
			}
			k := rk{cl.Kind, cl.ID}
			switch cl.Op {
			case "create":
				if !creates[k] {
					return vcore.Violatef("create-not-requested", "step %d (%s): create call %s without a Create IE in this message", step, op.Kind, vcore.JSON(cl))
				}
			case "update", "remove", "query":
				if !s.E[k] {
					return vcore.Violatef("op-on-unrequested-rule", "step %d (%s): %s call for %s[%d] which session %#x never created", step, op.Kind, cl.Op, cl.Kind, cl.ID, s.up)
				}
				if !s.R[k] {
					// created once, removed since: the statement asks for "rules the session has created", and the unchanged code
					// itself updates a URR that the same message has just removed (removes are handled before updates) and
					// queries removed URRs while closing a session - counted, not asserted
					res.afterRemovalOps++
				}
				if cl.Op == "remove" && cl.Err == "" {
					delete(s.R, k)
				}
			}
		}
		for _, s := range ended {
			if len(s.R) > 0 && (op.Kind == "assoc" || op.Kind == "rsp") {
				res.bulkEnd = true
			}
			delete(live, s.up)
			res.ended++
			if faultSeen {
				res.endedAfterFault = true
			}
		}
		return checkDP(step, op, ended)
	}

	for i, op := range c.Ops {
		if v := exec(i, op); v != nil {
			res.v = v
			res.eligible = d.Eligible()
			return
		}
	}
	// final clean-up: delete every live session, the data plane must be empty
	var ups []uint64
	for up := range live {
		ups = append(ups, up)
	}
	sort.Slice(ups, func(i, j int) bool { return ups[i] < ups[j] })
	for _, up := range ups {
		op := stack.Op{Kind: "del", Peer: live[up].node, Sess: -1, Raw: up}
		if v := exec(len(c.Ops), op); v != nil {
			res.v = v
			res.eligible = d.Eligible()
			return
		}
	}
	if ks := d.Keys(); len(ks) > 0 {
		res.v = vcore.Violatef("leftover", "all sessions deleted but the data plane still holds %v", ks)
	}
	res.eligible = d.Eligible()
	return
}

func keys(m map[uint64]*msess) []uint64 {
	var out []uint64
	for k := range m {
		out = append(out, k)
	}
	sort.Slice(out, func(i, j int) bool { return out[i] < out[j] })
	return out
}

func account(c Case, res result) {
	vcore.E.Eval()
	if len(c.Faults) > 0 {
		vcore.E.Class("faulted_run")
	} else {
		vcore.E.Class("fault_free_run")
	}
	if res.afterRemovalOps > 0 {
		vcore.E.ClassN("ops_on_removed_but_once_created_ids", int64(res.afterRemovalOps))
	}
	if res.bulkEnd {
		vcore.E.Class("bulk_end_with_rules")
	}
	if res.badID {
		vcore.E.Class("op_on_absent_id")
	}
	if res.endedAfterFault {
		vcore.E.Class("session_ended_after_fault")
	}
	nt := (len(c.Faults) > 0 && res.endedAfterFault) || res.badID || res.bulkEnd
	if nt {
		vcore.E.NonTrivial(vcore.JSON(c))
	}
}

func sampleOf(c Case) any {
	var s []string
	for _, op := range c.Ops {
		x := op.Kind
		if len(op.Rules) > 0 {
			x += "{"
			for i, r := range op.Rules {
				if i > 0 {
					x += " "
				}
				x += fmt.Sprintf("%s-%s%d", r.Verb, r.Kind, r.ID)
			}
			x += "}"
		}
		if op.Kind == "rsp" && op.SEID0 {
			x += "(seid0)"
		}
		s = append(s, x)
	}
	return map[string]any{"history": s, "faults": c.Faults}
}

// minimise shrinks a failing case further (ops, then rules inside ops) while
// the violation key stays the same.
func minimise(c Case, key string) Case {
	fails := func(x Case) bool {
		r := run(x)
		return r.v != nil && r.v.Key == key
	}
	c.Ops = vcore.MinimizeSlice(c.Ops, func(ops []stack.Op) bool { return fails(Case{Ops: ops, Faults: c.Faults}) }, 400)
	for i := range c.Ops {
		if len(c.Ops[i].Rules) == 0 {
			continue
		}
		rules := vcore.MinimizeSlice(c.Ops[i].Rules, func(rs []stack.RuleOp) bool {
			ops := append([]stack.Op(nil), c.Ops...)
			o := ops[i]
			o.Rules = rs
			ops[i] = o
			return fails(Case{Ops: ops, Faults: c.Faults})
		}, 100)
		c.Ops[i].Rules = rules
	}
	return c
}

func report(t vcore.Failer, c Case, v *vcore.Violation) bool {
	if v == nil {
		return false
	}
	if vcore.IsKnown(v.Key) {
		return false
	}
	m := minimise(c, v.Key)
	if r := run(m); r.v != nil && r.v.Key == v.Key {
		return vcore.Report(t, r.v, m)
	}
	return vcore.Report(t, v, c)
}

// explore runs a history fault-free and then under every single fault.
func explore(t vcore.Failer, ops []stack.Op, rt *rapid.T) {
	base := Case{Ops: ops}
	res := run(base)
	account(base, res)
	if report(t, base, res.v) {
		return
	}
	vcore.E.Sample("fault-free", sampleOf(base))
	n := res.eligible
	for pos := 0; pos < n; pos++ {
		for _, mode := range []string{"before", "after"} {
			c := Case{Ops: ops, Faults: []stack.Fault{{Pos: pos, Mode: mode}}}
			r2 := run(c)
			account(c, r2)
			if pos == n/2 {
				vcore.E.Sample("single-fault-"+mode, sampleOf(c))
			}
			if report(t, c, r2.v) {
				return
			}
		}
	}
	if vcore.Thorough() && rt != nil && n >= 2 {
		for i := 0; i < 6; i++ {
			k := rapid.IntRange(2, 3).Draw(rt, "nfaults")
			var fs []stack.Fault
			for j := 0; j < k; j++ {
				fs = append(fs, stack.Fault{Pos: rapid.IntRange(0, n-1).Draw(rt, "pos"), Mode: rapid.SampledFrom([]string{"before", "after"}).Draw(rt, "mode")})
			}
			c := Case{Ops: ops, Faults: fs}
			r2 := run(c)
			account(c, r2)
			vcore.E.Class("multi_fault_run")
			if report(t, c, r2.v) {
				return
			}
		}
	}
}

func TestC01(t *testing.T) {
	files, explicit := vcore.ReplayFiles()
	for _, f := range files {
		var c Case
		if err := vcore.LoadReplayCase(f, &c); err != nil {
			t.Fatalf("replay %s: %v", f, err)
		}
		res := run(c)
		account(c, res)
		vcore.E.Class("replayed")
		report(t, c, res.v)
	}
	if explicit {
		return
	}
	vcore.Check(t, vcore.N(120, 1000), func(rt *rapid.T) {
		ops := genHistory(rt)
		explore(rt, ops, rt)
	})
}
