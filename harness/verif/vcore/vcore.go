//go:build verif

// Package vcore is the part of the verification harness shared by all checks:
// environment (tier, seed, shard), evidence counters, known findings, replay
// files and the glue around pgregory.net/rapid.
package vcore

import (
	"crypto/sha256"
	"encoding/hex"
	"encoding/json"
	"flag"
	"fmt"
	"os"
	"path/filepath"
	"sort"
	"strconv"
	"strings"
	"sync"
	"testing"
	"time"

	"pgregory.net/rapid"
)

// Env is what the driver (/verif/check) passes to a test binary.
type Env struct {
	ID         string
	Tier       string // quick | thorough
	Seed       uint64 // already remapped: never 0
	RawSeed    int64  // VERIF_SEED as given
	Shard      int
	Shards     int
	Evidence   string // where to write this process's evidence shard
	ReplayOut  string // where a failing case is written
	ReplayFile string // if set: replay exactly this file and nothing else
	ReplayDir  string // saved replays that are run first (regression tier)
	KnownPath  string // known_findings.json
	Scale      float64
}

var (
	E   *Evidence
	Cfg Env
)

func envInt(k string, d int64) int64 {
	v := os.Getenv(k)
	if v == "" {
		return d
	}
	n, err := strconv.ParseInt(v, 0, 64)
	if err != nil {
		return d
	}
	return n
}

// Init must be called from TestMain of every check package.
func Init(id, level, rule string, assumptions ...string) {
	Cfg = Env{
		ID:         id,
		Tier:       os.Getenv("VERIF_TIER"),
		RawSeed:    envInt("VERIF_SEED", 1),
		Shard:      int(envInt("VERIF_SHARD", 0)),
		Shards:     int(envInt("VERIF_SHARDS", 1)),
		Evidence:   os.Getenv("VERIF_EVIDENCE_OUT"),
		ReplayOut:  os.Getenv("VERIF_REPLAY_OUT"),
		ReplayFile: os.Getenv("VERIF_REPLAY"),
		ReplayDir:  os.Getenv("VERIF_REPLAY_DIR"),
		KnownPath:  os.Getenv("VERIF_KNOWN"),
		Scale:      1,
	}
	if Cfg.Tier == "" {
		Cfg.Tier = "quick"
	}
	if s := os.Getenv("VERIF_SCALE"); s != "" {
		if f, err := strconv.ParseFloat(s, 64); err == nil && f > 0 {
			Cfg.Scale = f
		}
	}
	seed := uint64(Cfg.RawSeed)*1000 + uint64(Cfg.Shard)
	if seed == 0 {
		seed = 0x5eed5eed
	}
	Cfg.Seed = seed
	E = &Evidence{
		PropertyID:  id,
		Tier:        Cfg.Tier,
		Seed:        Cfg.RawSeed,
		Level:       level,
		Rule:        rule,
		Assumptions: assumptions,
		nt:          map[string]struct{}{},
		Classes:     map[string]int64{},
		Excluded:    map[string]int64{},
		Known:       map[string]*KnownHit{},
		start:       time.Now(),
	}
	loadKnown()
}

// Main runs the tests and writes the evidence shard.
func Main(m *testing.M) {
	code := m.Run()
	E.Write(code)
	os.Exit(code)
}

func Thorough() bool { return Cfg.Tier == "thorough" }

// N picks the case count for the tier, scaled by VERIF_SCALE.
func N(quick, thorough int) int {
	n := quick
	if Thorough() {
		n = thorough
	}
	n = int(float64(n) * Cfg.Scale)
	if n < 1 {
		n = 1
	}
	return n
}

// ---------------------------------------------------------------- evidence

type KnownHit struct {
	Key   string `json:"key"`
	What  string `json:"what"`
	Count int64  `json:"count"`
}

type Evidence struct {
	mu          sync.Mutex
	PropertyID  string
	Tier        string
	Seed        int64
	Level       string
	Rule        string
	Assumptions []string
	Evals       int64
	nt          map[string]struct{}
	Samples     []any
	sampleKeys  map[string]struct{}
	Classes     map[string]int64
	Excluded    map[string]int64
	Known       map[string]*KnownHit
	Violations  int
	Exhaustive  bool
	Notes       []string
	Extra       map[string]any
	start       time.Time
}

func (e *Evidence) Eval() {
	e.mu.Lock()
	e.Evals++
	e.mu.Unlock()
}

func (e *Evidence) evals() int64 {
	e.mu.Lock()
	defer e.mu.Unlock()
	return e.Evals
}

func (e *Evidence) EvalN(n int64) {
	e.mu.Lock()
	e.Evals += n
	e.mu.Unlock()
}

// NonTrivial records the fingerprint of a case that satisfied the property's
// non-triviality rule.
func (e *Evidence) NonTrivial(fp string) {
	h := sha256.Sum256([]byte(fp))
	k := hex.EncodeToString(h[:8])
	e.mu.Lock()
	e.nt[k] = struct{}{}
	e.mu.Unlock()
}

func (e *Evidence) Class(name string) { e.ClassN(name, 1) }

func (e *Evidence) ClassN(name string, n int64) {
	e.mu.Lock()
	e.Classes[name] += n
	e.mu.Unlock()
}

func (e *Evidence) Exclude(name string) {
	e.mu.Lock()
	e.Excluded[name]++
	e.mu.Unlock()
}

func (e *Evidence) Note(s string) {
	e.mu.Lock()
	e.Notes = append(e.Notes, s)
	e.mu.Unlock()
}

func (e *Evidence) SetExtra(k string, v any) {
	e.mu.Lock()
	if e.Extra == nil {
		e.Extra = map[string]any{}
	}
	e.Extra[k] = v
	e.mu.Unlock()
}

// Sample keeps up to 5 distinct cases (the first of each kind key).
func (e *Evidence) Sample(kind string, v any) {
	e.mu.Lock()
	defer e.mu.Unlock()
	if e.sampleKeys == nil {
		e.sampleKeys = map[string]struct{}{}
	}
	if _, ok := e.sampleKeys[kind]; ok || len(e.Samples) >= 5 {
		return
	}
	e.sampleKeys[kind] = struct{}{}
	e.Samples = append(e.Samples, map[string]any{"kind": kind, "case": v})
}

type evidenceFile struct {
	PropertyID  string         `json:"property_id"`
	Tier        string         `json:"tier"`
	Seed        int64          `json:"seed"`
	Level       string         `json:"level"`
	Coverage    map[string]any `json:"coverage"`
	Assumptions []string       `json:"assumptions"`
	WallS       float64        `json:"wall_s"`
	Violations  int            `json:"violations"`
	// private to the driver (stripped when shards are merged)
	Fingerprints []string `json:"_fingerprints,omitempty"`
	ExitCode     int      `json:"_exit_code"`
}

func (e *Evidence) Write(code int) {
	if Cfg.Evidence == "" {
		return
	}
	e.mu.Lock()
	defer e.mu.Unlock()
	fps := make([]string, 0, len(e.nt))
	for k := range e.nt {
		fps = append(fps, k)
	}
	sort.Strings(fps)
	known := []*KnownHit{}
	for _, k := range e.Known {
		known = append(known, k)
	}
	sort.Slice(known, func(i, j int) bool { return known[i].Key < known[j].Key })
	cov := map[string]any{
		"evaluations":         e.Evals,
		"distinct_nontrivial": len(fps),
		"rule":                e.Rule,
		"samples":             e.Samples,
		"classes":             e.Classes,
		"excluded":            e.Excluded,
		"known_findings_hit":  known,
	}
	if e.Samples == nil {
		cov["samples"] = []any{}
	}
	if e.Exhaustive {
		cov["exhaustive"] = true
	}
	if len(e.Notes) > 0 {
		cov["notes"] = e.Notes
	}
	for k, v := range e.Extra {
		cov[k] = v
	}
	f := evidenceFile{
		PropertyID:   e.PropertyID,
		Tier:         e.Tier,
		Seed:         e.Seed,
		Level:        e.Level,
		Coverage:     cov,
		Assumptions:  e.Assumptions,
		WallS:        time.Since(e.start).Seconds(),
		Violations:   e.Violations,
		Fingerprints: fps,
		ExitCode:     code,
	}
	if f.Assumptions == nil {
		f.Assumptions = []string{}
	}
	b, err := json.MarshalIndent(f, "", " ")
	if err != nil {
		fmt.Fprintf(os.Stderr, "evidence marshal: %v\n", err)
		return
	}
	_ = os.MkdirAll(filepath.Dir(Cfg.Evidence), 0o755)
	if err := os.WriteFile(Cfg.Evidence, b, 0o644); err != nil {
		fmt.Fprintf(os.Stderr, "evidence write: %v\n", err)
	}
}

// ---------------------------------------------------------------- known findings

type KnownFinding struct {
	Property string `json:"property"`
	Key      string `json:"key"`
	Status   string `json:"status"` // open | fixed
	Commit   string `json:"commit,omitempty"`
	What     string `json:"what"`
}

var known []KnownFinding

func loadKnown() {
	known = nil
	if Cfg.KnownPath == "" {
		return
	}
	b, err := os.ReadFile(Cfg.KnownPath)
	if err != nil {
		return
	}
	var f struct {
		Findings []KnownFinding `json:"findings"`
	}
	if json.Unmarshal(b, &f) != nil {
		return
	}
	known = f.Findings
}

// IsKnown reports whether a violation with this key is an open known finding
// of the current property, and counts it if so.  Fixed entries suppress
// nothing.
func IsKnown(key string) bool {
	// development aid (never set by registered commands): tolerate every key with a
	// prefix so that one exploratory run lists all distinct signatures behind the first
	if p := os.Getenv("VERIF_DEV_TOLERATE_PREFIX"); p != "" && strings.HasPrefix(key, p) {
		E.mu.Lock()
		h := E.Known[key]
		if h == nil {
			h = &KnownHit{Key: key, What: "DEV-TOLERATED"}
			E.Known[key] = h
		}
		h.Count++
		E.mu.Unlock()
		return true
	}
	for _, k := range known {
		if k.Property == Cfg.ID && k.Status == "open" && k.Key == key {
			E.mu.Lock()
			h := E.Known[key]
			if h == nil {
				h = &KnownHit{Key: key, What: k.What}
				E.Known[key] = h
			}
			h.Count++
			E.mu.Unlock()
			return true
		}
	}
	return false
}

// ---------------------------------------------------------------- failing

// Failer is implemented by *testing.T and *rapid.T.
type Failer interface {
	Fatalf(format string, args ...any)
	Logf(format string, args ...any)
}

// Violation is what an oracle returns.
type Violation struct {
	Key string // stable signature, used for known-finding matching
	Msg string
}

func (v *Violation) Error() string { return v.Key + ": " + v.Msg }

func Violatef(key, format string, args ...any) *Violation {
	return &Violation{Key: key, Msg: fmt.Sprintf(format, args...)}
}

// Report handles a violation: tolerated if it is an open known finding
// (returns false), otherwise the replay is written and the test fails.
func Report(t Failer, v *Violation, replay any) bool {
	if v == nil {
		return false
	}
	if IsKnown(v.Key) {
		return false
	}
	E.mu.Lock()
	E.Violations++
	E.mu.Unlock()
	SaveReplay(map[string]any{"property": Cfg.ID, "key": v.Key, "message": v.Msg, "case": replay})
	t.Fatalf("VIOLATION-DETAIL property=%s key=%s: %s", Cfg.ID, v.Key, v.Msg)
	return true
}

// ReportWedged is Report for violations after which the server under test cannot be torn down (its event loop is blocked
// for good): the replay and the evidence are written and the process is left at once with exit code 1, without shrinking.
func ReportWedged(v *Violation, replay any) {
	if v == nil || IsKnown(v.Key) {
		return
	}
	E.mu.Lock()
	E.Violations++
	E.mu.Unlock()
	SaveReplay(map[string]any{"property": Cfg.ID, "key": v.Key, "message": v.Msg, "case": replay})
	fmt.Printf("\nVIOLATION-DETAIL property=%s key=%s: %s\n", Cfg.ID, v.Key, v.Msg)
	E.Write(1)
	os.Stdout.Sync()
	os.Exit(1)
}

func SaveReplay(v any) {
	if Cfg.ReplayOut == "" {
		return
	}
	b, err := json.MarshalIndent(v, "", " ")
	if err != nil {
		b = []byte(fmt.Sprintf("{\"marshal_error\": %q}", err.Error()))
	}
	_ = os.MkdirAll(filepath.Dir(Cfg.ReplayOut), 0o755)
	_ = os.WriteFile(Cfg.ReplayOut, b, 0o644)
}

// Journal records the case that is about to run (overwriting the previous one).  When a goroutine of the code under test
// that the harness cannot guard panics, the process dies before a replay file can be written; the driver then turns the
// journal into the replay file.
func Journal(c any) {
	if Cfg.ReplayOut == "" {
		return
	}
	journalN++
	b, err := json.Marshal(map[string]any{"case": c, "n": journalN, "evaluations": E.evals()})
	if err != nil {
		return
	}
	p := Cfg.ReplayOut + ".journal"
	if os.WriteFile(p+".tmp", b, 0o644) == nil {
		_ = os.Rename(p+".tmp", p)
	}
}

var journalN int

// LoadReplayCase reads a replay file and unmarshals its "case" member.
func LoadReplayCase(path string, into any) error {
	b, err := os.ReadFile(path)
	if err != nil {
		return err
	}
	var w struct {
		Case json.RawMessage `json:"case"`
	}
	if err := json.Unmarshal(b, &w); err != nil {
		return err
	}
	if len(w.Case) == 0 {
		return fmt.Errorf("replay %s has no case", path)
	}
	return json.Unmarshal(w.Case, into)
}

// ReplayFiles lists the files to replay: the explicit one, or the saved ones.
// explicit reports whether only the replay must run.
func ReplayFiles() (files []string, explicit bool) {
	if Cfg.ReplayFile != "" {
		return []string{Cfg.ReplayFile}, true
	}
	if Cfg.ReplayDir == "" {
		return nil, false
	}
	m, _ := filepath.Glob(filepath.Join(Cfg.ReplayDir, "*.json"))
	sort.Strings(m)
	return m, false
}

// ---------------------------------------------------------------- rapid glue

// Check runs a rapid property n times with the driver's seed.
func Check(t *testing.T, n int, prop func(*rapid.T)) {
	t.Helper()
	must(flag.Set("rapid.checks", strconv.Itoa(n)))
	must(flag.Set("rapid.seed", strconv.FormatUint(Cfg.Seed, 10)))
	must(flag.Set("rapid.nofailfile", "true"))
	if os.Getenv("VERIF_SHRINKTIME") != "" {
		must(flag.Set("rapid.shrinktime", os.Getenv("VERIF_SHRINKTIME")))
	} else {
		must(flag.Set("rapid.shrinktime", "20s"))
	}
	rapid.Check(t, prop)
}

func must(err error) {
	if err != nil {
		panic(err)
	}
}

// FP builds a fingerprint from parts.
func FP(parts ...any) string {
	var sb strings.Builder
	for _, p := range parts {
		fmt.Fprintf(&sb, "%v|", p)
	}
	return sb.String()
}

// JSON renders a value compactly (for fingerprints and messages).
func JSON(v any) string {
	b, err := json.Marshal(v)
	if err != nil {
		return fmt.Sprintf("%+v", v)
	}
	return string(b)
}

// ---------------------------------------------------------------- minimisation

// MinimizeSlice removes elements greedily (chunks, then single elements) while
// stillFails holds; it complements rapid's shrinker for expensive properties
// (fault enumeration inside the property) where the library's time budget
// ends before the history is minimal.  At most budget evaluations are spent.
func MinimizeSlice[T any](in []T, stillFails func([]T) bool, budget int) []T {
	cur := append([]T(nil), in...)
	evals := 0
	for chunk := len(cur) / 2; chunk >= 1; chunk /= 2 {
		for i := 0; i+chunk <= len(cur); {
			if evals >= budget {
				return cur
			}
			cand := append(append([]T(nil), cur[:i]...), cur[i+chunk:]...)
			evals++
			if stillFails(cand) {
				cur = cand
			} else {
				i += chunk
			}
		}
	}
	return cur
}
