//go:build verif

package c10

import (
	"fmt"
	"sort"
	"syscall"
	"testing"
	"time"

	"github.com/wmnsk/go-pfcp/message"
	"pgregory.net/rapid"

	"github.com/free5gc/go-upf/internal/pfcp"
	upfreport "github.com/free5gc/go-upf/internal/report"
	"github.com/free5gc/go-upf/internal/verif/fullstack"
	"github.com/free5gc/go-upf/internal/verif/simkernel"
	"github.com/free5gc/go-upf/internal/verif/stack"
	"github.com/free5gc/go-upf/internal/verif/vcore"
)

func TestMain(m *testing.M) {
	vcore.Init("C10", "exploration",
		"full stack (real PfcpServer + real Gtp5g driver with buffering listener and periodic server + simulated gtp5g kernel): sessions of 2 SMFs with URRs over every measurement-method x MNOP combination; rapid histories of kernel REPORT multicasts carrying 1-8 reports for several sessions in one message "+
			"(64-bit counters, each single-cause trigger, start/end times, unknown SEIDs and unknown URR ids inside a batch), Query / Update / Remove URR, PDR removal, session deletion with kernel-side results, and periodic ticks. "+
			"Oracle: expected multiset of usage-report IEs per (SMF socket, CP SEID, carrier message): URR id, trigger (mapped cause for multicasts; exactly IMMER / TERMR / PERIO for query / removal / tick), start and end time at one-second resolution, "+
			"Volume Measurement present iff VOLUM with flags TOVOL|ULVOL|DLVOL (+ the three NOP flags iff MNOP) and all encoded counters equal to the kernel's, Duration Measurement present iff DURAT; Session Report Requests arrive at <node id>:8805 of the owner with its CP SEID; "+
			"reports for unknown sessions / URRs produce no IE and do not disturb the other reports of the batch. non-trivial = a batch spanning >= 2 sessions or containing an unknown entry, or a report with a counter >= 2^32; distinct by history",
		"not asserted: whether an empty Session Report Request is sent when every report of a batch was dropped; order of requests across sessions; presence of start/end time for causes START, STOPT, MACAR; the value of the Duration Measurement; UR-SEQN (C11)",
		"multicast reports carry exactly one cause; the simulated kernel reports trigger 0 in query/update/remove replies",
		"simulated kernel stands in for gtp5g (EEXIST/ENOENT, DEL URR returns a final report, GET_REPORT / GET_MULTI_REPORTS return current counters)")
	vcore.Main(m)
}

type URRSpec struct {
	ID     uint32 `json:"id"`
	Method uint8  `json:"method"` // bit0 DURAT, bit1 VOLUM, bit2 EVENT
	MNOP   bool   `json:"mnop"`
	Perio  int    `json:"perio"` // 0: no PERIO trigger, else period index+1
}

type SessSpec struct {
	Node int       `json:"node"`
	CP   uint64    `json:"cp"`
	URRs []URRSpec `json:"urrs"`
}

type Vals struct {
	V     [6]uint64 `json:"v"` // tot ul dl totpkt ulpkt dlpkt
	Start int64     `json:"start"`
	End   int64     `json:"end"`
	NS    int64     `json:"ns"` // sub-second part, must not show in the IE
}

type Rep struct {
	Sess  int    `json:"sess"` // -1: unknown SEID
	URR   uint32 `json:"urr"`
	Cause int    `json:"cause"` // reporting-trigger bit index
	Vals  Vals   `json:"vals"`
}

type Ev struct {
	Kind string   `json:"kind"` // mcast query remove update rmpdr del tick
	Sess int      `json:"sess"`
	URRs []uint32 `json:"urrs,omitempty"`
	Reps []Rep    `json:"reps,omitempty"`
	Per  int      `json:"per,omitempty"`
	Vals Vals     `json:"vals"`
	// SendFail (mcast): the UPF's socket refuses writes while the Session Report Requests of this batch are first transmitted (a
	// full device queue, a route flap); the requests are outstanding all the same and their retransmission delivers the reports
	SendFail bool `json:"send_fail,omitempty"`
	// Refused (update): the data plane refuses the update of every URR this event names (ENOMEM, before it takes effect): the
	// installed URRs go on measuring as before and their later reports must be rendered by the method they still have
	Refused bool `json:"refused,omitempty"`
}

type Case struct {
	Sess []SessSpec `json:"sess"`
	Evs  []Ev       `json:"evs"`
	// Quiet: URR ids whose removal the kernel acknowledges without a final report
	Quiet []uint32 `json:"quiet,omitempty"`
	// Perm != 0: the child IEs of every Create / Update IE are sent in another order derived from it
	Perm uint32 `json:"perm,omitempty"`
}

var periodsSec = []uint32{3600, 7200}

// reporting-trigger bit index -> usage-report-trigger bit index (same name), -1: none
var causeMap = map[int]int{0: 0, 1: 1, 2: 2, 3: 3, 4: 4, 5: 5, 6: 6, 7: 10, 8: 8, 9: 9, 10: 13, 11: 14, 12: 15, 13: 16, 14: 18, 15: 19, 16: -1, 17: 21}

type want struct {
	urr     uint32
	trig    uint32
	vals    Vals
	method  uint8
	mnop    bool
	anyTime bool // start/end presence not asserted
	anyTrig bool
	op      string // kernel operation that produced the values: remove | query | "" (notification, periodic batch)
}

// opOff makes what the kernel hands out depend on why it was asked (removal / query / periodic batch): a report answering
// a removal cannot then be mistaken for the one answering a query made while handling the same message.
func opOff(op string) uint64 {
	switch op {
	case "remove":
		return 1 << 20
	case "query":
		return 2 << 20
	}
	return 0
}

func (v Vals) usageOp(op string, urr uint32) simkernel.Usage {
	u := v.usage(0, urr)
	o := opOff(op)
	u.TotVol, u.UlVol, u.DlVol, u.TotPkt, u.UlPkt, u.DlPkt = u.TotVol+o, u.UlVol+o, u.DlVol+o, u.TotPkt+o, u.UlPkt+o, u.DlPkt+o
	return u
}

func (v Vals) usage(trigger uint32, urr uint32) simkernel.Usage {
	a := uint64(urr)
	return simkernel.Usage{
		Trigger: trigger,
		TotVol:  v.V[0] + a, UlVol: v.V[1] + a, DlVol: v.V[2] + a,
		TotPkt: v.V[3] + a, UlPkt: v.V[4] + a, DlPkt: v.V[5] + a,
		Start: time.Unix(v.Start, v.NS), End: time.Unix(v.End, v.NS/2),
	}
}

func cmp(carrier string, got []stack.UsageDetail, wants []want) *vcore.Violation {
	if len(got) != len(wants) {
		var gu, wu []uint32
		for _, g := range got {
			gu = append(gu, g.URR)
		}
		for _, w := range wants {
			wu = append(wu, w.urr)
		}
		key := "report-missing"
		if len(got) > len(wants) {
			key = "report-surplus"
		}
		return vcore.Violatef(key, "%s carries usage reports for URRs %v, expected %v", carrier, gu, wu)
	}
	used := make([]bool, len(got))
	for _, w := range wants {
		var lastErr *vcore.Violation
		found := false
		for i, g := range got {
			if used[i] || g.URR != w.urr {
				continue
			}
			if v := match(carrier, g, w); v != nil {
				lastErr = v
				continue
			}
			used[i] = true
			found = true
			break
		}
		if !found {
			if lastErr != nil {
				return lastErr
			}
			return vcore.Violatef("report-missing", "%s: no usage report for URR %d", carrier, w.urr)
		}
	}
	return nil
}

func match(carrier string, g stack.UsageDetail, w want) *vcore.Violation {
	if len(g.Dup) > 0 {
		return vcore.Violatef("dup-ie", "%s URR %d: child IE types %v repeated", carrier, g.URR, g.Dup)
	}
	if !w.anyTrig && g.Trig != w.trig {
		return vcore.Violatef("trigger", "%s URR %d: usage report trigger %#x, expected %#x", carrier, g.URR, g.Trig, w.trig)
	}
	u := w.vals.usageOp(w.op, w.urr)
	if g.Start == nil || g.End == nil {
		if !w.anyTime {
			return vcore.Violatef("time-missing", "%s URR %d: start/end time missing", carrier, g.URR)
		}
	} else {
		if g.Start.Unix() != u.Start.Unix() {
			return vcore.Violatef("start-time", "%s URR %d: start time %d, measured %d", carrier, g.URR, g.Start.Unix(), u.Start.Unix())
		}
		if g.End.Unix() != u.End.Unix() {
			return vcore.Violatef("end-time", "%s URR %d: end time %d, measured %d", carrier, g.URR, g.End.Unix(), u.End.Unix())
		}
	}
	volum := w.method&2 != 0
	if volum != (g.Vol != nil) {
		return vcore.Violatef("volume-presence", "%s URR %d: Volume Measurement present=%v, measurement method VOLUM=%v", carrier, g.URR, g.Vol != nil, volum)
	}
	if g.Vol != nil {
		wf := uint8(0x07)
		if w.mnop {
			wf = 0x3f
		}
		if g.Vol.Flags != wf {
			return vcore.Violatef("volume-flags", "%s URR %d: Volume Measurement flags %#x, expected %#x (MNOP=%v)", carrier, g.URR, g.Vol.Flags, wf, w.mnop)
		}
		if g.Vol.TotalVolume != u.TotVol || g.Vol.UplinkVolume != u.UlVol || g.Vol.DownlinkVolume != u.DlVol {
			return vcore.Violatef("volume-values", "%s URR %d: volumes %d/%d/%d, measured %d/%d/%d", carrier, g.URR, g.Vol.TotalVolume, g.Vol.UplinkVolume, g.Vol.DownlinkVolume, u.TotVol, u.UlVol, u.DlVol)
		}
		if w.mnop && (g.Vol.TotalNumberOfPackets != u.TotPkt || g.Vol.UplinkNumberOfPackets != u.UlPkt || g.Vol.DownlinkNumberOfPackets != u.DlPkt) {
			return vcore.Violatef("packet-values", "%s URR %d: packets %d/%d/%d, measured %d/%d/%d", carrier, g.URR, g.Vol.TotalNumberOfPackets, g.Vol.UplinkNumberOfPackets, g.Vol.DownlinkNumberOfPackets, u.TotPkt, u.UlPkt, u.DlPkt)
		}
	}
	if (w.method&1 != 0) != g.HasDur {
		return vcore.Violatef("duration-presence", "%s URR %d: Duration Measurement present=%v, measurement method DURAT=%v", carrier, g.URR, g.HasDur, w.method&1 != 0)
	}
	return nil
}

type msess struct {
	gone   map[uint32]URRSpec // URRs removed earlier (may be provisioned again)
	spec   SessSpec
	ref    int
	alive  bool
	urrs   map[uint32]URRSpec
	pdrHas map[uint32]bool // URRs referenced by PDR 1 (while it exists)
	pdr    bool
	owner  int // socket (= node index) the session's reports go to: the establishing node until a takeover
}

type stats struct {
	multiSess, unknown, big bool
	manyPerTick             bool // one tick had more than 56 URRs to report (several netlink requests)
	takeover                bool
	refusedUpdates          int  // Update URRs the data plane refused
	sendFailed              bool // the first transmission of a batch's requests failed; their retransmission was looked at
	reports                 int
}

func run(c Case) (v *vcore.Violation, stt stats) {
	vcore.Journal(c)
	f, err := fullstack.NewFull(fullstack.FullOpts{Nodes: 2, MaxRetrans: 3})
	if err != nil {
		panic("infrastructure: " + err.Error())
	}
	defer func() {
		if cerr := f.Close(); cerr != nil && v == nil {
			v = vcore.Violatef("stop-hang", "%v", cerr)
		}
		if f.S.Dead != nil && v == nil {
			v = vcore.Violatef(f.S.Dead.Key, "UPF fatal exit: %.600s", f.S.Dead.Msg)
		}
	}()
	r := f.R
	dead := func(o *stack.Obs, what string) *vcore.Violation {
		if o.Dead != nil {
			return vcore.Violatef(o.Dead.Key, "%s: UPF fatal exit: %.500s", what, o.Dead.Msg)
		}
		if o.Stuck {
			return vcore.Violatef("stuck", "%s: no heartbeat answer", what)
		}
		return nil
	}
	for n := 0; n < 2; n++ {
		if x := dead(r.Step(stack.Op{Kind: "assoc", Peer: n, Node: n, Sess: -1}), "assoc"); x != nil {
			return x, stt
		}
	}
	// current kernel values
	var cur Vals
	f.D.K.UsageFor = func(op string, k simkernel.RuleKey) simkernel.Usage { return cur.usageOp(op, uint32(k.ID)) }
	quiet := map[uint32]bool{}
	for _, q := range c.Quiet {
		quiet[q] = true
	}
	f.D.K.QuietDel = func(k simkernel.RuleKey) bool { return quiet[uint32(k.ID)] }
	var ms []*msess
	for _, sp := range c.Sess {
		var rules []stack.RuleOp
		var refs []uint32
		m := &msess{spec: sp, owner: sp.Node, alive: true, urrs: map[uint32]URRSpec{}, pdrHas: map[uint32]bool{}, pdr: true, gone: map[uint32]URRSpec{}}
		for _, u := range sp.URRs {
			ru := stack.RuleOp{Verb: "create", Kind: "URR", ID: u.ID, Method: u.Method, MNOP: u.MNOP, Trig: 0x02}
			if u.Perio > 0 {
				ru.Trig |= 1
				ru.Period = periodsSec[u.Perio-1]
			}
			rules = append(rules, ru)
			refs = append(refs, u.ID)
			m.urrs[u.ID] = u
			m.pdrHas[u.ID] = true
		}
		rules = append(rules, stack.RuleOp{Verb: "create", Kind: "PDR", ID: 1, Prec: 1, URRs: refs})
		o := r.Step(stack.Op{Kind: "est", Peer: sp.Node, Node: sp.Node, Sess: -1, CP: sp.CP, Rules: stack.Permute(rules, c.Perm)})
		if x := dead(o, "establishment"); x != nil {
			return x, stt
		}
		if o.NewSess < 0 || !r.Sess[o.NewSess].Known {
			return vcore.Violatef("est-failed", "establishment not accepted"), stt
		}
		m.ref = o.NewSess
		ms = append(ms, m)
	}
	// expected SRRs: per session
	checkSRRs := func(what string, o *stack.Obs, exp map[int][]want, allowEmpty map[int]bool) *vcore.Violation {
		gotBy := map[int][]stack.SRR{}
		for _, s := range o.SRRs {
			idx := -1
			for i, m := range ms {
				if m.alive && m.spec.CP == s.SEID && m.owner == s.Sock {
					idx = i
				}
			}
			if idx < 0 {
				return vcore.Violatef("srr-misdirected", "%s: Session Report Request with SEID %#x arrived at socket %d: no live session of that SMF has this CP SEID", what, s.SEID, s.Sock)
			}
			gotBy[idx] = append(gotBy[idx], s)
		}
		for i, ws := range exp {
			ss := gotBy[i]
			if len(ws) == 0 {
				if len(ss) > 1 || (len(ss) == 1 && len(stack.UsageReports(ss[0].Msg)) > 0) {
					return vcore.Violatef("report-surplus", "%s: session #%d got usage reports although none was due", what, i)
				}
				continue
			}
			if len(ss) != 1 {
				return vcore.Violatef("srr-count", "%s: session #%d (node %d, CP %#x) received %d Session Report Requests, expected 1", what, i, ms[i].spec.Node, ms[i].spec.CP, len(ss))
			}
			if x := cmp(fmt.Sprintf("%s: Session Report Request for session #%d", what, i), stack.UsageDetails(ss[0].Msg), ws); x != nil {
				return x
			}
		}
		for i, ss := range gotBy {
			if _, ok := exp[i]; !ok {
				if allowEmpty[i] && len(ss) == 1 && len(stack.UsageReports(ss[0].Msg)) == 0 {
					continue
				}
				return vcore.Violatef("report-surplus", "%s: session #%d received a Session Report Request that was not due", what, i)
			}
		}
		for s := range r.Pending {
			r.Pending[s] = nil
		}
		return nil
	}

	for i, ev := range c.Evs {
		what := fmt.Sprintf("event %d (%s)", i, ev.Kind)
		cur = ev.Vals
		switch ev.Kind {
		case "mcast":
			var mr []simkernel.MReport
			exp := map[int][]want{}
			allowEmpty := map[int]bool{}
			seen := map[int]bool{}
			for _, rp := range ev.Reps {
				if rp.Sess >= 0 && rp.Sess < len(ms) && ms[rp.Sess].alive && quiet[rp.URR] {
					if _, gone := ms[rp.Sess].gone[rp.URR]; gone {
						// a kernel does not report for a URR it has removed; go-upf learns of a removal only through the
						// final report, which this URR's removal did not produce
						continue
					}
				}
				seid := 0x7700000000 + uint64(rp.URR)
				if rp.Sess >= 0 && rp.Sess < len(ms) {
					seid = r.Sess[ms[rp.Sess].ref].UP
					if !ms[rp.Sess].alive {
						stt.unknown = true
					}
				} else {
					stt.unknown = true
				}
				mr = append(mr, simkernel.MReport{SEID: seid, URR: rp.URR, Usage: rp.Vals.usage(1<<uint(rp.Cause), rp.URR)})
				for _, x := range rp.Vals.V {
					if x >= 1<<32 {
						stt.big = true
					}
				}
				if rp.Sess >= 0 && rp.Sess < len(ms) && ms[rp.Sess].alive {
					m := ms[rp.Sess]
					seen[rp.Sess] = true
					u, ok := m.urrs[rp.URR]
					if !ok {
						stt.unknown = true
						allowEmpty[rp.Sess] = true
						if _, has := exp[rp.Sess]; !has {
							exp[rp.Sess] = nil
						}
						continue
					}
					w := want{urr: rp.URR, vals: rp.Vals, method: u.Method, mnop: u.MNOP}
					if b := causeMap[rp.Cause]; b >= 0 {
						w.trig = 1 << uint(b)
					} else {
						w.anyTrig = true
					}
					if rp.Cause == 4 || rp.Cause == 5 || rp.Cause == 11 {
						w.anyTime = true
					}
					exp[rp.Sess] = append(exp[rp.Sess], w)
					stt.reports++
				}
			}
			if len(seen) >= 2 {
				stt.multiSess = true
			}
			if len(mr) == 0 {
				continue
			}
			var txBefore map[string]pfcp.VerifTx
			if ev.SendFail {
				txBefore = f.S.Srv.VerifTxTable()
				f.S.Srv.VerifFailSends(true)
			}
			if err := f.D.K.SendReports(mr); err != nil {
				panic("infrastructure: " + err.Error())
			}
			if !f.D.K.Flush(20 * time.Second) {
				f.S.Srv.VerifFailSends(false)
				return vcore.Violatef("mcast-not-consumed", "%s: the netlink listener did not consume the REPORT message", what), stt
			}
			o := &stack.Obs{Rx: map[int][]stack.Datagram{}, Msgs: map[int][]message.Message{}, NewSess: -1}
			if ev.SendFail {
				// the listener has queued the notifications; the loop takes them in order: once a no-op notification queued behind
				// them is gone, they have been served
				f.S.Srv.NotifySessReport(upfreport.SessReport{SEID: 0xdead0001})
				for t1 := time.Now(); time.Since(t1) < 5*time.Second; {
					if _, sr, _ := f.S.Srv.VerifQueues(); sr == 0 {
						break
					}
					time.Sleep(50 * time.Microsecond)
				}
				f.S.Srv.VerifFailSends(false)
				r.Collect(o)
				if x := dead(o, what); x != nil {
					return x, stt
				}
				if len(o.SRRs) == 0 {
					stt.sendFailed = true
				}
				// the retransmission timers of the requests whose first transmission failed expire
				for id := range f.S.Srv.VerifTxTable() {
					if _, old := txBefore[id]; old {
						continue
					}
					o2 := r.Step(stack.Op{Kind: "expire_tx", TrID: id})
					if x := dead(o2, what); x != nil {
						return x, stt
					}
					o.SRRs = append(o.SRRs, o2.SRRs...)
				}
			} else {
				r.Collect(o)
				if x := dead(o, what); x != nil {
					return x, stt
				}
			}
			// sessions whose every report was dropped may or may not get an empty request
			for s, ws := range exp {
				if len(ws) == 0 {
					delete(exp, s)
					allowEmpty[s] = true
				}
			}
			if x := checkSRRs(what, o, exp, allowEmpty); x != nil {
				return x, stt
			}
		case "takeover":
			// another SMF takes the session over: a Modification naming the other node's id.  go-upf re-keys the node the
			// session was established under, so from now on the reports of all sessions of that node go to the new id's address.
			if ev.Sess >= len(ms) || !ms[ev.Sess].alive {
				continue
			}
			m := ms[ev.Sess]
			from, to := m.owner, 1-m.owner
			// go-upf re-keys the node *object* the session was established under: exactly the sessions established under
			// the same association follow (another object may carry the same id after an earlier takeover)
			clash := false
			for _, a := range ms {
				for _, b := range ms {
					if a.alive && b.alive && a.spec.Node == m.spec.Node && b.owner == to && b.spec.Node != m.spec.Node && a.spec.CP == b.spec.CP {
						clash = true // the two could no longer be told apart at the new owner's socket
					}
				}
			}
			if clash {
				continue
			}
			o := r.Step(stack.Op{Kind: "mod", Peer: to, Sess: m.ref, Takeover: true, Node: to})
			if x := dead(o, what); x != nil {
				return x, stt
			}
			accepted := false
			for _, mm := range o.Msgs[to] {
				if mr, ok := mm.(*message.SessionModificationResponse); ok && stack.Cause(mr) == 1 {
					accepted = true
				}
			}
			if !accepted {
				return vcore.Violatef("takeover-refused", "%s: Modification naming node %d for session #%d not accepted", what, to, ev.Sess), stt
			}
			_ = from
			for _, a := range ms {
				if a.spec.Node == m.spec.Node {
					a.owner = to
				}
			}
			stt.takeover = true
			for s := range r.Pending {
				r.Pending[s] = nil
			}
		case "tick":
			exp := map[int][]want{}
			for si, m := range ms {
				if !m.alive {
					continue
				}
				var ids []int
				for id := range m.urrs {
					ids = append(ids, int(id))
				}
				sort.Ints(ids)
				for _, id := range ids {
					u := m.urrs[uint32(id)]
					if u.Perio == ev.Per+1 {
						exp[si] = append(exp[si], want{urr: u.ID, trig: stack.TrigPERIO, vals: ev.Vals, method: u.Method, mnop: u.MNOP})
						stt.reports++
					}
				}
			}
			if len(exp) >= 2 {
				stt.multiSess = true
			}
			nrep := 0
			for _, ws := range exp {
				nrep += len(ws)
			}
			if nrep > 56 {
				stt.manyPerTick = true
			}
			f.D.G.VerifPerio().VerifTick(time.Duration(periodsSec[ev.Per]) * time.Second)
			if err := f.PerioBarrier(); err != nil {
				return vcore.Violatef("perio-stuck", "%s: %v", what, err), stt
			}
			o := &stack.Obs{Rx: map[int][]stack.Datagram{}, Msgs: map[int][]message.Message{}, NewSess: -1}
			r.Collect(o)
			if x := dead(o, what); x != nil {
				return x, stt
			}
			if x := checkSRRs(what, o, exp, nil); x != nil {
				return x, stt
			}
		case "query", "remove", "update", "rmpdr", "rmboth", "del", "create":
			if ev.Sess >= len(ms) || !ms[ev.Sess].alive {
				continue
			}
			m := ms[ev.Sess]
			var rules []stack.RuleOp
			var ws []want
			op := stack.Op{Kind: "mod", Peer: m.spec.Node, Sess: m.ref}
			switch ev.Kind {
			case "query":
				for _, id := range ev.URRs {
					rules = append(rules, stack.RuleOp{Verb: "query", Kind: "URR", ID: id})
					if u, ok := m.urrs[id]; ok {
						ws = append(ws, want{urr: id, trig: stack.TrigIMMER, vals: ev.Vals, method: u.Method, mnop: u.MNOP, op: "query"})
					}
				}
			case "remove":
				seen := map[uint32]bool{}
				for _, id := range ev.URRs {
					if seen[id] {
						continue
					}
					seen[id] = true
					rules = append(rules, stack.RuleOp{Verb: "remove", Kind: "URR", ID: id})
					if u, ok := m.urrs[id]; ok {
						if !quiet[id] {
							ws = append(ws, want{urr: id, trig: stack.TrigTERMR, vals: ev.Vals, method: u.Method, mnop: u.MNOP, op: "remove"})
						}
						delete(m.urrs, id)
						delete(m.pdrHas, id)
						m.gone[id] = u
					}
				}
			case "create":
				// provision a URR again that was removed earlier (same parameters, no PDR refers to it)
				for _, id := range ev.URRs {
					if u, was := m.gone[id]; was {
						if _, ok := m.urrs[id]; ok {
							continue
						}
						u.Perio = 0
						ru := stack.RuleOp{Verb: "create", Kind: "URR", ID: id, Method: u.Method, MNOP: u.MNOP, Trig: 0x02}
						rules = append(rules, ru)
						m.urrs[id] = u
						delete(m.gone, id)
					}
				}
			case "update":
				for _, id := range ev.URRs {
					if u, ok := m.urrs[id]; ok {
						nm := uint8(ev.Vals.V[0]) & 7
						ru := stack.RuleOp{Verb: "update", Kind: "URR", ID: id, Method: nm, MNOP: !u.MNOP, Trig: 0x02}
						// which of the two measurement IEs the update carries (absent = unchanged)
						was := u
						switch ev.Vals.V[1] % 3 {
						case 0:
							u.Method, u.MNOP = nm, !u.MNOP
						case 1:
							ru.NoInfo = true
							u.Method = nm
						default:
							ru.NoMeas = true
						}
						if ev.Refused {
							u = was
							stt.refusedUpdates++
						}
						rules = append(rules, ru)
						// the periodic registration made at creation stays (C03's known finding); the tick model keeps u.Perio
						m.urrs[id] = u
					}
				}
			case "rmboth":
				// one message removes the PDR and some of the URRs it refers to: each removed URR answers with the usage its
				// removal returns (not with a query made for the PDR's sake), the others with a query report
				if !m.pdr {
					continue
				}
				rules = append(rules, stack.RuleOp{Verb: "remove", Kind: "PDR", ID: 1})
				m.pdr = false
				gone := map[uint32]bool{}
				for _, id := range ev.URRs {
					if gone[id] {
						continue
					}
					gone[id] = true
					rules = append(rules, stack.RuleOp{Verb: "remove", Kind: "URR", ID: id})
					if u, ok := m.urrs[id]; ok {
						if !quiet[id] {
							ws = append(ws, want{urr: id, trig: stack.TrigTERMR, vals: ev.Vals, method: u.Method, mnop: u.MNOP, op: "remove"})
						}
						delete(m.urrs, id)
						m.gone[id] = u
					}
				}
				var rest []int
				for id := range m.pdrHas {
					if !gone[id] {
						rest = append(rest, int(id))
					}
				}
				sort.Ints(rest)
				for _, id := range rest {
					if u, ok := m.urrs[uint32(id)]; ok {
						ws = append(ws, want{urr: u.ID, trig: stack.TrigTERMR, vals: ev.Vals, method: u.Method, mnop: u.MNOP, op: "query"})
					}
				}
				m.pdrHas = map[uint32]bool{}
			case "rmpdr":
				if !m.pdr {
					continue
				}
				rules = append(rules, stack.RuleOp{Verb: "remove", Kind: "PDR", ID: 1})
				m.pdr = false
				var ids []int
				for id := range m.pdrHas {
					ids = append(ids, int(id))
				}
				sort.Ints(ids)
				for _, id := range ids {
					if u, ok := m.urrs[uint32(id)]; ok {
						ws = append(ws, want{urr: u.ID, trig: stack.TrigTERMR, vals: ev.Vals, method: u.Method, mnop: u.MNOP, op: "query"})
					}
				}
				m.pdrHas = map[uint32]bool{}
			case "del":
				op = stack.Op{Kind: "del", Peer: m.spec.Node, Sess: m.ref}
				for _, u := range m.urrs {
					if !quiet[u.ID] {
						ws = append(ws, want{urr: u.ID, trig: stack.TrigTERMR, vals: ev.Vals, method: u.Method, mnop: u.MNOP, op: "remove"})
					}
				}
				m.alive = false
			}
			if ev.Kind != "del" && len(rules) == 0 {
				continue
			}
			op.Rules = rules
			stt.reports += len(ws)
			if ev.Kind == "update" && ev.Refused {
				f.D.K.Fail = func(rq *simkernel.Request) int {
					if k, verb := simkernel.Classify(rq); verb == "update" && k.Kind == "URR" {
						return int(syscall.ENOMEM)
					}
					return 0
				}
			}
			o := r.Step(op)
			f.D.K.Fail = nil
			if x := dead(o, what); x != nil {
				return x, stt
			}
			var got []stack.UsageDetail
			answered := false
			for _, mm := range o.Msgs[m.spec.Node] {
				switch mr := mm.(type) {
				case *message.SessionModificationResponse:
					got, answered = stack.UsageDetails(mr), true
					if mr.SEID() != m.spec.CP {
						return vcore.Violatef("rsp-seid", "%s: response SEID %#x, CP SEID %#x", what, mr.SEID(), m.spec.CP), stt
					}
				case *message.SessionDeletionResponse:
					got, answered = stack.UsageDetails(mr), true
					if mr.SEID() != m.spec.CP {
						return vcore.Violatef("rsp-seid", "%s: response SEID %#x, CP SEID %#x", what, mr.SEID(), m.spec.CP), stt
					}
				}
			}
			if !answered {
				return vcore.Violatef("no-answer", "%s: request not answered", what), stt
			}
			if x := cmp(what+": response", got, ws); x != nil {
				return x, stt
			}
			if len(o.SRRs) > 0 {
				return vcore.Violatef("report-surplus", "%s: a Session Report Request was sent although the usage belongs into the response", what), stt
			}
		}
	}
	return nil, stt
}

// ---------------------------------------------------------------- generator

var cnt = rapid.OneOf(rapid.Uint64Range(0, 1<<62), rapid.SampledFrom([]uint64{0, 1, 1<<32 - 1, 1 << 32, 1<<32 + 1, 1<<40 + 5, 1<<62 - 1}))

func genVals(t *rapid.T) Vals {
	var v Vals
	for i := range v.V {
		v.V[i] = cnt.Draw(t, "cnt")
	}
	v.Start = rapid.Int64Range(946684800, 1893456000).Draw(t, "start") // 2000..2030
	v.End = v.Start + rapid.Int64Range(0, 100000).Draw(t, "dur")
	v.NS = rapid.Int64Range(0, 999999999).Draw(t, "ns")
	return v
}

func gen(t *rapid.T) Case {
	var c Case
	ns := rapid.IntRange(1, 3).Draw(t, "nsess")
	// one case in 16: so many sessions with periodic URRs of one period that a tick's usage query no longer fits one netlink
	// request (56 reports per answer): the reports of one tick then come from several requests
	large := rapid.IntRange(0, 15).Draw(t, "large") == 0
	if large {
		ns = rapid.IntRange(19, 27).Draw(t, "nsess_large")
	}
	for i := 0; i < ns; i++ {
		sp := SessSpec{Node: rapid.IntRange(0, 1).Draw(t, "node"), CP: uint64(0x50 + rapid.IntRange(0, 1).Draw(t, "cp"))}
		if large {
			sp.CP = uint64(0x100 + i)
			for j := 0; j < 3; j++ {
				sp.URRs = append(sp.URRs, URRSpec{ID: uint32(j + 1), Method: uint8(rapid.IntRange(0, 7).Draw(t, "method")), MNOP: rapid.Bool().Draw(t, "mnop"), Perio: rapid.SampledFrom([]int{1, 1, 1, 1, 1, 1, 0, 2}).Draw(t, "perio")})
			}
			c.Sess = append(c.Sess, sp)
			continue
		}
		// CP SEIDs unique per peer
		for _, o := range c.Sess {
			if o.Node == sp.Node && o.CP == sp.CP {
				sp.CP += 0x10 * uint64(i+1)
			}
		}
		nu := rapid.IntRange(1, 3).Draw(t, "nurr")
		for j := 0; j < nu; j++ {
			sp.URRs = append(sp.URRs, URRSpec{ID: uint32(j + 1), Method: uint8(rapid.IntRange(0, 7).Draw(t, "method")), MNOP: rapid.Bool().Draw(t, "mnop"), Perio: rapid.SampledFrom([]int{0, 0, 1, 2}).Draw(t, "perio")})
		}
		c.Sess = append(c.Sess, sp)
	}
	for id := uint32(1); id <= 3; id++ {
		if rapid.IntRange(0, 3).Draw(t, "quiet") == 0 {
			c.Quiet = append(c.Quiet, id)
		}
	}
	// scripted core (1 in 4): a URR is removed without a final report, provisioned again, and must report as before
	if rapid.IntRange(0, 3).Draw(t, "core") == 0 {
		has := false
		for _, q := range c.Quiet {
			if q == 1 {
				has = true
			}
		}
		if !has {
			c.Quiet = append(c.Quiet, 1)
		}
		c.Evs = append(c.Evs,
			Ev{Kind: "remove", Sess: 0, URRs: []uint32{1}, Vals: genVals(t)},
			Ev{Kind: "create", Sess: 0, URRs: []uint32{1}, Vals: genVals(t)},
			Ev{Kind: "query", Sess: 0, URRs: []uint32{1}, Vals: genVals(t)},
			Ev{Kind: "mcast", Sess: 0, Reps: []Rep{{Sess: 0, URR: 1, Cause: 1, Vals: genVals(t)}}, Vals: genVals(t)},
			Ev{Kind: "query", Sess: 0, URRs: []uint32{1}, Vals: genVals(t)})
	}
	n := rapid.IntRange(1, 12).Draw(t, "nev")
	if large {
		c.Evs = append(c.Evs, Ev{Kind: "tick", Per: 0, Vals: genVals(t)})
		n = rapid.IntRange(0, 4).Draw(t, "nev_large")
	}
	for i := 0; i < n; i++ {
		k := rapid.SampledFrom([]string{"mcast", "mcast", "mcast", "mcast", "query", "query", "remove", "remove", "create", "create", "update", "rmpdr", "rmboth", "del", "tick", "tick", "takeover"}).Draw(t, "kind")
		ev := Ev{Kind: k, Sess: rapid.IntRange(0, ns-1).Draw(t, "sess"), Vals: genVals(t)}
		switch k {
		case "mcast":
			ev.SendFail = rapid.IntRange(0, 5).Draw(t, "send_fail") == 0
			nr := rapid.IntRange(1, 8).Draw(t, "nrep")
			for j := 0; j < nr; j++ {
				rp := Rep{Sess: rapid.IntRange(-1, ns-1).Draw(t, "rsess"), URR: uint32(rapid.IntRange(1, 4).Draw(t, "urr")), Cause: rapid.IntRange(0, 17).Draw(t, "cause"), Vals: genVals(t)}
				ev.Reps = append(ev.Reps, rp)
			}
		case "query", "remove", "update", "create", "rmboth":
			if k == "update" {
				ev.Refused = rapid.IntRange(0, 2).Draw(t, "refused") == 0
			}
			nq := rapid.IntRange(1, 3).Draw(t, "nq")
			seen := map[uint32]bool{}
			for j := 0; j < nq; j++ {
				id := uint32(rapid.IntRange(1, 4).Draw(t, "urr"))
				if !seen[id] {
					seen[id] = true
					ev.URRs = append(ev.URRs, id)
				}
			}
		case "tick":
			ev.Per = rapid.IntRange(0, 1).Draw(t, "per")
		}
		c.Evs = append(c.Evs, ev)
	}
	if rapid.IntRange(0, 2).Draw(t, "permute") == 0 {
		c.Perm = rapid.Uint32Range(1, 1<<30).Draw(t, "perm")
	}
	return c
}

func brief(c Case) any {
	var evs []string
	for _, e := range c.Evs {
		x := e.Kind
		switch e.Kind {
		case "mcast":
			x += "["
			for _, r := range e.Reps {
				x += fmt.Sprintf("(s%d u%d c%d)", r.Sess, r.URR, r.Cause)
			}
			x += "]"
		case "tick":
			x += fmt.Sprintf("(p%d)", e.Per)
		default:
			x += fmt.Sprintf("(s%d %v)", e.Sess, e.URRs)
		}
		evs = append(evs, x)
	}
	return map[string]any{"sessions": c.Sess, "events": evs}
}

func account(c Case, s stats) {
	vcore.E.Eval()
	vcore.E.ClassN("usage_reports_expected", int64(s.reports))
	if s.refusedUpdates > 0 {
		vcore.E.Class("update_urr_refused_by_the_data_plane")
	}
	if s.sendFailed && s.reports > 0 {
		vcore.E.Class("reports_delivered_by_a_retransmission_after_a_failed_first_transmission")
	}
	if s.manyPerTick {
		vcore.E.Class("tick_with_more_than_56_reports")
	}
	if s.multiSess {
		vcore.E.Class("batch_spanning_2+_sessions")
	}
	if s.unknown {
		vcore.E.Class("batch_with_unknown_entry")
	}
	if s.big {
		vcore.E.Class("counter>=2^32")
	}
	if s.takeover {
		vcore.E.Class("with_takeover")
	}
	if s.multiSess || s.unknown || s.big {
		vcore.E.NonTrivial(vcore.JSON(c))
		vcore.E.Sample(fmt.Sprintf("multi%v-unknown%v", s.multiSess, s.unknown), brief(c))
	}
}

func report(t vcore.Failer, c Case, v *vcore.Violation) {
	if v == nil || vcore.IsKnown(v.Key) {
		return
	}
	key := v.Key
	c.Evs = vcore.MinimizeSlice(c.Evs, func(evs []Ev) bool {
		x, _ := run(Case{Sess: c.Sess, Evs: evs, Quiet: c.Quiet})
		return x != nil && x.Key == key
	}, 100)
	if x, _ := run(c); x != nil {
		vcore.Report(t, x, c)
	}
	vcore.Report(t, v, c)
}

func TestC10(t *testing.T) {
	files, explicit := vcore.ReplayFiles()
	for _, f := range files {
		var w struct {
			Case
			Flood string `json:"flood"`
			Inner *FCase `json:"case"`
			B2B   *BCase `json:"back_to_back"`
			Retr  int    `json:"retrans"`
		}
		if err := vcore.LoadReplayCase(f, &w); err != nil {
			t.Fatalf("replay %s: %v", f, err)
		}
		if w.Flood != "" && w.Inner != nil {
			vcore.E.Eval()
			vcore.E.Class("replayed")
			vcore.Report(t, runFlood(*w.Inner), map[string]any{"flood": w.Flood, "case": w.Inner})
			continue
		}
		if w.B2B != nil {
			vcore.E.Eval()
			vcore.E.Class("replayed")
			vcore.Report(t, runBackToBack(*w.B2B), map[string]any{"back_to_back": w.B2B})
			continue
		}
		if w.Retr > 0 {
			vcore.E.Eval()
			vcore.E.Class("replayed")
			vcore.Report(t, runRetrans(w.Retr), map[string]any{"retrans": w.Retr})
			continue
		}
		c := w.Case
		v, s := run(c)
		account(c, s)
		vcore.E.Class("replayed")
		report(t, c, v)
	}
	if explicit {
		return
	}
	floodPart(t)
	retransPart(t)
	backToBackPart(t)
	vcore.Check(t, vcore.N(600, 7500), func(rt *rapid.T) {
		c := gen(rt)
		v, s := run(c)
		account(c, s)
		report(rt, c, v)
	})
}
