//go:build verif

package c10

import (
	"fmt"
	"time"

	"github.com/wmnsk/go-pfcp/message"

	"github.com/free5gc/go-upf/internal/verif/fullstack"
	"github.com/free5gc/go-upf/internal/verif/simkernel"
	"github.com/free5gc/go-upf/internal/verif/stack"
	"github.com/free5gc/go-upf/internal/verif/vcore"
)

// ---------------------------------------------------------------- more reports than the loop's queue holds
//
// "Every usage report ... is delivered": also when one tick produces more
// reports than the event loop's report queue holds (128) while the loop is
// busy.  N sessions with one periodic URR each; the loop is held inside a
// data-plane call of a Modification (the simulated kernel keeps the request
// for HoldMs), a tick of the period is injected meanwhile - the periodic server
// queries over its own connection and hands over N session reports, of which
// 128 fit the queue - and the call returns.  Every session's report must reach
// the SMF, with its own session's values.  (The producer is the periodic
// server, not the netlink listener: that combination is C18's recorded wedge.)

type FCase struct {
	N      int `json:"n"`
	HoldMs int `json:"hold_ms"`
}

func runFlood(c FCase) (v *vcore.Violation) {
	f, err := fullstack.NewFull(fullstack.FullOpts{Nodes: 1})
	if err != nil {
		panic("infrastructure: " + err.Error())
	}
	defer func() {
		f.D.K.MainHold.Store(false)
		if cerr := f.Close(); cerr != nil && v == nil {
			v = vcore.Violatef("stop-hang", "%v", cerr)
		}
		if f.S.Dead != nil && v == nil {
			v = vcore.Violatef(f.S.Dead.Key, "UPF fatal exit: %.600s", f.S.Dead.Msg)
		}
	}()
	f.D.K.UsageFor = func(op string, k simkernel.RuleKey) simkernel.Usage {
		return simkernel.Usage{TotVol: k.SEID<<16 | k.ID, UlVol: 1, DlVol: 2, Start: time.Unix(1700000000, 0), End: time.Unix(1700000100, 0)}
	}
	r := f.R
	if o := r.Step(stack.Op{Kind: "assoc", Peer: 0, Node: 0, Sess: -1}); o.Dead != nil || o.Stuck {
		return vcore.Violatef("prefix", "association failed")
	}
	for i := 0; i < c.N; i++ {
		rules := []stack.RuleOp{{Verb: "create", Kind: "QER", ID: 1, QFI: 9}, {Verb: "create", Kind: "URR", ID: 1, Method: 2, Trig: 0x03, Period: 3600},
			{Verb: "create", Kind: "PDR", ID: 1, Prec: 1, URRs: []uint32{1}, QERs: []uint32{1}}}
		o := r.Step(stack.Op{Kind: "est", Peer: 0, Node: 0, Sess: -1, CP: uint64(0x2000 + i), Rules: rules})
		if o.Dead != nil || o.NewSess < 0 || !r.Sess[o.NewSess].Known {
			return vcore.Violatef("prefix", "establishment %d not accepted", i)
		}
	}
	for s := range r.Pending {
		r.Pending[s] = nil
	}
	f.D.K.MainHold.Store(true)
	b, err := r.Build(stack.Op{Kind: "mod", Peer: 0, Sess: 0, Rules: []stack.RuleOp{{Verb: "update", Kind: "QER", ID: 1, QFI: 5}}}, 0x600001)
	if err != nil {
		panic(err)
	}
	if err := f.S.Send(0, b); err != nil {
		panic(err)
	}
	for i := 0; i < 50000 && f.D.K.MainHeld.Load() == 0; i++ {
		time.Sleep(100 * time.Microsecond)
	}
	if f.D.K.MainHeld.Load() == 0 {
		return vcore.Violatef("stuck", "the Modification never reached the data plane")
	}
	f.D.G.VerifPerio().VerifTick(3600 * time.Second)
	time.Sleep(time.Duration(c.HoldMs) * time.Millisecond)
	f.D.K.MainHold.Store(false)
	if err := f.S.Barrier(); err != nil {
		if e, ok := err.(*stack.ErrDead); ok {
			return vcore.Violatef(e.Info.Key, "UPF fatal exit: %.400s", e.Info.Msg)
		}
		return vcore.Violatef("stuck", "after the data-plane call returned: %v", err)
	}
	if err := f.PerioBarrier(); err != nil {
		return vcore.Violatef("perio-stuck", "%v", err)
	}
	if err := f.S.Barrier(); err != nil {
		return vcore.Violatef("stuck", "%v", err)
	}
	o := &stack.Obs{Rx: map[int][]stack.Datagram{}, Msgs: map[int][]message.Message{}, NewSess: -1}
	r.Collect(o)
	got := map[uint64]int{}
	upOf := map[uint64]uint64{}
	for _, ss := range r.Sess {
		upOf[ss.CP] = ss.UP
	}
	for _, q := range o.SRRs {
		for _, d := range stack.UsageDetails(q.Msg) {
			got[q.SEID]++
			if d.Vol == nil || d.Vol.TotalVolume != upOf[q.SEID]<<16|uint64(d.URR) {
				return vcore.Violatef("values", "tick over %d sessions while the loop was inside a data-plane call: the report for CP SEID %#x carries another session's measurement", c.N, q.SEID)
			}
		}
	}
	missing := 0
	for _, ss := range r.Sess {
		if got[ss.CP] != 1 {
			missing++
		}
	}
	if missing > 0 {
		return vcore.Violatef("srr-count", "a periodic tick over %d sessions arrived while the event loop was inside a data-plane call for %d ms (its report queue holds 128): %d session(s) did not get exactly one usage report", c.N, c.HoldMs, missing)
	}
	return nil
}

func floodPart(t vcore.Failer) {
	cases := []FCase{{N: 135, HoldMs: 300}}
	if vcore.Thorough() {
		cases = []FCase{{N: 129, HoldMs: 150}, {N: 135, HoldMs: 300}, {N: 260, HoldMs: 400}}
		if vcore.Cfg.Shards > 1 && vcore.Cfg.Shard != 0 {
			cases = nil
		}
	}
	for _, c := range cases {
		vcore.E.Eval()
		vcore.E.Class("tick_with_more_reports_than_the_report_queue_holds_while_the_loop_is_busy")
		vcore.E.NonTrivial(vcore.FP("flood", c.N, c.HoldMs))
		vcore.E.Sample("flood", c)
		vcore.Report(t, runFlood(c), map[string]any{"flood": fmt.Sprintf("%d/%d", c.N, c.HoldMs), "case": c})
	}
}

// ---------------------------------------------------------------- a report whose first transmission is lost
//
// "Delivered ... with volume and packet counters exactly as measured" also holds for the copy that gets through: several
// report requests are outstanding (one multicast message with reports for N sessions), and each is retransmitted once - what
// the SMF receives then must be, octet for octet, the request it would have received the first time.

func runRetrans(n int) *vcore.Violation {
	f, err := fullstack.NewFull(fullstack.FullOpts{Nodes: 1, MaxRetrans: 2})
	if err != nil {
		panic("infrastructure: " + err.Error())
	}
	var v *vcore.Violation
	defer func() { _ = f.Close() }()
	r := f.R
	if o := r.Step(stack.Op{Kind: "assoc", Peer: 0, Node: 0, Sess: -1}); o.Dead != nil || o.Stuck {
		return vcore.Violatef("prefix", "association failed")
	}
	var reps []simkernel.MReport
	for i := 0; i < n; i++ {
		rules := []stack.RuleOp{{Verb: "create", Kind: "URR", ID: 1, Method: 2, Trig: 0x02}, {Verb: "create", Kind: "PDR", ID: 1, Prec: 1, URRs: []uint32{1}}}
		o := r.Step(stack.Op{Kind: "est", Peer: 0, Node: 0, Sess: -1, CP: uint64(0x3000 + i), Rules: rules})
		if o.Dead != nil || o.NewSess < 0 || !r.Sess[o.NewSess].Known {
			return vcore.Violatef("prefix", "establishment %d not accepted", i)
		}
		reps = append(reps, simkernel.MReport{SEID: r.Sess[o.NewSess].UP, URR: 1, Usage: simkernel.Usage{Trigger: 1 << 1, TotVol: uint64(1000 + i), UlVol: uint64(10 + i), DlVol: uint64(20 + i),
			Start: time.Unix(1700000000, 0), End: time.Unix(1700000100, 0)}})
	}
	if err := f.D.K.SendReports(reps); err != nil {
		panic(err)
	}
	if !f.D.K.Flush(10 * time.Second) {
		return vcore.Violatef("mcast-not-consumed", "the listener did not take the REPORT message")
	}
	o := r.Step(stack.Op{Kind: "hb", Peer: 0, Sess: -1})
	if o.Dead != nil || o.Stuck {
		return vcore.Violatef("stuck", "after the REPORT message")
	}
	first := map[uint32][]byte{}
	for _, s := range o.SRRs {
		first[s.Seq] = s.B
	}
	if len(first) != n {
		return vcore.Violatef("srr-count", "one REPORT message with reports for %d sessions produced %d Session Report Requests", n, len(first))
	}
	r.Pending[0] = nil
	for id, e := range f.S.Srv.VerifTxTable() {
		o := r.Step(stack.Op{Kind: "expire_tx", TrID: id})
		if o.Dead != nil || o.Stuck {
			return vcore.Violatef("stuck", "expiry")
		}
		if len(o.Rx[0]) != 1 {
			return vcore.Violatef("retrans-count", "the timer of report request seq %d expired: %d datagrams", e.Seq, len(o.Rx[0]))
		}
		if string(o.Rx[0][0].B) != string(first[e.Seq&0xffffff]) {
			v = vcore.Violatef("retransmitted-report-differs", "%d report requests outstanding; the retransmission of request seq %d is %x, its first copy was %x: an SMF that missed the first copy never gets this session's report", n, e.Seq, o.Rx[0][0].B, first[e.Seq&0xffffff])
			return v
		}
		r.Pending[0] = nil
	}
	return nil
}

func retransPart(t vcore.Failer) {
	for _, n := range []int{1, 2, 5} {
		vcore.E.Eval()
		vcore.E.Class("reports_retransmitted_with_several_outstanding")
		vcore.Report(t, runRetrans(n), map[string]any{"retrans": n})
	}
}

// ---------------------------------------------------------------- REPORT messages back to back while the loop is busy
//
// The data plane reports when it measures, not when the UPF has time: while the event loop is inside a data-plane call,
// several REPORT messages arrive one after the other - for the same sessions - and are handed to the loop's queue by the
// listener before the first of them is served.  Each message's reports must reach the SMF with the values of that message.

type BCase struct {
	NSess int     `json:"nsess"`
	Msgs  [][]int `json:"msgs"` // per REPORT message: the sessions it reports for (one report each, URR 1)
}

func runBackToBack(c BCase) (v *vcore.Violation) {
	f, err := fullstack.NewFull(fullstack.FullOpts{Nodes: 1})
	if err != nil {
		panic("infrastructure: " + err.Error())
	}
	defer func() {
		f.D.K.MainHold.Store(false)
		if cerr := f.Close(); cerr != nil && v == nil {
			v = vcore.Violatef("stop-hang", "%v", cerr)
		}
		if f.S.Dead != nil && v == nil {
			v = vcore.Violatef(f.S.Dead.Key, "UPF fatal exit: %.600s", f.S.Dead.Msg)
		}
	}()
	r := f.R
	if o := r.Step(stack.Op{Kind: "assoc", Peer: 0, Node: 0, Sess: -1}); o.Dead != nil || o.Stuck {
		return vcore.Violatef("prefix", "association failed")
	}
	var ups []uint64
	for i := 0; i < c.NSess; i++ {
		rules := []stack.RuleOp{{Verb: "create", Kind: "QER", ID: 1, QFI: 9}, {Verb: "create", Kind: "URR", ID: 1, Method: 2, Trig: 0x02},
			{Verb: "create", Kind: "PDR", ID: 1, Prec: 1, URRs: []uint32{1}, QERs: []uint32{1}}}
		o := r.Step(stack.Op{Kind: "est", Peer: 0, Node: 0, Sess: -1, CP: uint64(0x4000 + i), Rules: rules})
		if o.Dead != nil || o.NewSess < 0 || !r.Sess[o.NewSess].Known {
			return vcore.Violatef("prefix", "establishment %d not accepted", i)
		}
		ups = append(ups, r.Sess[o.NewSess].UP)
	}
	for s := range r.Pending {
		r.Pending[s] = nil
	}
	f.D.K.MainHold.Store(true)
	b, err := r.Build(stack.Op{Kind: "mod", Peer: 0, Sess: 0, Rules: []stack.RuleOp{{Verb: "update", Kind: "QER", ID: 1, QFI: 5}}}, 0x610001)
	if err != nil {
		panic(err)
	}
	if err := f.S.Send(0, b); err != nil {
		panic(err)
	}
	for i := 0; i < 50000 && f.D.K.MainHeld.Load() == 0; i++ {
		time.Sleep(100 * time.Microsecond)
	}
	if f.D.K.MainHeld.Load() == 0 {
		return vcore.Violatef("stuck", "the Modification never reached the data plane")
	}
	want := map[uint64][]uint64{} // CP SEID -> total volumes in the order measured
	for mi, ss := range c.Msgs {
		var reps []simkernel.MReport
		for _, si := range ss {
			if si >= c.NSess {
				continue
			}
			tot := uint64(mi+1)<<32 | ups[si]<<8 | 1
			reps = append(reps, simkernel.MReport{SEID: ups[si], URR: 1, Usage: simkernel.Usage{Trigger: 1 << uint(1+mi%2), TotVol: tot, UlVol: uint64(mi + 1), DlVol: tot - uint64(mi+1),
				TotPkt: uint64(10 * (mi + 1)), Start: time.Unix(1700000000+int64(mi), 0), End: time.Unix(1700000100+int64(mi), 0)}})
			want[uint64(0x4000+si)] = append(want[uint64(0x4000+si)], tot)
		}
		if len(reps) == 0 {
			continue
		}
		if err := f.D.K.SendReports(reps); err != nil {
			panic(err)
		}
		if !f.D.K.Flush(10 * time.Second) {
			return vcore.Violatef("mcast-not-consumed", "the listener did not take REPORT message %d while the loop was inside a data-plane call", mi)
		}
	}
	f.D.K.MainHold.Store(false)
	if err := f.S.Barrier(); err != nil {
		if e, ok := err.(*stack.ErrDead); ok {
			return vcore.Violatef(e.Info.Key, "UPF fatal exit: %.400s", e.Info.Msg)
		}
		return vcore.Violatef("stuck", "after the data-plane call returned: %v", err)
	}
	o := &stack.Obs{Rx: map[int][]stack.Datagram{}, Msgs: map[int][]message.Message{}, NewSess: -1}
	r.Collect(o)
	got := map[uint64][]uint64{}
	for _, q := range o.SRRs {
		for _, d := range stack.UsageDetails(q.Msg) {
			tv := uint64(0)
			if d.Vol != nil {
				tv = d.Vol.TotalVolume
			}
			got[q.SEID] = append(got[q.SEID], tv)
		}
	}
	for cp, w := range want {
		g := got[cp]
		if fmt.Sprint(g) != fmt.Sprint(w) {
			return vcore.Violatef("values", "%d REPORT messages arrived while the event loop was inside a data-plane call: session with CP SEID %#x was measured %x (total volume, in order) and its SMF received %x", len(c.Msgs), cp, w, g)
		}
	}
	return nil
}

func backToBackPart(t vcore.Failer) {
	fixed := []BCase{{NSess: 1, Msgs: [][]int{{0}, {0}}}, {NSess: 2, Msgs: [][]int{{0, 1}, {1}, {0, 1}}}, {NSess: 3, Msgs: [][]int{{0, 1, 2}, {2, 1}, {0}, {0, 2}}}}
	for _, c := range fixed {
		vcore.E.Eval()
		vcore.E.Class("report_messages_back_to_back_while_the_loop_is_busy")
		vcore.E.NonTrivial(vcore.FP("b2b", vcore.JSON(c)))
		vcore.E.Sample("back-to-back", c)
		vcore.Report(t, runBackToBack(c), map[string]any{"back_to_back": c})
	}
}
