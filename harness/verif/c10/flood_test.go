//go:build verif

package c10

import (
	"fmt"
	"time"

	"github.com/wmnsk/go-pfcp/message"

	"github.com/free5gc/go-upf/internal/verif/fullstack"
	"github.com/free5gc/go-upf/internal/verif/simkernel"
	"github.com/free5gc/go-upf/internal/verif/stack"
	"github.com/free5gc/go-upf/internal/verif/vcore"
)

// ---------------------------------------------------------------- more reports than the loop's queue holds
//
// "Every usage report ... is delivered": also when one tick produces more
// reports than the event loop's report queue holds (128) while the loop is
// busy.  N sessions with one periodic URR each; the loop is held inside a
// data-plane call of a Modification (the simulated kernel keeps the request
// for HoldMs), a tick of the period is injected meanwhile - the periodic server
// queries over its own connection and hands over N session reports, of which
// 128 fit the queue - and the call returns.  Every session's report must reach
// the SMF, with its own session's values.  (The producer is the periodic
// server, not the netlink listener: that combination is C18's recorded wedge.)

type FCase struct {
	N      int `json:"n"`
	HoldMs int `json:"hold_ms"`
}

func runFlood(c FCase) (v *vcore.Violation) {
	f, err := fullstack.NewFull(fullstack.FullOpts{Nodes: 1})
	if err != nil {
		panic("infrastructure: " + err.Error())
	}
	defer func() {
		f.D.K.MainHold.Store(false)
		if cerr := f.Close(); cerr != nil && v == nil {
			v = vcore.Violatef("stop-hang", "%v", cerr)
		}
		if f.S.Dead != nil && v == nil {
			v = vcore.Violatef(f.S.Dead.Key, "UPF fatal exit: %.600s", f.S.Dead.Msg)
		}
	}()
	f.D.K.UsageFor = func(op string, k simkernel.RuleKey) simkernel.Usage {
		return simkernel.Usage{TotVol: k.SEID<<16 | k.ID, UlVol: 1, DlVol: 2, Start: time.Unix(1700000000, 0), End: time.Unix(1700000100, 0)}
	}
	r := f.R
	if o := r.Step(stack.Op{Kind: "assoc", Peer: 0, Node: 0, Sess: -1}); o.Dead != nil || o.Stuck {
		return vcore.Violatef("prefix", "association failed")
	}
	for i := 0; i < c.N; i++ {
		rules := []stack.RuleOp{{Verb: "create", Kind: "QER", ID: 1, QFI: 9}, {Verb: "create", Kind: "URR", ID: 1, Method: 2, Trig: 0x03, Period: 3600},
			{Verb: "create", Kind: "PDR", ID: 1, Prec: 1, URRs: []uint32{1}, QERs: []uint32{1}}}
		o := r.Step(stack.Op{Kind: "est", Peer: 0, Node: 0, Sess: -1, CP: uint64(0x2000 + i), Rules: rules})
		if o.Dead != nil || o.NewSess < 0 || !r.Sess[o.NewSess].Known {
			return vcore.Violatef("prefix", "establishment %d not accepted", i)
		}
	}
	for s := range r.Pending {
		r.Pending[s] = nil
	}
	f.D.K.MainHold.Store(true)
	b, err := r.Build(stack.Op{Kind: "mod", Peer: 0, Sess: 0, Rules: []stack.RuleOp{{Verb: "update", Kind: "QER", ID: 1, QFI: 5}}}, 0x600001)
	if err != nil {
		panic(err)
	}
	if err := f.S.Send(0, b); err != nil {
		panic(err)
	}
	for i := 0; i < 50000 && f.D.K.MainHeld.Load() == 0; i++ {
		time.Sleep(100 * time.Microsecond)
	}
	if f.D.K.MainHeld.Load() == 0 {
		return vcore.Violatef("stuck", "the Modification never reached the data plane")
	}
	f.D.G.VerifPerio().VerifTick(3600 * time.Second)
	time.Sleep(time.Duration(c.HoldMs) * time.Millisecond)
	f.D.K.MainHold.Store(false)
	if err := f.S.Barrier(); err != nil {
		if e, ok := err.(*stack.ErrDead); ok {
			return vcore.Violatef(e.Info.Key, "UPF fatal exit: %.400s", e.Info.Msg)
		}
		return vcore.Violatef("stuck", "after the data-plane call returned: %v", err)
	}
	if err := f.PerioBarrier(); err != nil {
		return vcore.Violatef("perio-stuck", "%v", err)
	}
	if err := f.S.Barrier(); err != nil {
		return vcore.Violatef("stuck", "%v", err)
	}
	o := &stack.Obs{Rx: map[int][]stack.Datagram{}, Msgs: map[int][]message.Message{}, NewSess: -1}
	r.Collect(o)
	got := map[uint64]int{}
	upOf := map[uint64]uint64{}
	for _, ss := range r.Sess {
		upOf[ss.CP] = ss.UP
	}
	for _, q := range o.SRRs {
		for _, d := range stack.UsageDetails(q.Msg) {
			got[q.SEID]++
			if d.Vol == nil || d.Vol.TotalVolume != upOf[q.SEID]<<16|uint64(d.URR) {
				return vcore.Violatef("values", "tick over %d sessions while the loop was inside a data-plane call: the report for CP SEID %#x carries another session's measurement", c.N, q.SEID)
			}
		}
	}
	missing := 0
	for _, ss := range r.Sess {
		if got[ss.CP] != 1 {
			missing++
		}
	}
	if missing > 0 {
		return vcore.Violatef("srr-count", "a periodic tick over %d sessions arrived while the event loop was inside a data-plane call for %d ms (its report queue holds 128): %d session(s) did not get exactly one usage report", c.N, c.HoldMs, missing)
	}
	return nil
}

func floodPart(t vcore.Failer) {
	cases := []FCase{{N: 135, HoldMs: 300}}
	if vcore.Thorough() {
		cases = []FCase{{N: 129, HoldMs: 150}, {N: 135, HoldMs: 300}, {N: 260, HoldMs: 400}}
		if vcore.Cfg.Shards > 1 && vcore.Cfg.Shard != 0 {
			cases = nil
		}
	}
	for _, c := range cases {
		vcore.E.Eval()
		vcore.E.Class("tick_with_more_reports_than_the_report_queue_holds_while_the_loop_is_busy")
		vcore.E.NonTrivial(vcore.FP("flood", c.N, c.HoldMs))
		vcore.E.Sample("flood", c)
		vcore.Report(t, runFlood(c), map[string]any{"flood": fmt.Sprintf("%d/%d", c.N, c.HoldMs), "case": c})
	}
}
