//go:build verif

package c16

import (
	"fmt"
	"net"
	"strconv"
	"strings"
	"testing"

	"pgregory.net/rapid"

	"github.com/free5gc/go-gtp5gnl"
	"github.com/free5gc/go-upf/internal/forwarder"
	"github.com/free5gc/go-upf/internal/verif/vcore"
)

func TestMain(m *testing.M) {
	vcore.Init("C16", "exploration",
		"grammar-generated IPFilterRule strings (permit in|out, ip|0..255, any|assigned|host|prefix/0..32, 0..8 port items with singles and ranges, arbitrary blank/tab spacing) "+
			"checked against an independent reference parser and through newFlowDesc + gtp5gnl.DecodeFlowDesc with and without uplink swap; plus near-miss mutations and arbitrary strings that must be rejected or handled without a fault. "+
			"non-trivial = a port list containing a range AND a prefix length not in {0,32} AND swap=true; distinct by canonical rule text + swap",
		"reference parser written from the property statement (RFC 6733 IPFilterRule subset), not from flowdesc.go",
		"any/assigned denote 0.0.0.0/0; ports are compared as ranges (n == n-n)",
		"near-miss strings accepted by both parsers are not compared field by field: the statement only demands rejection or fault-free handling")
	vcore.Main(m)
}

// ---------------------------------------------------------------- reference model

type Addr struct {
	Kind   string `json:"kind"` // any | assigned | host | prefix
	IP     [4]byte `json:"ip"`
	Prefix int    `json:"prefix"`
}

type PortItem struct {
	Lo, Hi uint16
	Range  bool
}

type Rule struct {
	Dir      string     `json:"dir"`
	Proto    int        `json:"proto"` // -1 = "ip"
	Src      Addr       `json:"src"`
	SrcPorts []PortItem `json:"src_ports"`
	Dst      Addr       `json:"dst"`
	DstPorts []PortItem `json:"dst_ports"`
	Seps     []string   `json:"seps"` // separators between tokens (and leading/trailing)
}

type Case struct {
	Text string `json:"text"`
	Swap bool   `json:"swap"`
	// Valid says the text was produced by the grammar (Rule is its meaning).
	Valid bool  `json:"valid"`
	Rule  *Rule `json:"rule,omitempty"`
}

// filter is the denotation of a rule.
type filter struct {
	action, dir  uint8
	proto        uint8
	srcNet, dstNet [4]byte
	srcMask, dstMask [4]byte
	srcPorts, dstPorts [][2]uint16
}

func (a Addr) text() string {
	switch a.Kind {
	case "any", "assigned":
		return a.Kind
	case "host":
		return net.IP(a.IP[:]).String()
	default:
		return fmt.Sprintf("%s/%d", net.IP(a.IP[:]).String(), a.Prefix)
	}
}

func (a Addr) denote() (n, m [4]byte) {
	switch a.Kind {
	case "any", "assigned":
		return
	case "host":
		return a.IP, [4]byte{255, 255, 255, 255}
	default:
		mask := net.CIDRMask(a.Prefix, 32)
		for i := 0; i < 4; i++ {
			m[i] = mask[i]
			n[i] = a.IP[i] & mask[i]
		}
		return
	}
}

func portsText(ps []PortItem) string {
	var parts []string
	for _, p := range ps {
		if p.Range {
			parts = append(parts, fmt.Sprintf("%d-%d", p.Lo, p.Hi))
		} else {
			parts = append(parts, strconv.Itoa(int(p.Lo)))
		}
	}
	return strings.Join(parts, ",")
}

func portsDenote(ps []PortItem) [][2]uint16 {
	var out [][2]uint16
	for _, p := range ps {
		if p.Range {
			out = append(out, [2]uint16{p.Lo, p.Hi})
		} else {
			out = append(out, [2]uint16{p.Lo, p.Lo})
		}
	}
	return out
}

func (r *Rule) tokens() []string {
	t := []string{"permit", r.Dir}
	if r.Proto < 0 {
		t = append(t, "ip")
	} else {
		t = append(t, strconv.Itoa(r.Proto))
	}
	t = append(t, "from", r.Src.text())
	if len(r.SrcPorts) > 0 {
		t = append(t, portsText(r.SrcPorts))
	}
	t = append(t, "to", r.Dst.text())
	if len(r.DstPorts) > 0 {
		t = append(t, portsText(r.DstPorts))
	}
	return t
}

func (r *Rule) text() string {
	toks := r.tokens()
	var sb strings.Builder
	sep := func(i int) string {
		if i < len(r.Seps) && r.Seps[i] != "" {
			return r.Seps[i]
		}
		return " "
	}
	if len(r.Seps) > 0 && strings.TrimSpace(r.Seps[0]) == "" {
		sb.WriteString(r.Seps[0]) // leading blanks (may be empty)
	}
	for i, t := range toks {
		if i > 0 {
			sb.WriteString(sep(i))
		}
		sb.WriteString(t)
	}
	if len(r.Seps) > len(toks) {
		sb.WriteString(r.Seps[len(toks)])
	}
	return sb.String()
}

func (r *Rule) denote(swap bool) filter {
	f := filter{action: gtp5gnl.SDF_FILTER_PERMIT}
	if r.Dir == "in" {
		f.dir = gtp5gnl.SDF_FILTER_IN
	} else {
		f.dir = gtp5gnl.SDF_FILTER_OUT
	}
	if r.Proto < 0 {
		f.proto = 0xff
	} else {
		f.proto = uint8(r.Proto)
	}
	f.srcNet, f.srcMask = r.Src.denote()
	f.dstNet, f.dstMask = r.Dst.denote()
	f.srcPorts = portsDenote(r.SrcPorts)
	f.dstPorts = portsDenote(r.DstPorts)
	if swap {
		f.srcNet, f.dstNet = f.dstNet, f.srcNet
		f.srcMask, f.dstMask = f.dstMask, f.srcMask
		f.srcPorts, f.dstPorts = f.dstPorts, f.srcPorts
	}
	return f
}

// ---------------------------------------------------------------- generators

func genAddr(t *rapid.T, label string) Addr {
	kind := rapid.SampledFrom([]string{"any", "assigned", "host", "prefix", "prefix"}).Draw(t, label+"kind")
	a := Addr{Kind: kind}
	if kind == "host" || kind == "prefix" {
		b := rapid.SliceOfN(rapid.OneOf(rapid.Byte(), rapid.SampledFrom([]byte{0, 1, 10, 127, 128, 254, 255})), 4, 4).Draw(t, label+"ip")
		copy(a.IP[:], b)
	}
	if kind == "prefix" {
		a.Prefix = rapid.OneOf(rapid.IntRange(0, 32), rapid.SampledFrom([]int{0, 1, 7, 8, 9, 15, 16, 17, 23, 24, 25, 31, 32})).Draw(t, label+"plen")
	}
	return a
}

var portVals = rapid.OneOf(rapid.Uint16(), rapid.SampledFrom([]uint16{0, 1, 80, 255, 256, 1023, 1024, 32767, 32768, 65534, 65535}))

func genPorts(t *rapid.T, label string) []PortItem {
	n := rapid.SampledFrom([]int{0, 0, 1, 1, 2, 3, 5, 8}).Draw(t, label+"n")
	var ps []PortItem
	for i := 0; i < n; i++ {
		lo := portVals.Draw(t, label+"lo")
		if rapid.Bool().Draw(t, label+"range") {
			hi := portVals.Draw(t, label+"hi")
			if hi < lo {
				lo, hi = hi, lo
			}
			ps = append(ps, PortItem{Lo: lo, Hi: hi, Range: true})
		} else {
			ps = append(ps, PortItem{Lo: lo, Hi: lo})
		}
	}
	return ps
}

func genRule(t *rapid.T) *Rule {
	r := &Rule{
		Dir:   rapid.SampledFrom([]string{"in", "out"}).Draw(t, "dir"),
		Proto: rapid.OneOf(rapid.Just(-1), rapid.IntRange(0, 255), rapid.SampledFrom([]int{0, 1, 6, 17, 254, 255})).Draw(t, "proto"),
	}
	r.Src = genAddr(t, "src")
	r.SrcPorts = genPorts(t, "sp")
	r.Dst = genAddr(t, "dst")
	r.DstPorts = genPorts(t, "dp")
	ntok := len(r.tokens())
	if rapid.Bool().Draw(t, "oddspacing") {
		r.Seps = make([]string, ntok+1)
		for i := range r.Seps {
			s := rapid.SampledFrom([]string{" ", " ", "  ", "\t", " \t ", "   "}).Draw(t, "sep")
			if i == 0 || i == ntok {
				s = rapid.SampledFrom([]string{"", "", " ", "\t", "  "}).Draw(t, "edge")
			}
			r.Seps[i] = s
		}
	}
	return r
}

// near-miss mutations of a valid rule
func mutate(t *rapid.T, r *Rule) string {
	toks := r.tokens()
	k := rapid.IntRange(0, 13).Draw(t, "mut")
	i := rapid.IntRange(0, len(toks)-1).Draw(t, "pos")
	switch k {
	case 0: // delete a token
		toks = append(toks[:i:i], toks[i+1:]...)
	case 1: // duplicate a token
		toks = append(toks[:i+1:i+1], toks[i:]...)
	case 2:
		toks[0] = rapid.SampledFrom([]string{"deny", "Permit", "PERMIT", "allow", ""}).Draw(t, "act")
	case 3:
		toks[1] = rapid.SampledFrom([]string{"both", "IN", "inn", "0"}).Draw(t, "dir")
	case 4:
		toks[2] = rapid.SampledFrom([]string{"256", "-1", "tcp", "udp", "0x11", "1e1", "99999999999999999999"}).Draw(t, "proto")
	case 5: // IPv6 / broken addresses
		toks[4] = rapid.SampledFrom([]string{"::1", "2001:db8::/32", "1.2.3", "1.2.3.4.5", "256.1.1.1", "1.2.3.4/33", "1.2.3.4/-1", "1.2.3.4/", "/8", "!1.2.3.4", "01.2.3.4"}).Draw(t, "addr")
	case 6: // broken ports
		p := rapid.SampledFrom([]string{"65536", "1-65536", "-", "1-", "-1", "1,,2", ",", "1-2-3", "9-1", "a", "1;2", "70000-80000"}).Draw(t, "ports")
		toks = append(toks, p)
	case 7:
		toks = append(toks, rapid.SampledFrom([]string{"garbage", "frag", "established", "setup", "tcpflags", "to", "from"}).Draw(t, "suffix"))
	case 8: // replace 'from'/'to'
		for j := range toks {
			if toks[j] == "from" || toks[j] == "to" {
				if rapid.Bool().Draw(t, "rep") {
					toks[j] = rapid.SampledFrom([]string{"form", "TO", "From", "t0"}).Draw(t, "kw")
				}
			}
		}
	case 9: // truncate
		toks = toks[:i]
	case 10: // join two tokens
		if i+1 < len(toks) {
			toks = append(append(toks[:i:i], toks[i]+toks[i+1]), toks[i+2:]...)
		}
	case 11: // unicode / control characters as separators
		return strings.Join(toks, rapid.SampledFrom([]string{" ", "\x00", "\v", "\r\n", " "}).Draw(t, "usep"))
	case 12: // ports in place of addresses
		toks[4] = "80"
	case 13: // swap from/to sections
		toks[3], toks[len(toks)-2] = toks[len(toks)-2], toks[3]
	}
	return strings.Join(toks, " ")
}

// ---------------------------------------------------------------- oracle

func ipnetDenote(n *net.IPNet) (ip, mask [4]byte, err error) {
	if n == nil {
		return ip, mask, fmt.Errorf("nil network")
	}
	ones, bits := n.Mask.Size()
	switch {
	case len(n.IP) == 4 && bits == 32:
		copy(ip[:], n.IP)
		copy(mask[:], n.Mask)
	case len(n.IP) == 16 && bits == 128 && ones == 0 && n.IP.IsUnspecified():
		// "any": the zero network of whatever family
	case len(n.IP) == 16 && bits == 32 && n.IP.To4() != nil:
		copy(ip[:], n.IP.To4())
		copy(mask[:], n.Mask)
	default:
		return ip, mask, fmt.Errorf("unexpected network form ip=%v mask=%v", n.IP, n.Mask)
	}
	return
}

func parsedPorts(ps [][]uint16) ([][2]uint16, error) {
	var out [][2]uint16
	for _, p := range ps {
		switch len(p) {
		case 1:
			out = append(out, [2]uint16{p[0], p[0]})
		case 2:
			out = append(out, [2]uint16{p[0], p[1]})
		default:
			return nil, fmt.Errorf("port item with %d values", len(p))
		}
	}
	return out, nil
}

func eqPorts(a, b [][2]uint16) bool {
	if len(a) != len(b) {
		return false
	}
	for i := range a {
		if a[i] != b[i] {
			return false
		}
	}
	return true
}

func first4(ip net.IP) (o [4]byte) { copy(o[:], ip); return }
func mask4(m net.IPMask) (o [4]byte) { copy(o[:], m); return }

func check(c Case) (v *vcore.Violation) {
	defer func() {
		if p := recover(); p != nil {
			v = vcore.Violatef("panic", "panic on %q (swap=%v): %v", c.Text, c.Swap, p)
		}
	}()
	fd, perr := forwarder.ParseFlowDesc(c.Text)
	attrs, aerr := forwarder.VerifNewFlowDesc(c.Text, c.Swap)
	if (perr == nil) != (aerr == nil) && c.Valid {
		return vcore.Violatef("parse-vs-encode", "%q: ParseFlowDesc err=%v, newFlowDesc err=%v", c.Text, perr, aerr)
	}
	if !c.Valid {
		if perr == nil && fd == nil {
			return vcore.Violatef("nil-nil", "%q: nil result and nil error", c.Text)
		}
		if aerr == nil {
			// whatever was accepted must encode and decode without a fault
			b := make([]byte, attrs.Len())
			if _, err := attrs.Encode(b); err != nil {
				return vcore.Violatef("encode", "%q: attribute encoding failed: %v", c.Text, err)
			}
			_, _ = gtp5gnl.DecodeFlowDesc(b)
		}
		return nil
	}
	if perr != nil {
		return vcore.Violatef("reject-valid", "valid rule %q rejected: %v", c.Text, perr)
	}
	want := c.Rule.denote(false)
	// --- ParseFlowDesc result
	if fd.Action != "permit" {
		return vcore.Violatef("action", "%q: action %q", c.Text, fd.Action)
	}
	if fd.Dir != c.Rule.Dir {
		return vcore.Violatef("dir", "%q: dir %q", c.Text, fd.Dir)
	}
	if fd.Proto != want.proto {
		return vcore.Violatef("proto", "%q: proto %d want %d", c.Text, fd.Proto, want.proto)
	}
	sn, sm, err := ipnetDenote(fd.Src)
	if err != nil {
		return vcore.Violatef("src-form", "%q: src %v", c.Text, err)
	}
	if sn != want.srcNet || sm != want.srcMask {
		return vcore.Violatef("src", "%q: src %v/%v want %v/%v", c.Text, sn, sm, want.srcNet, want.srcMask)
	}
	dn, dm, err := ipnetDenote(fd.Dst)
	if err != nil {
		return vcore.Violatef("dst-form", "%q: dst %v", c.Text, err)
	}
	if dn != want.dstNet || dm != want.dstMask {
		return vcore.Violatef("dst", "%q: dst %v/%v want %v/%v", c.Text, dn, dm, want.dstNet, want.dstMask)
	}
	sp, err := parsedPorts(fd.SrcPorts)
	if err != nil || !eqPorts(sp, want.srcPorts) {
		return vcore.Violatef("src-ports", "%q: src ports %v want %v (%v)", c.Text, fd.SrcPorts, want.srcPorts, err)
	}
	dp, err := parsedPorts(fd.DstPorts)
	if err != nil || !eqPorts(dp, want.dstPorts) {
		return vcore.Violatef("dst-ports", "%q: dst ports %v want %v (%v)", c.Text, fd.DstPorts, want.dstPorts, err)
	}
	// --- packed form
	b := make([]byte, attrs.Len())
	if _, err := attrs.Encode(b); err != nil {
		return vcore.Violatef("encode", "%q: attribute encoding failed: %v", c.Text, err)
	}
	dec, err := gtp5gnl.DecodeFlowDesc(b)
	if err != nil {
		return vcore.Violatef("decode", "%q: DecodeFlowDesc: %v", c.Text, err)
	}
	w := c.Rule.denote(c.Swap)
	if dec.Action != w.action || dec.Dir != w.dir || dec.Proto != w.proto {
		return vcore.Violatef("packed-head", "%q swap=%v: action/dir/proto %d/%d/%d want %d/%d/%d", c.Text, c.Swap, dec.Action, dec.Dir, dec.Proto, w.action, w.dir, w.proto)
	}
	if len(dec.Src.IP) != 4 || len(dec.Src.Mask) != 4 || len(dec.Dst.IP) != 4 || len(dec.Dst.Mask) != 4 {
		return vcore.Violatef("packed-missing", "%q: an address or mask attribute is missing", c.Text)
	}
	if first4(dec.Src.IP) != w.srcNet || mask4(dec.Src.Mask) != w.srcMask {
		return vcore.Violatef("packed-src", "%q swap=%v: packed src %v/%v want %v/%v", c.Text, c.Swap, dec.Src.IP, dec.Src.Mask, w.srcNet, w.srcMask)
	}
	if first4(dec.Dst.IP) != w.dstNet || mask4(dec.Dst.Mask) != w.dstMask {
		return vcore.Violatef("packed-dst", "%q swap=%v: packed dst %v/%v want %v/%v", c.Text, c.Swap, dec.Dst.IP, dec.Dst.Mask, w.dstNet, w.dstMask)
	}
	psp, err := parsedPorts(dec.SrcPorts)
	if err != nil || !eqPorts(psp, w.srcPorts) {
		return vcore.Violatef("packed-src-ports", "%q swap=%v: packed src ports %v want %v", c.Text, c.Swap, dec.SrcPorts, w.srcPorts)
	}
	pdp, err := parsedPorts(dec.DstPorts)
	if err != nil || !eqPorts(pdp, w.dstPorts) {
		return vcore.Violatef("packed-dst-ports", "%q swap=%v: packed dst ports %v want %v", c.Text, c.Swap, dec.DstPorts, w.dstPorts)
	}
	return nil
}

func account(c Case) {
	vcore.E.Eval()
	if !c.Valid {
		vcore.E.Class("negative")
		return
	}
	vcore.E.Class("grammar")
	r := c.Rule
	hasRange := false
	for _, p := range append(append([]PortItem{}, r.SrcPorts...), r.DstPorts...) {
		if p.Range {
			hasRange = true
		}
	}
	midPrefix := (r.Src.Kind == "prefix" && r.Src.Prefix != 0 && r.Src.Prefix != 32) || (r.Dst.Kind == "prefix" && r.Dst.Prefix != 0 && r.Dst.Prefix != 32)
	if hasRange {
		vcore.E.Class("has_range")
	}
	if midPrefix {
		vcore.E.Class("mid_prefix")
	}
	if c.Swap {
		vcore.E.Class("swap")
	}
	if len(r.Seps) > 0 {
		vcore.E.Class("odd_spacing")
	}
	if hasRange && midPrefix && c.Swap {
		vcore.E.NonTrivial(vcore.FP(strings.Join(r.tokens(), " "), c.Swap))
		vcore.E.Sample("nontrivial", map[string]any{"text": c.Text, "swap": c.Swap})
	}
}

func TestC16(t *testing.T) {
	files, explicit := vcore.ReplayFiles()
	for _, f := range files {
		var c Case
		if err := vcore.LoadReplayCase(f, &c); err != nil {
			t.Fatalf("replay %s: %v", f, err)
		}
		vcore.E.Class("replayed")
		account(c)
		vcore.Report(t, check(c), c)
	}
	if explicit {
		return
	}
	// the repository's own examples first (seed corpus)
	for _, s := range []string{
		"permit out ip from any to assigned",
		"permit out ip from 10.20.30.40/24 to 50.60.70.80/16",
		"permit out 17 from 10.20.30.40 345,789-792,1023-1026 to 50.60.70.80",
	} {
		c := Case{Text: s}
		account(c)
		vcore.Report(t, check(c), c)
	}
	vcore.Check(t, vcore.N(20000, 300000), func(rt *rapid.T) {
		r := genRule(rt)
		c := Case{Text: r.text(), Swap: rapid.Bool().Draw(rt, "swap"), Valid: true, Rule: r}
		account(c)
		vcore.Report(rt, check(c), c)
	})
	vcore.Check(t, vcore.N(20000, 300000), func(rt *rapid.T) {
		var c Case
		if rapid.IntRange(0, 3).Draw(rt, "neg") == 0 {
			c = Case{Text: rapid.OneOf(rapid.String(), rapid.StringMatching(`[ a-z0-9./,\-]{0,60}`)).Draw(rt, "raw"), Swap: rapid.Bool().Draw(rt, "swap")}
			vcore.E.Class("raw_string")
		} else {
			r := genRule(rt)
			c = Case{Text: mutate(rt, r), Swap: rapid.Bool().Draw(rt, "swap")}
			vcore.E.Class("near_miss")
			vcore.E.Sample("near-miss", map[string]any{"text": c.Text, "swap": c.Swap})
		}
		account(c)
		vcore.Report(rt, check(c), c)
	})
}
