//go:build verif

package c16

import (
	"fmt"
	"net"
	"strings"
	"testing"

	"pgregory.net/rapid"

	"github.com/free5gc/go-gtp5gnl"
	"github.com/free5gc/go-upf/internal/forwarder"
	"github.com/free5gc/go-upf/internal/verif/flowgen"
	"github.com/free5gc/go-upf/internal/verif/vcore"
)

func TestMain(m *testing.M) {
	vcore.Init("C16", "exploration",
		"grammar-generated IPFilterRule strings (permit in|out, ip|0..255, any|assigned|host|prefix/0..32, 0..8 port items with singles and ranges, arbitrary blank/tab spacing) "+
			"checked against an independent reference parser and through newFlowDesc + gtp5gnl.DecodeFlowDesc with and without uplink swap; plus near-miss mutations and arbitrary strings that must be rejected or handled without a fault. "+
			"plus PDIs (Source Interface 0-3, 1-3 filters, optional F-TEID / UE address, members in a drawn order) through the real newPdi, which decides the exchange. "+
			"non-trivial = a port list containing a range AND a prefix length not in {0,32} AND swap=true (distinct by canonical rule text + swap), or a PDI whose SDF Filter stands before its Source Interface with a filter that differs from its mirror image",
		"reference parser written from the property statement (RFC 6733 IPFilterRule subset), not from flowdesc.go",
		"any/assigned denote 0.0.0.0/0; ports are compared as ranges (n == n-n)",
		"near-miss strings accepted by both parsers are not compared field by field: the statement only demands rejection or fault-free handling")
	vcore.Main(m)
}

type Case struct {
	Text string `json:"text"`
	Swap bool   `json:"swap"`
	// Valid says the text was produced by the grammar (Rule is its meaning).
	Valid bool          `json:"valid"`
	Rule  *flowgen.Rule `json:"rule,omitempty"`
	// PDI, when set, is a case of the "filter inside a PDI" part (pdi_test.go).
	PDI *PCase `json:"pdi,omitempty"`
}

// ---------------------------------------------------------------- oracle

func ipnetDenote(n *net.IPNet) (ip, mask [4]byte, err error) {
	if n == nil {
		return ip, mask, fmt.Errorf("nil network")
	}
	ones, bits := n.Mask.Size()
	switch {
	case len(n.IP) == 4 && bits == 32:
		copy(ip[:], n.IP)
		copy(mask[:], n.Mask)
	case len(n.IP) == 16 && bits == 128 && ones == 0 && n.IP.IsUnspecified():
		// "any": the zero network of whatever family
	case len(n.IP) == 16 && bits == 32 && n.IP.To4() != nil:
		copy(ip[:], n.IP.To4())
		copy(mask[:], n.Mask)
	default:
		return ip, mask, fmt.Errorf("unexpected network form ip=%v mask=%v", n.IP, n.Mask)
	}
	return
}

func parsedPorts(ps [][]uint16) ([][2]uint16, error) {
	var out [][2]uint16
	for _, p := range ps {
		switch len(p) {
		case 1:
			out = append(out, [2]uint16{p[0], p[0]})
		case 2:
			out = append(out, [2]uint16{p[0], p[1]})
		default:
			return nil, fmt.Errorf("port item with %d values", len(p))
		}
	}
	return out, nil
}

func eqPorts(a, b [][2]uint16) bool {
	if len(a) != len(b) {
		return false
	}
	for i := range a {
		if a[i] != b[i] {
			return false
		}
	}
	return true
}

func first4(ip net.IP) (o [4]byte)   { copy(o[:], ip); return }
func mask4(m net.IPMask) (o [4]byte) { copy(o[:], m); return }

func check(c Case) (v *vcore.Violation) {
	defer func() {
		if p := recover(); p != nil {
			v = vcore.Violatef("panic", "panic on %q (swap=%v): %v", c.Text, c.Swap, p)
		}
	}()
	fd, perr := forwarder.ParseFlowDesc(c.Text)
	attrs, aerr := forwarder.VerifNewFlowDesc(c.Text, c.Swap)
	if (perr == nil) != (aerr == nil) && c.Valid {
		return vcore.Violatef("parse-vs-encode", "%q: ParseFlowDesc err=%v, newFlowDesc err=%v", c.Text, perr, aerr)
	}
	if !c.Valid {
		if perr == nil && fd == nil {
			return vcore.Violatef("nil-nil", "%q: nil result and nil error", c.Text)
		}
		if aerr == nil {
			// whatever was accepted must encode and decode without a fault
			b := make([]byte, attrs.Len())
			if _, err := attrs.Encode(b); err != nil {
				return vcore.Violatef("encode", "%q: attribute encoding failed: %v", c.Text, err)
			}
			_, _ = gtp5gnl.DecodeFlowDesc(b)
		}
		return nil
	}
	if perr != nil {
		return vcore.Violatef("reject-valid", "valid rule %q rejected: %v", c.Text, perr)
	}
	want := c.Rule.Denote(false)
	// --- ParseFlowDesc result
	if fd.Action != "permit" {
		return vcore.Violatef("action", "%q: action %q", c.Text, fd.Action)
	}
	if fd.Dir != c.Rule.Dir {
		return vcore.Violatef("dir", "%q: dir %q", c.Text, fd.Dir)
	}
	if fd.Proto != want.Proto {
		return vcore.Violatef("proto", "%q: proto %d want %d", c.Text, fd.Proto, want.Proto)
	}
	sn, sm, err := ipnetDenote(fd.Src)
	if err != nil {
		return vcore.Violatef("src-form", "%q: src %v", c.Text, err)
	}
	if sn != want.SrcNet || sm != want.SrcMask {
		return vcore.Violatef("src", "%q: src %v/%v want %v/%v", c.Text, sn, sm, want.SrcNet, want.SrcMask)
	}
	dn, dm, err := ipnetDenote(fd.Dst)
	if err != nil {
		return vcore.Violatef("dst-form", "%q: dst %v", c.Text, err)
	}
	if dn != want.DstNet || dm != want.DstMask {
		return vcore.Violatef("dst", "%q: dst %v/%v want %v/%v", c.Text, dn, dm, want.DstNet, want.DstMask)
	}
	sp, err := parsedPorts(fd.SrcPorts)
	if err != nil || !eqPorts(sp, want.SrcPorts) {
		return vcore.Violatef("src-ports", "%q: src ports %v want %v (%v)", c.Text, fd.SrcPorts, want.SrcPorts, err)
	}
	dp, err := parsedPorts(fd.DstPorts)
	if err != nil || !eqPorts(dp, want.DstPorts) {
		return vcore.Violatef("dst-ports", "%q: dst ports %v want %v (%v)", c.Text, fd.DstPorts, want.DstPorts, err)
	}
	// --- packed form
	b := make([]byte, attrs.Len())
	if _, err := attrs.Encode(b); err != nil {
		return vcore.Violatef("encode", "%q: attribute encoding failed: %v", c.Text, err)
	}
	dec, err := gtp5gnl.DecodeFlowDesc(b)
	if err != nil {
		return vcore.Violatef("decode", "%q: DecodeFlowDesc: %v", c.Text, err)
	}
	w := c.Rule.Denote(c.Swap)
	if dec.Action != w.Action || dec.Dir != w.Dir || dec.Proto != w.Proto {
		return vcore.Violatef("packed-head", "%q swap=%v: action/dir/proto %d/%d/%d want %d/%d/%d", c.Text, c.Swap, dec.Action, dec.Dir, dec.Proto, w.Action, w.Dir, w.Proto)
	}
	if len(dec.Src.IP) != 4 || len(dec.Src.Mask) != 4 || len(dec.Dst.IP) != 4 || len(dec.Dst.Mask) != 4 {
		return vcore.Violatef("packed-missing", "%q: an address or mask attribute is missing", c.Text)
	}
	if first4(dec.Src.IP) != w.SrcNet || mask4(dec.Src.Mask) != w.SrcMask {
		return vcore.Violatef("packed-src", "%q swap=%v: packed src %v/%v want %v/%v", c.Text, c.Swap, dec.Src.IP, dec.Src.Mask, w.SrcNet, w.SrcMask)
	}
	if first4(dec.Dst.IP) != w.DstNet || mask4(dec.Dst.Mask) != w.DstMask {
		return vcore.Violatef("packed-dst", "%q swap=%v: packed dst %v/%v want %v/%v", c.Text, c.Swap, dec.Dst.IP, dec.Dst.Mask, w.DstNet, w.DstMask)
	}
	psp, err := parsedPorts(dec.SrcPorts)
	if err != nil || !eqPorts(psp, w.SrcPorts) {
		return vcore.Violatef("packed-src-ports", "%q swap=%v: packed src ports %v want %v", c.Text, c.Swap, dec.SrcPorts, w.SrcPorts)
	}
	pdp, err := parsedPorts(dec.DstPorts)
	if err != nil || !eqPorts(pdp, w.DstPorts) {
		return vcore.Violatef("packed-dst-ports", "%q swap=%v: packed dst ports %v want %v", c.Text, c.Swap, dec.DstPorts, w.DstPorts)
	}
	return nil
}

func account(c Case) {
	vcore.E.Eval()
	if !c.Valid {
		vcore.E.Class("negative")
		return
	}
	vcore.E.Class("grammar")
	r := c.Rule
	hasRange := false
	for _, p := range append(append([]flowgen.PortItem{}, r.SrcPorts...), r.DstPorts...) {
		if p.Range {
			hasRange = true
		}
	}
	midPrefix := (r.Src.Kind == "prefix" && r.Src.Prefix != 0 && r.Src.Prefix != 32) || (r.Dst.Kind == "prefix" && r.Dst.Prefix != 0 && r.Dst.Prefix != 32)
	if hasRange {
		vcore.E.Class("has_range")
	}
	if midPrefix {
		vcore.E.Class("mid_prefix")
	}
	if c.Swap {
		vcore.E.Class("swap")
	}
	if len(r.Seps) > 0 {
		vcore.E.Class("odd_spacing")
	}
	if hasRange && midPrefix && c.Swap {
		vcore.E.NonTrivial(vcore.FP(strings.Join(r.Tokens(), " "), c.Swap))
		vcore.E.Sample("nontrivial", map[string]any{"text": c.Text, "swap": c.Swap})
	}
}

func TestC16(t *testing.T) {
	files, explicit := vcore.ReplayFiles()
	for _, f := range files {
		var c Case
		if err := vcore.LoadReplayCase(f, &c); err != nil {
			t.Fatalf("replay %s: %v", f, err)
		}
		vcore.E.Class("replayed")
		if c.PDI != nil {
			accountPDI(*c.PDI)
			vcore.Report(t, checkPDI(*c.PDI), c)
			continue
		}
		account(c)
		vcore.Report(t, check(c), c)
	}
	if explicit {
		return
	}
	// the repository's own examples first (seed corpus)
	for _, s := range []string{
		"permit out ip from any to assigned",
		"permit out ip from 10.20.30.40/24 to 50.60.70.80/16",
		"permit out 17 from 10.20.30.40 345,789-792,1023-1026 to 50.60.70.80",
	} {
		c := Case{Text: s}
		account(c)
		vcore.Report(t, check(c), c)
	}
	vcore.Check(t, vcore.N(20000, 300000), func(rt *rapid.T) {
		r := flowgen.GenRule(rt)
		c := Case{Text: r.Text(), Swap: rapid.Bool().Draw(rt, "swap"), Valid: true, Rule: r}
		account(c)
		vcore.Report(rt, check(c), c)
	})
	// the filter inside a PDI: newPdi decides the exchange from the Source Interface member, wherever it stands
	for _, srcIf := range []uint8{0, 1, 2, 3} {
		for _, ord := range [][]int{nil, {0}, {1, 0}} {
			r := &flowgen.Rule{Dir: "out", Proto: 17, Src: flowgen.Addr{Kind: "prefix", IP: [4]byte{10, 20, 30, 40}, Prefix: 24}, SrcPorts: []flowgen.PortItem{{Lo: 345, Hi: 345}, {Range: true, Lo: 789, Hi: 792}},
				Dst: flowgen.Addr{Kind: "host", IP: [4]byte{50, 60, 70, 80}}}
			pc := PCase{SrcIf: srcIf, Rules: []*flowgen.Rule{r}, UEIP: true, Order: ord}
			accountPDI(pc)
			vcore.Report(t, checkPDI(pc), Case{PDI: &pc})
		}
	}
	vcore.Check(t, vcore.N(6000, 90000), func(rt *rapid.T) {
		pc := genPDI(rt)
		accountPDI(pc)
		vcore.Report(rt, checkPDI(pc), Case{PDI: &pc})
	})
	vcore.Check(t, vcore.N(20000, 300000), func(rt *rapid.T) {
		var c Case
		if rapid.IntRange(0, 3).Draw(rt, "neg") == 0 {
			c = Case{Text: rapid.OneOf(rapid.String(), rapid.StringMatching(`[ a-z0-9./,\-]{0,60}`)).Draw(rt, "raw"), Swap: rapid.Bool().Draw(rt, "swap")}
			vcore.E.Class("raw_string")
		} else {
			r := flowgen.GenRule(rt)
			c = Case{Text: flowgen.Mutate(rt, r), Swap: rapid.Bool().Draw(rt, "swap")}
			vcore.E.Class("near_miss")
			vcore.E.Sample("near-miss", map[string]any{"text": c.Text, "swap": c.Swap})
		}
		account(c)
		vcore.Report(rt, check(c), c)
	})
}
