//go:build verif

package c16

import (
	"testing"

	"github.com/free5gc/go-gtp5gnl"
	"github.com/free5gc/go-upf/internal/forwarder"
	"github.com/free5gc/go-upf/internal/verif/vcore"
)

// FuzzC16 is the coverage-guided part of the thorough tier: arbitrary strings
// must be rejected or handled without a fault, and whatever ParseFlowDesc
// accepts must survive the packed form: decode(newFlowDesc(s, swap)) denotes
// the filter ParseFlowDesc returned (exchanged when swap).
func FuzzC16(f *testing.F) {
	for _, s := range []string{
		"permit out ip from any to assigned",
		"permit out ip from 10.20.30.40/24 to 50.60.70.80/16",
		"permit out 17 from 10.20.30.40 345,789-792,1023-1026 to 50.60.70.80",
		"permit in 6 from 1.2.3.4/32 0-65535 to any 80",
		"permit in ip from assigned to 0.0.0.0/0 1,2,3,4,5,6,7,8",
		"deny out ip from any to any", "permit out ip from ::1 to any", "permit out 256 from any to any",
		"permit out ip from 1.2.3.4/33 to any", "permit out ip from any 65536 to any", "permit out ip from any 9-1 to any",
	} {
		f.Add(s, false)
		f.Add(s, true)
	}
	f.Fuzz(func(t *testing.T, s string, swap bool) {
		c := Case{Text: s, Swap: swap}
		if v := check(c); v != nil {
			vcore.Report(t, v, c)
		}
		fd, err := forwarder.ParseFlowDesc(s)
		if err != nil {
			return
		}
		attrs, aerr := forwarder.VerifNewFlowDesc(s, swap)
		if aerr != nil {
			vcore.Report(t, vcore.Violatef("parse-vs-encode", "%q parses but cannot be packed: %v", s, aerr), c)
			return
		}
		b := make([]byte, attrs.Len())
		if _, err := attrs.Encode(b); err != nil {
			vcore.Report(t, vcore.Violatef("encode", "%q: %v", s, err), c)
			return
		}
		dec, err := gtp5gnl.DecodeFlowDesc(b)
		if err != nil {
			vcore.Report(t, vcore.Violatef("decode", "%q: %v", s, err), c)
			return
		}
		sn, sm, e1 := ipnetDenote(fd.Src)
		dn, dm, e2 := ipnetDenote(fd.Dst)
		if e1 != nil || e2 != nil {
			return // IPv6 and other forms outside the supported grammar: only fault-freedom is required
		}
		sp, e3 := parsedPorts(fd.SrcPorts)
		dp, e4 := parsedPorts(fd.DstPorts)
		if e3 != nil || e4 != nil {
			return
		}
		if swap {
			sn, dn, sm, dm, sp, dp = dn, sn, dm, sm, dp, sp
		}
		gsp, _ := parsedPorts(dec.SrcPorts)
		gdp, _ := parsedPorts(dec.DstPorts)
		if dec.Proto != fd.Proto || first4(dec.Src.IP) != sn || mask4(dec.Src.Mask) != sm || first4(dec.Dst.IP) != dn || mask4(dec.Dst.Mask) != dm || !eqPorts(gsp, sp) || !eqPorts(gdp, dp) {
			vcore.Report(t, vcore.Violatef("packed-differs-from-parsed", "%q swap=%v: packed form decodes to %+v, ParseFlowDesc gave %+v", s, swap, dec, fd), c)
		}
	})
}
