//go:build verif

package c16

import (
	"fmt"
	"net"
	"sort"

	"github.com/khirono/go-nl"
	"github.com/wmnsk/go-pfcp/ie"
	"pgregory.net/rapid"

	"github.com/free5gc/go-gtp5gnl"
	"github.com/free5gc/go-upf/internal/forwarder"
	"github.com/free5gc/go-upf/internal/verif/flowgen"
	"github.com/free5gc/go-upf/internal/verif/vcore"
)

// ---------------------------------------------------------------- the filter inside a PDI
//
// "with source and destination exchanged for uplink PDRs": whether a PDR is an
// uplink one is said by the Source Interface member of the same PDI, and the
// members of a grouped IE come in any order.  The parts above hand the swap
// flag to newFlowDesc themselves; here the real newPdi decides it.  A PDI is
// generated with a drawn Source Interface, 1-3 SDF filters from the grammar,
// optional F-TEID / UE address members, in a drawn member order, marshalled and
// parsed back as it comes off the wire.
//
// Oracle: the multiset of flow descriptions packed for the data plane equals
// the denotation of each filter, exchanged iff Source Interface = Access (0).

type PCase struct {
	SrcIf uint8           `json:"src_if"`
	Rules []*flowgen.Rule `json:"rules"`
	FTEID bool            `json:"fteid"`
	UEIP  bool            `json:"ueip"`
	Order []int           `json:"order"` // Fisher-Yates draws for the member order
}

func (c PCase) ie() (*ie.IE, []string) {
	ms := []*ie.IE{ie.NewSourceInterface(c.SrcIf)}
	names := []string{"SourceInterface"}
	if c.FTEID {
		ms = append(ms, ie.NewFTEID(0x01, 0x1234, net.ParseIP("10.0.0.1"), nil, 0))
		names = append(names, "F-TEID")
	}
	if c.UEIP {
		ms = append(ms, ie.NewUEIPAddress(0x02, "10.60.0.1", "", 0, 0))
		names = append(names, "UEIP")
	}
	for i, r := range c.Rules {
		ms = append(ms, ie.NewSDFFilter(r.Text(), "", "", "", 0))
		names = append(names, fmt.Sprintf("SDF%d", i))
	}
	for i := len(ms) - 1; i > 0; i-- {
		j := i
		if len(c.Order) > 0 {
			j = c.Order[i%len(c.Order)] % (i + 1)
		}
		ms[i], ms[j] = ms[j], ms[i]
		names[i], names[j] = names[j], names[i]
	}
	return ie.NewPDI(ms...), names
}

func renderFilter(f flowgen.Filter) string {
	return fmt.Sprintf("act=%d dir=%d proto=%d src=%v/%v%v dst=%v/%v%v", f.Action, f.Dir, f.Proto, f.SrcNet, f.SrcMask, f.SrcPorts, f.DstNet, f.DstMask, f.DstPorts)
}

func checkPDI(c PCase) (v *vcore.Violation) {
	pdi, names := c.ie()
	defer func() {
		if p := recover(); p != nil {
			v = vcore.Violatef("panic", "panic in newPdi (members %v): %v", names, p)
		}
	}()
	b, err := pdi.Marshal()
	if err != nil {
		panic("harness: " + err.Error())
	}
	wire, err := ie.Parse(b)
	if err != nil {
		panic("harness: " + err.Error())
	}
	attrs, err := forwarder.VerifNewPdi(wire)
	if err != nil {
		return vcore.Violatef("pdi-rejected", "PDI with members %v rejected: %v", names, err)
	}
	var got []string
	for _, a := range attrs {
		if a.Type != gtp5gnl.PDI_SDF_FILTER {
			continue
		}
		sub, ok := a.Value.(nl.AttrList)
		if !ok {
			return vcore.Violatef("pdi-form", "PDI_SDF_FILTER value is a %T", a.Value)
		}
		for _, x := range sub {
			if x.Type != gtp5gnl.SDF_FILTER_FLOW_DESCRIPTION {
				continue
			}
			eb := make([]byte, x.Value.Len())
			if _, err := x.Value.Encode(eb); err != nil {
				return vcore.Violatef("encode", "flow description attribute does not encode: %v", err)
			}
			dec, err := gtp5gnl.DecodeFlowDesc(eb)
			if err != nil {
				return vcore.Violatef("decode", "DecodeFlowDesc: %v", err)
			}
			if len(dec.Src.IP) != 4 || len(dec.Src.Mask) != 4 || len(dec.Dst.IP) != 4 || len(dec.Dst.Mask) != 4 {
				return vcore.Violatef("packed-missing", "PDI members %v: an address or mask attribute is missing", names)
			}
			sp, e1 := parsedPorts(dec.SrcPorts)
			dp, e2 := parsedPorts(dec.DstPorts)
			if e1 != nil || e2 != nil {
				return vcore.Violatef("packed-ports", "PDI members %v: port words %v %v", names, dec.SrcPorts, dec.DstPorts)
			}
			got = append(got, renderFilter(flowgen.Filter{Action: dec.Action, Dir: dec.Dir, Proto: dec.Proto,
				SrcNet: first4(dec.Src.IP), SrcMask: mask4(dec.Src.Mask), DstNet: first4(dec.Dst.IP), DstMask: mask4(dec.Dst.Mask), SrcPorts: sp, DstPorts: dp}))
		}
	}
	var want []string
	for _, r := range c.Rules {
		w := r.Denote(c.SrcIf == ie.SrcInterfaceAccess)
		w.SrcPorts, w.DstPorts = norm(w.SrcPorts), norm(w.DstPorts)
		want = append(want, renderFilter(w))
	}
	sort.Strings(got)
	sort.Strings(want)
	if fmt.Sprint(got) != fmt.Sprint(want) {
		return vcore.Violatef("pdi-filter", "PDI with Source Interface %d, members in order %v: flow descriptions %q reach the data plane as %v, they denote %v (exchanged iff uplink)",
			c.SrcIf, names, texts(c.Rules), got, want)
	}
	return nil
}

func norm(p [][2]uint16) [][2]uint16 {
	if len(p) == 0 {
		return nil
	}
	return p
}

func texts(rs []*flowgen.Rule) []string {
	var o []string
	for _, r := range rs {
		o = append(o, r.Text())
	}
	return o
}

func genPDI(t *rapid.T) PCase {
	c := PCase{SrcIf: rapid.SampledFrom([]uint8{0, 0, 1, 1, 2, 3}).Draw(t, "srcif"), FTEID: rapid.Bool().Draw(t, "fteid"), UEIP: rapid.Bool().Draw(t, "ueip")}
	n := rapid.IntRange(1, 3).Draw(t, "n")
	for i := 0; i < n; i++ {
		c.Rules = append(c.Rules, flowgen.GenRule(t))
	}
	if rapid.IntRange(0, 3).Draw(t, "permute") != 0 {
		c.Order = rapid.SliceOfN(rapid.IntRange(0, 7), 1, 6).Draw(t, "order")
	}
	return c
}

func accountPDI(c PCase) {
	vcore.E.Eval()
	vcore.E.Class("in_pdi")
	_, names := c.ie()
	sdfFirst := false
	for _, n := range names {
		if n == "SourceInterface" {
			break
		}
		if len(n) > 3 && n[:3] == "SDF" {
			sdfFirst = true
		}
	}
	asym := false
	for _, r := range c.Rules {
		a, b := r.Denote(false), r.Denote(true)
		if renderFilter(a) != renderFilter(b) {
			asym = true
		}
	}
	if sdfFirst {
		vcore.E.Class("in_pdi:sdf_filter_before_source_interface")
	}
	if c.SrcIf != 0 {
		vcore.E.Class("in_pdi:downlink")
	}
	if sdfFirst && asym {
		vcore.E.NonTrivial(vcore.FP("pdi", c.SrcIf, names, texts(c.Rules)))
		if c.SrcIf != 0 {
			vcore.E.Sample("in-pdi", map[string]any{"src_if": c.SrcIf, "members": names, "rules": texts(c.Rules)})
		}
	}
}
