//go:build verif

package c06

import (
	"bytes"
	"fmt"
	"reflect"
	"testing"

	"github.com/wmnsk/go-pfcp/ie"
	"github.com/wmnsk/go-pfcp/message"
	"pgregory.net/rapid"

	"github.com/free5gc/go-upf/internal/verif/rxwindow"
	"github.com/free5gc/go-upf/internal/verif/stack"
	"github.com/free5gc/go-upf/internal/verif/vcore"
)

func TestMain(m *testing.M) {
	vcore.Init("C06", "exploration",
		"events Send(peer, seq, kind) - first copy or byte-identical duplicate, decided by the model - and ExpireRx(peer, seq) for existing and non-existing transactions; peers = two node sockets and a second source port on the first node's address; "+
			"sequence numbers {1,2,3,0,2^24-1}; kinds Heartbeat, Association Setup, Establishment, Establishment without Node ID (never answered), Modification (live / unknown SEID), Deletion. "+
			"Exhaustive part: every sequence up to depth 3 (quick) / 4 (thorough) over a 12-letter alphabet (2 peers x 2 seqs x {Heartbeat, Establishment} + 4 expiries), each on a fresh server; random part: histories up to 40 events over the full alphabet. "+
			"Oracle: model map (addr,seq) -> answer bytes; a duplicate inside the window returns a byte-identical datagram (or nothing), causes no data-plane call and leaves the server snapshot unchanged; a request differing in address or sequence number is executed; "+
			"after ExpireRx the entry is gone, the key is executed again, and after expiring everything the receive-transaction table is empty. "+
			"Requests of the UPF's own (Session Report Requests go to port 8805 of the node, where the node's requests come from, and both sides count from small numbers) are sent, answered and abandoned under sequence numbers that retained requests of that node carry: the window must not notice. "+
			"non-trivial = (duplicate of a state-changing request and a request from another address with the same sequence number) or (an expiry followed by reuse of the key) or (a request of the UPF's own completed or abandoned under a retained key, and a duplicate); distinct by history",
		"in the model-based histories retention-timer expiry is injected through the public NotifyTransTimeout entry point and real timers are configured an hour ahead; "+
			"part (b) uses the real window (20-180 ms): histories of answered and never-answered requests (Establishment for an unassociated node or without F-SEID, Association Update / Release, PFD Management), then more than the window of silence, then a Heartbeat Request re-using every earlier (address, sequence number): each must be executed (Heartbeat Response with that number; repeated every 300 ms, 10 s allowed)",
		"a different request reusing a live (address, sequence) key is not generated: the statement speaks of the request 'received again'")
	vcore.Main(m)
}

// Ev is one event. Kind: hb assoc est estbad mod modunk del expire
type Ev struct {
	Kind string `json:"kind"`
	Peer int    `json:"peer"` // socket reference: 0, 1, 100
	Seq  uint32 `json:"seq"`
}

type Case struct {
	Evs []Ev `json:"evs"`
}

type key struct {
	peer int
	seq  uint32
}

type entry struct {
	req    []byte
	answer []byte // nil: none produced
	state  bool   // state-changing request
}

type stats struct {
	dupState, foreignSameSeq, expireReuse bool
	dups, firsts, expiries                int
	ownReqs                               int
	ownSameKey, ownDoneInWindow           bool // a request of the UPF's own shared (address, sequence number) with a retained one / was completed while that one was retained
}

func nodeOf(peer int) int {
	if peer >= 100 {
		return 0
	}
	return peer
}

func run(c Case) (v *vcore.Violation, stt stats) {
	d := stack.NewModelDriver()
	st, err := stack.New(stack.Opts{Driver: d, Nodes: 2, Extra: 1})
	if err != nil {
		panic(fmt.Sprintf("infrastructure: %v", err))
	}
	defer func() {
		if cerr := st.Close(); cerr != nil && v == nil {
			v = vcore.Violatef("stop-hang", "%v", cerr)
		}
		if st.Dead != nil && v == nil {
			v = vcore.Violatef(st.Dead.Key, "UPF fatal exit: %.600s", st.Dead.Msg)
		}
	}()
	r := stack.NewRunner(st, d)
	window := map[key]*entry{}
	expired := map[key]bool{}
	seqSeenBy := map[uint32]map[int]bool{}
	lastSess := map[int]uint64{}   // per node: UP SEID of the latest live session
	ownOut := map[key]*stack.SRR{} // the UPF's own outstanding requests, by (node, sequence number)
	farID := uint32(0)
	cp := uint64(0x100)
	probeAddr := st.Probe.Addr.String()

	rxKeys := func() map[string]string {
		out := map[string]string{}
		for id, e := range st.Srv.VerifRxTable() {
			if e.Addr == probeAddr {
				continue
			}
			out[fmt.Sprintf("%s-%d", e.Addr, e.Seq)] = id
		}
		return out
	}
	addrOf := func(peer int) string { return st.Sock(peer).Addr.String() }

	for i, ev := range c.Evs {
		k := key{ev.Peer, ev.Seq}
		if ev.Kind == "expire" {
			stt.expiries++
			id, exists := rxKeys()[fmt.Sprintf("%s-%d", addrOf(ev.Peer), ev.Seq)]
			_, inModel := window[k]
			if exists != inModel {
				return vcore.Violatef("rx-table-vs-model", "event %d: transaction (%s,%d) in server table: %v, in model window: %v", i, addrOf(ev.Peer), ev.Seq, exists, inModel), stt
			}
			trID := id
			if !exists {
				trID = fmt.Sprintf("%s-%d", addrOf(ev.Peer), ev.Seq) // unknown transaction
			}
			snapB := st.Srv.VerifSnapshot()
			o := r.Step(stack.Op{Kind: "expire_rx", TrID: trID})
			if o.Dead != nil {
				return vcore.Violatef(o.Dead.Key, "event %d: expiry: UPF fatal exit: %.400s", i, o.Dead.Msg), stt
			}
			if len(o.Rx) != 0 || len(o.Calls) != 0 {
				return vcore.Violatef("expire-side-effect", "event %d: expiry caused datagrams %d / calls %d", i, len(o.Rx), len(o.Calls)), stt
			}
			if !reflect.DeepEqual(snapB, st.Srv.VerifSnapshot()) {
				return vcore.Violatef("expire-changed-state", "event %d: expiry changed session state", i), stt
			}
			if _, still := rxKeys()[fmt.Sprintf("%s-%d", addrOf(ev.Peer), ev.Seq)]; still {
				return vcore.Violatef("not-released", "event %d: transaction (%s,%d) still in the table after its retention timer expired", i, addrOf(ev.Peer), ev.Seq), stt
			}
			if inModel {
				delete(window, k)
				expired[k] = true
			}
			continue
		}
		if ev.Kind == "srr" || ev.Kind == "srsp" || ev.Kind == "srgiveup" {
			// the UPF's own transactions live in a table of their own, although both tables are keyed "<address>-<sequence number>":
			// the UPF sends its Session Report Requests to port 8805 of the node, where the node's requests come from, and both
			// sides count from small numbers.  Sending, completing or abandoning such a request must leave the window alone.
			if ev.Peer >= 100 {
				continue
			}
			nd := ev.Peer
			switch ev.Kind {
			case "srr":
				if lastSess[nd] == 0 || ownOut[k] != nil {
					continue
				}
				st.Srv.VerifSetTxSeq(ev.Seq) // the loop is idle (barrier passed)
				o := r.Step(stack.Op{Kind: "report", Sess: -1, Raw: lastSess[nd], DLDR: true, PDR: 1, Action: 0x08})
				if o.Dead != nil {
					return vcore.Violatef(o.Dead.Key, "event %d: report: UPF fatal exit: %.400s", i, o.Dead.Msg), stt
				}
				if len(o.SRRs) != 1 || o.SRRs[0].Sock != nd || o.SRRs[0].Seq != ev.Seq {
					return vcore.Violatef("own-request", "event %d: a downlink data notification for session %#x of node %d produced %d Session Report Request(s) (want 1 to the node, sequence %d)", i, lastSess[nd], nd, len(o.SRRs), ev.Seq), stt
				}
				srr := o.SRRs[0]
				ownOut[k] = &srr
				stt.ownReqs++
				if window[k] != nil {
					stt.ownSameKey = true
				}
			case "srsp":
				srr := ownOut[k]
				if srr == nil {
					continue
				}
				delete(ownOut, k)
				r.Pending[nd] = nil
				rsp := message.NewSessionReportResponse(0, 0, lastSess[nd]|1, ev.Seq, 0, ie.NewCause(ie.CauseRequestAccepted))
				o := r.SendRaw(nd, stack.Marshal(rsp))
				if o.Dead != nil {
					return vcore.Violatef(o.Dead.Key, "event %d: Session Report Response: UPF fatal exit: %.400s", i, o.Dead.Msg), stt
				}
				if len(o.Rx) != 0 {
					return vcore.Violatef("response-answered", "event %d: a Session Report Response caused datagrams", i), stt
				}
				if window[k] != nil {
					stt.ownDoneInWindow = true
				}
			case "srgiveup":
				if ownOut[k] == nil {
					continue
				}
				delete(ownOut, k)
				for n := 0; n < 8; n++ {
					id := ""
					for tid, e := range st.Srv.VerifTxTable() {
						if e.Addr == addrOf(nd) && e.Seq == ev.Seq {
							id = tid
						}
					}
					if id == "" {
						break
					}
					if o := r.Step(stack.Op{Kind: "expire_tx", TrID: id}); o.Dead != nil {
						return vcore.Violatef(o.Dead.Key, "event %d: expiry of the UPF's own request: UPF fatal exit: %.400s", i, o.Dead.Msg), stt
					}
					r.Pending[nd] = nil
				}
				if window[k] != nil {
					stt.ownDoneInWindow = true
				}
			}
			// black box check follows with the next duplicate; the table is looked at as well
			keys := rxKeys()
			for wk := range window {
				if _, ok := keys[fmt.Sprintf("%s-%d", addrOf(wk.peer), wk.seq)]; !ok {
					return vcore.Violatef("retention-lost", "event %d (%s, UPF's own request to %s with sequence number %d): the receive transaction (%s,%d) is gone from the table before its retention window ended",
						i, ev.Kind, addrOf(nd), ev.Seq, addrOf(wk.peer), wk.seq), stt
				}
			}
			continue
		}
		// ---- a send
		if e := window[k]; e != nil {
			// duplicate: byte-identical copy of what was sent under this key
			stt.dups++
			if e.state {
				stt.dupState = true
			}
			snapB := st.Srv.VerifSnapshot()
			dpB := d.Snapshot()
			o := r.SendRaw(ev.Peer, e.req)
			if o.Dead != nil {
				return vcore.Violatef(o.Dead.Key, "event %d: duplicate: UPF fatal exit: %.400s", i, o.Dead.Msg), stt
			}
			if len(o.Calls) != 0 {
				return vcore.Violatef("dup-executed", "event %d: retransmitted request (%s,%d) caused data-plane calls %s", i, addrOf(ev.Peer), ev.Seq, vcore.JSON(o.Calls)), stt
			}
			if !reflect.DeepEqual(snapB, st.Srv.VerifSnapshot()) || !reflect.DeepEqual(dpB, d.Snapshot()) {
				return vcore.Violatef("dup-changed-state", "event %d: retransmitted request (%s,%d) changed session or data-plane state", i, addrOf(ev.Peer), ev.Seq), stt
			}
			for sock, ds := range o.Rx {
				if sock != ev.Peer {
					return vcore.Violatef("dup-answer-elsewhere", "event %d: duplicate from socket %d answered at socket %d", i, ev.Peer, sock), stt
				}
				_ = ds
			}
			got := o.Rx[ev.Peer]
			if e.answer == nil {
				if len(got) != 0 {
					return vcore.Violatef("dup-answered-without-original", "event %d: duplicate of a never-answered request got %d datagram(s)", i, len(got)), stt
				}
			} else {
				if len(got) != 1 {
					return vcore.Violatef("dup-answer-count", "event %d: duplicate (%s,%d) got %d datagrams, want exactly the cached response", i, addrOf(ev.Peer), ev.Seq, len(got)), stt
				}
				if !bytes.Equal(got[0].B, e.answer) {
					return vcore.Violatef("dup-answer-differs", "event %d: duplicate (%s,%d) answered %x, original answer %x", i, addrOf(ev.Peer), ev.Seq, got[0].B, e.answer), stt
				}
			}
			continue
		}
		// ---- first copy
		stt.firsts++
		if expired[k] {
			stt.expireReuse = true
		}
		if seqSeenBy[ev.Seq] == nil {
			seqSeenBy[ev.Seq] = map[int]bool{}
		}
		seqSeenBy[ev.Seq][ev.Peer] = true
		if len(seqSeenBy[ev.Seq]) >= 2 {
			stt.foreignSameSeq = true
		}
		nd := nodeOf(ev.Peer)
		var op stack.Op
		stateChanging := false
		wantCalls := 0
		wantAnswer := true
		switch ev.Kind {
		case "hb":
			op = stack.Op{Kind: "hb", Peer: ev.Peer, Sess: -1}
		case "assoc":
			op = stack.Op{Kind: "assoc", Peer: ev.Peer, Node: nd, Sess: -1}
			stateChanging = true
		case "est":
			cp++
			farID++
			op = stack.Op{Kind: "est", Peer: ev.Peer, Node: nd, Sess: -1, CP: cp, Rules: []stack.RuleOp{{Verb: "create", Kind: "FAR", ID: farID, Action: 2}}}
			stateChanging = true
			wantCalls = 1
		case "estbad":
			op = stack.Op{Kind: "est", Peer: ev.Peer, Node: nd, Sess: -1, CP: 0x99, NoNodeID: true}
			wantAnswer = false
		case "mod":
			farID++
			op = stack.Op{Kind: "mod", Peer: ev.Peer, Sess: -1, Raw: lastSess[nd], Rules: []stack.RuleOp{{Verb: "create", Kind: "FAR", ID: farID, Action: 2}}}
			if lastSess[nd] != 0 {
				stateChanging = true
				wantCalls = 1
			}
		case "modunk":
			op = stack.Op{Kind: "mod", Peer: ev.Peer, Sess: -1, Raw: 0xfff0}
		case "del":
			op = stack.Op{Kind: "del", Peer: ev.Peer, Sess: -1, Raw: lastSess[nd]}
			stateChanging = lastSess[nd] != 0
		default:
			panic("bad kind " + ev.Kind)
		}
		op.Seq = ev.Seq
		if ev.Seq == 0 {
			op.Seq = 0
		}
		// sequence number 0 is a legal value: Build() treats Seq==0 as "auto", so build by hand
		b, err := r.Build(op, ev.Seq)
		if err != nil {
			panic(err)
		}
		nSessB := len(st.Srv.VerifSnapshot().Sess)
		o := r.SendRaw(ev.Peer, b)
		if o.Dead != nil {
			return vcore.Violatef(o.Dead.Key, "event %d (%s): UPF fatal exit: %.400s", i, ev.Kind, o.Dead.Msg), stt
		}
		snapA := st.Srv.VerifSnapshot()
		nodeKnown := false
		for id := range snapA.Nodes {
			if id == st.NodeID(nd) {
				nodeKnown = true
			}
		}
		if ev.Kind == "est" && !nodeKnown {
			wantAnswer, wantCalls, stateChanging = false, 0, false
		}
		e := &entry{req: b, state: stateChanging}
		got := o.Rx[ev.Peer]
		for sock := range o.Rx {
			if sock != ev.Peer {
				return vcore.Violatef("answer-elsewhere", "event %d (%s): answer arrived at socket %d, request came from %d", i, ev.Kind, sock, ev.Peer), stt
			}
		}
		if wantAnswer {
			if len(got) != 1 {
				return vcore.Violatef("first-copy-not-executed", "event %d (%s from %s seq %d): first copy got %d answers - mistaken for a retransmission?", i, ev.Kind, addrOf(ev.Peer), ev.Seq, len(got)), stt
			}
			e.answer = got[0].B
			m, perr := message.Parse(got[0].B)
			if perr != nil || m.Sequence() != ev.Seq {
				return vcore.Violatef("answer-seq", "event %d (%s): answer undecodable or wrong sequence", i, ev.Kind), stt
			}
			if er, ok := m.(*message.SessionEstablishmentResponse); ok && er.UPFSEID != nil {
				if f, err := er.UPFSEID.FSEID(); err == nil {
					lastSess[nd] = f.SEID
				}
			}
			if dr, ok := m.(*message.SessionDeletionResponse); ok && stack.Cause(dr) == 1 {
				lastSess[nd] = 0
			}
			if _, ok := m.(*message.AssociationSetupResponse); ok {
				lastSess[nd] = 0
			}
		} else if len(got) != 0 {
			return vcore.Violatef("unexpected-answer", "event %d (%s): got an answer", i, ev.Kind), stt
		}
		if len(o.Calls) < wantCalls {
			return vcore.Violatef("first-copy-not-executed", "event %d (%s from %s seq %d): first copy caused %d data-plane calls, want >= %d", i, ev.Kind, addrOf(ev.Peer), ev.Seq, len(o.Calls), wantCalls), stt
		}
		if ev.Kind == "est" && nodeKnown && len(snapA.Sess) != nSessB+1 {
			return vcore.Violatef("first-copy-not-executed", "event %d: establishment from %s seq %d did not create a session", i, addrOf(ev.Peer), ev.Seq), stt
		}
		window[k] = e
		if _, ok := rxKeys()[fmt.Sprintf("%s-%d", addrOf(ev.Peer), ev.Seq)]; !ok {
			return vcore.Violatef("no-bookkeeping", "event %d: request (%s,%d) left no receive transaction", i, addrOf(ev.Peer), ev.Seq), stt
		}
	}
	// expire everything: the table must be empty afterwards
	for k := range window {
		id, ok := rxKeys()[fmt.Sprintf("%s-%d", addrOf(k.peer), k.seq)]
		if !ok {
			return vcore.Violatef("rx-table-vs-model", "final: transaction (%s,%d) of the model window is not in the server table", addrOf(k.peer), k.seq), stt
		}
		o := r.Step(stack.Op{Kind: "expire_rx", TrID: id})
		if o.Dead != nil {
			return vcore.Violatef(o.Dead.Key, "final expiry: UPF fatal exit"), stt
		}
	}
	if left := rxKeys(); len(left) != 0 {
		return vcore.Violatef("not-released", "after expiring every transaction the table still holds %v", left), stt
	}
	return nil, stt
}

func account(c Case, s stats, exhaustive bool) {
	vcore.E.Eval()
	if s.dups > 0 {
		vcore.E.Class("with_duplicate")
	}
	if s.dupState {
		vcore.E.Class("duplicate_of_state_changing")
	}
	if s.foreignSameSeq {
		vcore.E.Class("same_seq_from_two_addresses")
	}
	if s.expireReuse {
		vcore.E.Class("key_reused_after_expiry")
	}
	if s.ownSameKey {
		vcore.E.Class("own_request_with_a_retained_key")
	}
	if s.ownDoneInWindow {
		vcore.E.Class("own_request_completed_or_abandoned_inside_the_window")
	}
	if exhaustive {
		vcore.E.Class("enumerated")
	}
	if (s.dupState && s.foreignSameSeq) || s.expireReuse || (s.ownDoneInWindow && s.dups > 0) {
		vcore.E.NonTrivial(vcore.JSON(c))
		if !exhaustive {
			vcore.E.Sample("random", brief(c))
		} else {
			vcore.E.Sample("enumerated", brief(c))
		}
	}
}

func brief(c Case) []string {
	var out []string
	for _, e := range c.Evs {
		out = append(out, fmt.Sprintf("%s(sock%d,seq%d)", e.Kind, e.Peer, e.Seq))
	}
	return out
}

func report(t vcore.Failer, c Case, v *vcore.Violation) {
	if v == nil || vcore.IsKnown(v.Key) {
		return
	}
	key := v.Key
	c.Evs = vcore.MinimizeSlice(c.Evs, func(evs []Ev) bool {
		x, _ := run(Case{Evs: evs})
		return x != nil && x.Key == key
	}, 300)
	if x, _ := run(c); x != nil {
		vcore.Report(t, x, c)
	}
	vcore.Report(t, v, c)
}

// runWindow: the real retention window (package rxwindow).
func runWindow(t vcore.Failer, c rxwindow.Case, minimise bool) {
	v, st := rxwindow.Run(c)
	vcore.E.Eval()
	vcore.E.Class("real_window")
	if st.Unanswered > 0 {
		vcore.E.Class("real_window:with_unanswered_request")
		vcore.E.NonTrivial(vcore.JSON(c))
		vcore.E.Sample("real-window", c)
	}
	if st.Busy && st.Keys > 64 {
		vcore.E.Class("real_window:more_than_64_windows_ended_while_the_loop_was_busy")
	}
	if minimise && v != nil && !vcore.IsKnown(v.Key) {
		key := v.Key
		c.Evs = vcore.MinimizeSlice(c.Evs, func(evs []rxwindow.Ev) bool {
			x, _ := rxwindow.Run(rxwindow.Case{RetransMs: c.RetransMs, MaxRetrans: c.MaxRetrans, Evs: evs, Many: c.Many, BusyMs: c.BusyMs, Sustain: c.Sustain})
			return x != nil && x.Key == key
		}, 12)
	}
	vcore.Report(t, v, map[string]any{"window": c})
}

func runStale(t vcore.Failer, c rxwindow.StaleCase) {
	v, skipped := rxwindow.RunStale(c)
	vcore.E.Eval()
	vcore.E.Class("stray_expiry_schedule")
	if skipped != "" {
		vcore.E.Exclude("schedule_slipped")
		return
	}
	vcore.E.NonTrivial(vcore.JSON(c))
	if v != nil && !vcore.IsKnown(v.Key) {
		// the schedule is in real time: a violation counts when a second run fails the same way
		v2, _ := rxwindow.RunStale(c)
		if v2 == nil || v2.Key != v.Key {
			vcore.E.Note("stray expiry: " + v.Key + " not confirmed by a second run: " + v.Msg)
			return
		}
	}
	vcore.Report(t, v, map[string]any{"stale": c})
}

func TestC06(t *testing.T) {
	files, explicit := vcore.ReplayFiles()
	for _, f := range files {
		var w struct {
			Case
			Window *rxwindow.Case      `json:"window"`
			Stale  *rxwindow.StaleCase `json:"stale"`
			Lost   *rxwindow.LostCase  `json:"lost"`
		}
		if err := vcore.LoadReplayCase(f, &w); err != nil {
			t.Fatalf("replay %s: %v", f, err)
		}
		if w.Window != nil {
			vcore.E.Class("replayed")
			runWindow(t, *w.Window, false)
			continue
		}
		if w.Stale != nil {
			vcore.E.Class("replayed")
			runStale(t, *w.Stale)
			continue
		}
		if w.Lost != nil {
			vcore.E.Eval()
			vcore.E.Class("replayed")
			vcore.Report(t, rxwindow.RunLost(*w.Lost), map[string]any{"lost": w.Lost})
			continue
		}
		c := w.Case
		v, s := run(c)
		account(c, s, false)
		vcore.E.Class("replayed")
		report(t, c, v)
	}
	if explicit {
		return
	}
	// exhaustive: 12-letter alphabet; every history starts with both nodes associated
	var alpha []Ev
	for _, p := range []int{0, 1} {
		for _, q := range []uint32{1, 2} {
			alpha = append(alpha, Ev{"hb", p, q}, Ev{"est", p, q}, Ev{"expire", p, q})
		}
	}
	depth := 3
	if vcore.Thorough() {
		depth = 4
	}
	prefix := []Ev{{"assoc", 0, 100}, {"assoc", 1, 100}}
	var rec func(cur []Ev, idx *int)
	count := 0
	rec = func(cur []Ev, idx *int) {
		if len(cur) > 0 {
			mine := true
			if vcore.Cfg.Shards > 1 {
				mine = *idx%vcore.Cfg.Shards == vcore.Cfg.Shard
			}
			*idx++
			if mine {
				c := Case{Evs: append(append([]Ev{}, prefix...), cur...)}
				v, s := run(c)
				account(c, s, true)
				count++
				report(t, c, v)
			}
		}
		if len(cur) == depth {
			return
		}
		for _, a := range alpha {
			rec(append(cur, a), idx)
		}
	}
	idx := 0
	rec(nil, &idx)
	vcore.E.SetExtra("enumerated_histories", fmt.Sprintf("all %d event sequences of length 1..%d over the 12-letter alphabet (striped over %d shard(s); this shard ran %d)", idx, depth, vcore.Cfg.Shards, count))

	// the UPF's own requests under a retained key: sent / answered / abandoned between a request and its retransmission
	for _, end := range []string{"srsp", "srgiveup", ""} {
		for _, kind := range []string{"est", "mod", "del", "hb"} {
			evs := []Ev{{"assoc", 0, 100}, {"assoc", 1, 100}, {"est", 0, 1}, {"est", 1, 1}, {kind, 0, 2}, {"srr", 0, 2}}
			if end != "" {
				evs = append(evs, Ev{end, 0, 2})
			}
			evs = append(evs, Ev{kind, 0, 2}, Ev{"est", 1, 1}, Ev{"expire", 0, 2}, Ev{kind, 0, 2})
			c := Case{Evs: evs}
			v, s := run(c)
			account(c, s, false)
			vcore.E.Class("scripted_own_request")
			report(t, c, v)
		}
	}

	// a busy window: hundreds of requests retained at once; a retransmission of the oldest, of the newest and of a
	// state-changing request that arrived when the window was that full is answered from the window and not executed
	for _, n := range []int{255, 300, 520} {
		evs := []Ev{{"assoc", 0, 100000}, {"assoc", 1, 100000}}
		for i := 0; i < n; i++ {
			evs = append(evs, Ev{"hb", i % 2, uint32(1000 + i)})
		}
		evs = append(evs, Ev{"est", 0, 5}, Ev{"est", 1, 5}, Ev{"est", 0, 5}, Ev{"hb", 0, 1000}, Ev{"hb", (n - 1) % 2, uint32(1000 + n - 1)},
			Ev{"mod", 0, 6}, Ev{"mod", 0, 6}, Ev{"est", 1, 5}, Ev{"del", 0, 7}, Ev{"del", 0, 7})
		c := Case{Evs: evs}
		v, s := run(c)
		account(c, s, false)
		vcore.E.Class("hundreds_of_requests_retained_at_once")
		if v != nil {
			vcore.Report(t, v, c) // as found: not worth minimising
		}
	}

	// an answer that could not be sent: the request was executed, its retransmission gets the answer (package rxwindow)
	rxwindow.LostPart(t)
	// (b) real retention window (package rxwindow)
	runWindow(t, rxwindow.Case{RetransMs: 20, MaxRetrans: 1, Evs: []rxwindow.Ev{{Kind: "assoc", Peer: 0, Seq: 77}}, Many: 150, BusyMs: 300}, false)
	vcore.Check(t, vcore.N(30, 300), func(rt *rapid.T) {
		runWindow(rt, rxwindow.Gen(rt), true)
	})

	// (c) a retention timer must not outlive its transaction (package rxwindow, real timers, about 2 s per case)
	vcore.Check(t, vcore.N(3, 10), func(rt *rapid.T) {
		runStale(rt, rxwindow.GenStale(rt))
	})

	// random part
	kinds := []string{"hb", "assoc", "est", "est", "estbad", "mod", "mod", "modunk", "del", "expire", "expire", "srr", "srr", "srsp", "srgiveup"}
	vcore.Check(t, vcore.N(300, 6000), func(rt *rapid.T) {
		n := rapid.IntRange(2, 40).Draw(rt, "n")
		evs := []Ev{{"assoc", 0, 77}}
		for i := 0; i < n; i++ {
			evs = append(evs, Ev{
				Kind: rapid.SampledFrom(kinds).Draw(rt, "kind"),
				Peer: rapid.SampledFrom([]int{0, 1, 100}).Draw(rt, "peer"),
				Seq:  rapid.SampledFrom([]uint32{1, 2, 3, 0, 1<<24 - 1}).Draw(rt, "seq"),
			})
		}
		c := Case{Evs: evs}
		v, s := run(c)
		account(c, s, false)
		report(rt, c, v)
	})
}
