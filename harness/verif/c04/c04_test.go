//go:build verif

package c04

import (
	"testing"

	"pgregory.net/rapid"

	"github.com/free5gc/go-upf/internal/verif/rxwindow"
	"github.com/free5gc/go-upf/internal/verif/sessmodel"
	"github.com/free5gc/go-upf/internal/verif/stack"
	"github.com/free5gc/go-upf/internal/verif/vcore"
)

func TestMain(m *testing.M) {
	vcore.Init("C04", "exploration",
		"rapid histories (<= 25 ops) of establishment / deletion / re-association / SEID-0 answers over 3 nodes that drive the session table through growth, holes and reuse, interleaved with probes "+
			"(Modification, Deletion, data-plane report) addressed to SEIDs of every class: 0, live, released, table length+1, +1000, 2^63-1, 2^63, 2^63+1, 2^64-1, random 64-bit; reference model of the SEID space; "+
			"oracle: issued SEID is non-zero and not live; live SEID -> accepted with that session's CP SEID and calls tagged with exactly that UP SEID; any other SEID -> cause 65, header SEID 0, no data-plane call, server snapshot unchanged; "+
			"a re-issued SEID shows nothing of its previous owner (rules, queues, UR-SEQN). non-trivial = history re-issued >= 1 released SEID and probed >= 3 SEID classes; distinct by history",
		"three in four histories give every session a distinct CP SEID so that identity is observable in response headers; the rest share CP SEIDs across peers",
		"model data plane (kernel semantics) instead of gtp5g")
	vcore.Main(m)
}

var or = sessmodel.Oracles{SEID: true}

func cfg() sessmodel.GenCfg {
	g := stack.DefaultGen()
	g.MaxRules = 4
	return sessmodel.GenCfg{MaxOps: 25, Probes: true, Reports: true, Rules: g}
}

func account(c sessmodel.Case, r sessmodel.Result) {
	vcore.E.Eval()
	n := 0
	for k := range r.Stats.Classes {
		vcore.E.Class("probe:" + k)
		n++
	}
	if r.Stats.Reissued > 0 {
		vcore.E.Class("reissued_seid")
	}
	if r.Stats.Reissued > 0 && n >= 3 {
		vcore.E.NonTrivial(vcore.JSON(c))
		vcore.E.Sample("reissue+probes", sessmodel.Brief(c))
	}
}

func report(t vcore.Failer, c sessmodel.Case, r sessmodel.Result) {
	if r.V == nil || vcore.IsKnown(r.V.Key) {
		return
	}
	key := r.V.Key
	c.Ops = vcore.MinimizeSlice(c.Ops, func(ops []sessmodel.Op) bool {
		x := sessmodel.Run(sessmodel.Case{Ops: ops, Refuse: c.Refuse}, or)
		return x.V != nil && x.V.Key == key
	}, 300)
	if x := sessmodel.Run(c, or); x.V != nil {
		vcore.Report(t, x.V, c)
	}
	vcore.Report(t, r.V, c)
}

func TestC04(t *testing.T) {
	files, explicit := vcore.ReplayFiles()
	for _, f := range files {
		var w struct {
			sessmodel.Case
			Lost *rxwindow.LostCase `json:"lost"`
		}
		if err := vcore.LoadReplayCase(f, &w); err != nil {
			t.Fatalf("replay %s: %v", f, err)
		}
		if w.Lost != nil {
			vcore.E.Eval()
			vcore.E.Class("replayed")
			vcore.Report(t, rxwindow.RunLost(*w.Lost), map[string]any{"lost": w.Lost})
			continue
		}
		c := w.Case
		r := sessmodel.Run(c, or)
		account(c, r)
		vcore.E.Class("replayed")
		report(t, c, r)
	}
	if explicit {
		return
	}
	g := cfg()
	vcore.Check(t, vcore.N(1500, 12000), func(rt *rapid.T) {
		gc := g
		// one history in four lets the peers choose equal CP SEIDs, so that a SEID-0 answer
		// can only be attributed by peer address
		gc.SharedCP = rapid.IntRange(0, 3).Draw(rt, "sharedcp") == 0
		// one history in four has Modifications carrying a Node ID - another node's (the session changes hands) or the owner's
		// own (nothing changes): re-association must still end exactly the sessions of the node named
		gc.Takeover = rapid.IntRange(0, 3).Draw(rt, "takeover") == 0
		c := sessmodel.Case{Ops: sessmodel.Gen(rt, gc), Refuse: sessmodel.GenRefuse(rt)}
		r := sessmodel.Run(c, or)
		account(c, r)
		if gc.SharedCP {
			vcore.E.Class("shared_cp_seids")
		}
		report(rt, c, r)
	})
	// an Establishment Response that could not be sent: the retransmitted request gets it, and the UP SEID it issues resolves
	// to that session and to no other (package rxwindow)
	rxwindow.LostPart(t)
}
