//go:build verif

// Package simkernel is a simulated gtp5g generic-netlink endpoint: it speaks
// the netlink wire format over AF_UNIX/SOCK_SEQPACKET socketpairs, so that the
// real forwarder.Gtp5g driver (through go-gtp5gnl and go-nl) can be run
// without the kernel module.  It stores rules per (kind, SEID, id), answers
// GET / GET_REPORT / GET_MULTI_REPORTS / GET_VERSION, emits BUFFER and REPORT
// multicast messages and records the raw bytes of every request.
package simkernel

import (
	"encoding/binary"
	"fmt"
	"sort"
	"sync"
	"sync/atomic"
	"syscall"
	"time"
	"unsafe"

	"github.com/khirono/go-nl"

	"github.com/free5gc/go-gtp5gnl"
)

var ne = gtp5gnl.NativeEndian()

const (
	FamilyID = 0x1c
	LinkIdx  = 7
	replyPid = 4242
)

// ---------------------------------------------------------------- attributes

// Attr is one decoded netlink attribute.
type Attr struct {
	Type   int
	Nested bool
	Value  []byte
}

// Walk splits a byte string into attributes (one level).
func Walk(b []byte) ([]Attr, error) {
	var out []Attr
	for len(b) > 0 {
		if len(b) < 4 {
			return out, fmt.Errorf("trailing %d bytes", len(b))
		}
		l := int(ne.Uint16(b[0:2]))
		t := ne.Uint16(b[2:4])
		if l < 4 || l > len(b) {
			return out, fmt.Errorf("attribute length %d (have %d)", l, len(b))
		}
		out = append(out, Attr{Type: int(t & nl.NLA_TYPE_MASK), Nested: t&syscall.NLA_F_NESTED != 0, Value: append([]byte(nil), b[4:l]...)})
		al := (l + 3) &^ 3
		if al > len(b) {
			al = len(b)
		}
		b = b[al:]
	}
	return out, nil
}

// Find returns the attributes of a type.
func Find(as []Attr, typ int) []Attr {
	var out []Attr
	for _, a := range as {
		if a.Type == typ {
			out = append(out, a)
		}
	}
	return out
}

func First(as []Attr, typ int) (Attr, bool) {
	for _, a := range as {
		if a.Type == typ {
			return a, true
		}
	}
	return Attr{}, false
}

func (a Attr) U8() uint8   { return a.Value[0] }
func (a Attr) U16() uint16 { return ne.Uint16(a.Value) }
func (a Attr) U32() uint32 { return ne.Uint32(a.Value) }
func (a Attr) U64() uint64 { return ne.Uint64(a.Value) }

func enc(typ int, nested bool, val []byte) []byte {
	l := 4 + len(val)
	b := make([]byte, (l+3)&^3)
	ne.PutUint16(b[0:2], uint16(l))
	t := uint16(typ)
	if nested {
		t |= syscall.NLA_F_NESTED
	}
	ne.PutUint16(b[2:4], t)
	copy(b[4:], val)
	return b
}

func u8(typ int, v uint8) []byte { return enc(typ, false, []byte{v}) }
func u16(typ int, v uint16) []byte {
	b := make([]byte, 2)
	ne.PutUint16(b, v)
	return enc(typ, false, b)
}
func u32(typ int, v uint32) []byte {
	b := make([]byte, 4)
	ne.PutUint32(b, v)
	return enc(typ, false, b)
}
func u64(typ int, v uint64) []byte {
	b := make([]byte, 8)
	ne.PutUint64(b, v)
	return enc(typ, false, b)
}
func cat(bs ...[]byte) []byte {
	var out []byte
	for _, b := range bs {
		out = append(out, b...)
	}
	return out
}

// ---------------------------------------------------------------- connections

// Conn is the UPF-side end of a simulated netlink socket (implements nl.Conner).
type Conn struct {
	fd   int
	kfd  int // kernel-side end
	seq  int
	hb   atomic.Int64 // explicit happens-before edge sender -> reader (the real kernel provides one)
	once sync.Once
}

func newConn() (*Conn, error) {
	fds, err := syscall.Socketpair(syscall.AF_UNIX, syscall.SOCK_SEQPACKET|syscall.SOCK_CLOEXEC, 0)
	if err != nil {
		return nil, err
	}
	for _, fd := range fds {
		_ = syscall.SetsockoptInt(fd, syscall.SOL_SOCKET, syscall.SO_SNDBUF, 8<<20)
		_ = syscall.SetsockoptInt(fd, syscall.SOL_SOCKET, syscall.SO_RCVBUF, 8<<20)
	}
	return &Conn{fd: fds[0], kfd: fds[1], seq: 1}, nil
}

func (c *Conn) Fd() int { return c.fd }
func (c *Conn) Close() {
	c.once.Do(func() {
		syscall.Close(c.fd)
		syscall.Close(c.kfd)
	})
}
func (c *Conn) Read(b []byte) (int, error) {
	n, err := syscall.Read(c.fd, b)
	c.hb.Load()
	if err != nil {
		return 0, err
	}
	if n == 0 {
		return 0, fmt.Errorf("closed")
	}
	return n, nil
}
func (c *Conn) Write(b []byte) (int, error) {
	c.hb.Add(1)
	return syscall.Write(c.fd, b)
}
func (c *Conn) Writev(iovs []syscall.Iovec) (int, error) {
	var buf []byte
	for _, iov := range iovs {
		if iov.Len == 0 {
			continue
		}
		buf = append(buf, unsafe.Slice(iov.Base, int(iov.Len))...)
	}
	return c.Write(buf)
}
func (c *Conn) TakeSeq() int {
	s := c.seq
	c.seq++
	return s
}

// kernel side helpers
func (c *Conn) kread(b []byte) (int, error) {
	n, err := syscall.Read(c.kfd, b)
	c.hb.Load()
	return n, err
}
func (c *Conn) kwrite(b []byte) error {
	c.hb.Add(1)
	for {
		_, err := syscall.Write(c.kfd, b)
		if err == syscall.EINTR {
			continue
		}
		return err
	}
}

// unread reports how many bytes written by the kernel side are not yet read by the UPF side.
func (c *Conn) unread() int {
	v, err := ioctlInt(c.kfd, syscall.TIOCOUTQ)
	if err != nil {
		return 0
	}
	return v
}

func ioctlInt(fd int, req uint) (int, error) {
	var v int32
	_, _, e := syscall.Syscall(syscall.SYS_IOCTL, uintptr(fd), uintptr(req), uintptr(unsafe.Pointer(&v)))
	if e != 0 {
		return 0, e
	}
	return int(v), nil
}

// ---------------------------------------------------------------- kernel

type RuleKey struct {
	Kind string // PDR FAR QER URR BAR
	SEID uint64
	ID   uint64
}

func (k RuleKey) String() string { return fmt.Sprintf("%s[%#x:%d]", k.Kind, k.SEID, k.ID) }

// Request is one recorded netlink request.
type Request struct {
	Conn  string // "main" | "ps"
	Cmd   int
	Flags uint16
	Seq   uint32
	Raw   []byte // whole datagram
	Attrs []Attr // top-level attributes
	Errno int    // what the kernel answered
}

// Usage is what the kernel has measured for a URR.
type Usage struct {
	Trigger              uint32
	TotVol, UlVol, DlVol uint64
	TotPkt, UlPkt, DlPkt uint64
	Start, End           time.Time
	QueryRef             uint32
}

type Kernel struct {
	Main, Ps, Mcast *Conn
	mu              sync.Mutex
	Rules           map[RuleKey][]Attr
	Log             []Request
	Version         string
	Latency         time.Duration
	// PsLatency (nanoseconds) is added to requests on the periodic server's connection only; atomic because scripts change it while the kernel serves.
	PsLatency atomic.Int64
	// PsHold: requests on the periodic server's connection are held (PsHeld counts them) until the flag is cleared.
	PsHold atomic.Bool
	PsHeld atomic.Int64
	// MainHold: the same for requests on the event loop's connection.
	MainHold atomic.Bool
	MainHeld atomic.Int64
	// MultiErrIfMissing: a multi-URR usage query naming a URR that no longer exists is answered ENOENT as a whole instead of skipping it.
	MultiErrIfMissing atomic.Bool
	// Fail, when set, decides the errno (0 = proceed) of a request before it takes effect.
	Fail func(r *Request) int
	// UsageFor overrides the usage returned for a URR.
	UsageFor func(op string, k RuleKey) Usage
	// QuietDel: DEL_URR of these rules is acknowledged without a usage report
	QuietDel func(k RuleKey) bool
	counter  uint64
	wg       sync.WaitGroup
	closed   atomic.Bool
	KeepLog  bool
}

func New() (*Kernel, error) {
	k := &Kernel{Rules: map[RuleKey][]Attr{}, Version: "0.9.5", KeepLog: true}
	var err error
	if k.Main, err = newConn(); err != nil {
		return nil, err
	}
	if k.Ps, err = newConn(); err != nil {
		return nil, err
	}
	if k.Mcast, err = newConn(); err != nil {
		return nil, err
	}
	k.wg.Add(2)
	go k.serve(k.Main, "main")
	go k.serve(k.Ps, "ps")
	return k, nil
}

// Close releases the sockets (after the driver has been detached from the mux).
func (k *Kernel) Close() {
	k.closed.Store(true)
	syscall.Shutdown(k.Main.kfd, syscall.SHUT_RDWR)
	syscall.Shutdown(k.Ps.kfd, syscall.SHUT_RDWR)
	k.wg.Wait()
	k.Main.Close()
	k.Ps.Close()
	k.Mcast.Close()
}

func (k *Kernel) serve(c *Conn, name string) {
	defer k.wg.Done()
	buf := make([]byte, 1<<17)
	for {
		n, err := c.kread(buf)
		if err != nil || n <= 0 {
			if err == syscall.EINTR {
				continue
			}
			return
		}
		if k.closed.Load() {
			return
		}
		if k.Latency > 0 {
			time.Sleep(k.Latency)
		}
		if d := k.PsLatency.Load(); d > 0 && name == "ps" {
			time.Sleep(time.Duration(d))
		}
		if name == "main" && k.MainHold.Load() {
			// the event loop's own request stays inside the data plane until released (30 s at most)
			k.MainHeld.Add(1)
			for i := 0; i < 300000 && k.MainHold.Load() && !k.closed.Load(); i++ {
				time.Sleep(100 * time.Microsecond)
			}
		}
		if name == "ps" && k.PsHold.Load() {
			// the harness owns the schedule: the request stays inside the data plane until it is released (30 s at most)
			k.PsHeld.Add(1)
			for i := 0; i < 300000 && k.PsHold.Load() && !k.closed.Load(); i++ {
				time.Sleep(100 * time.Microsecond)
			}
		}
		reply := k.handle(name, append([]byte(nil), buf[:n]...))
		if reply != nil {
			if err := c.kwrite(reply); err != nil {
				return
			}
		}
	}
}

func nlmsg(typ uint16, flags uint16, seq uint32, body []byte) []byte {
	b := make([]byte, 16+len(body))
	ne.PutUint32(b[0:4], uint32(len(b)))
	ne.PutUint16(b[4:6], typ)
	ne.PutUint16(b[6:8], flags)
	ne.PutUint32(b[8:12], seq)
	ne.PutUint32(b[12:16], replyPid)
	copy(b[16:], body)
	// netlink messages inside one datagram are 4-byte aligned
	for len(b)%4 != 0 {
		b = append(b, 0)
	}
	return b
}

func ack(seq uint32, errno int, orig []byte) []byte {
	body := make([]byte, 4+16)
	ne.PutUint32(body[0:4], uint32(int32(-errno)))
	if len(orig) >= 16 {
		copy(body[4:], orig[:16])
	}
	return nlmsg(syscall.NLMSG_ERROR, 0, seq, body)
}

func genlReply(seq uint32, cmd int, attrs []byte) []byte {
	body := append([]byte{byte(cmd), 0, 0, 0}, attrs...)
	return nlmsg(FamilyID, 0, seq, body)
}

type kindSpec struct {
	kind   string
	idAttr int
	idLen  int
	seid   int
}

var specs = map[int]kindSpec{
	gtp5gnl.CMD_ADD_PDR:    {"PDR", gtp5gnl.PDR_ID, 2, gtp5gnl.PDR_SEID},
	gtp5gnl.CMD_DEL_PDR:    {"PDR", gtp5gnl.PDR_ID, 2, gtp5gnl.PDR_SEID},
	gtp5gnl.CMD_GET_PDR:    {"PDR", gtp5gnl.PDR_ID, 2, gtp5gnl.PDR_SEID},
	gtp5gnl.CMD_ADD_FAR:    {"FAR", gtp5gnl.FAR_ID, 4, gtp5gnl.FAR_SEID},
	gtp5gnl.CMD_DEL_FAR:    {"FAR", gtp5gnl.FAR_ID, 4, gtp5gnl.FAR_SEID},
	gtp5gnl.CMD_GET_FAR:    {"FAR", gtp5gnl.FAR_ID, 4, gtp5gnl.FAR_SEID},
	gtp5gnl.CMD_ADD_QER:    {"QER", gtp5gnl.QER_ID, 4, gtp5gnl.QER_SEID},
	gtp5gnl.CMD_DEL_QER:    {"QER", gtp5gnl.QER_ID, 4, gtp5gnl.QER_SEID},
	gtp5gnl.CMD_GET_QER:    {"QER", gtp5gnl.QER_ID, 4, gtp5gnl.QER_SEID},
	gtp5gnl.CMD_ADD_URR:    {"URR", gtp5gnl.URR_ID, 4, gtp5gnl.URR_SEID},
	gtp5gnl.CMD_DEL_URR:    {"URR", gtp5gnl.URR_ID, 4, gtp5gnl.URR_SEID},
	gtp5gnl.CMD_GET_URR:    {"URR", gtp5gnl.URR_ID, 4, gtp5gnl.URR_SEID},
	gtp5gnl.CMD_GET_REPORT: {"URR", gtp5gnl.URR_ID, 4, gtp5gnl.URR_SEID},
	gtp5gnl.CMD_ADD_BAR:    {"BAR", gtp5gnl.BAR_ID, 1, gtp5gnl.BAR_SEID},
	gtp5gnl.CMD_DEL_BAR:    {"BAR", gtp5gnl.BAR_ID, 1, gtp5gnl.BAR_SEID},
	gtp5gnl.CMD_GET_BAR:    {"BAR", gtp5gnl.BAR_ID, 1, gtp5gnl.BAR_SEID},
}

// Classify tells which rule a logged request is about and what it does to it: create | update | remove | get ("" for
// requests that are not about one rule).
func Classify(r *Request) (RuleKey, string) {
	sp, ok := specs[r.Cmd]
	if !ok {
		return RuleKey{}, ""
	}
	ida, ok := First(r.Attrs, sp.idAttr)
	if !ok {
		return RuleKey{}, ""
	}
	key := RuleKey{Kind: sp.kind, ID: idOf(ida, sp.idLen)}
	if sa, ok := First(r.Attrs, sp.seid); ok && len(sa.Value) >= 8 {
		key.SEID = sa.U64()
	}
	switch r.Cmd {
	case gtp5gnl.CMD_ADD_PDR, gtp5gnl.CMD_ADD_FAR, gtp5gnl.CMD_ADD_QER, gtp5gnl.CMD_ADD_URR, gtp5gnl.CMD_ADD_BAR:
		if r.Flags&syscall.NLM_F_REPLACE != 0 {
			return key, "update"
		}
		return key, "create"
	case gtp5gnl.CMD_DEL_PDR, gtp5gnl.CMD_DEL_FAR, gtp5gnl.CMD_DEL_QER, gtp5gnl.CMD_DEL_URR, gtp5gnl.CMD_DEL_BAR:
		return key, "remove"
	}
	return key, "get"
}

func idOf(a Attr, n int) uint64 {
	switch {
	case len(a.Value) >= 8 && n == 8:
		return ne.Uint64(a.Value)
	case len(a.Value) >= 4 && n >= 4:
		return uint64(ne.Uint32(a.Value))
	case len(a.Value) >= 2 && n >= 2:
		return uint64(ne.Uint16(a.Value))
	case len(a.Value) >= 1:
		return uint64(a.Value[0])
	}
	return 0
}

func (k *Kernel) usage(op string, key RuleKey) Usage {
	if k.UsageFor != nil {
		return k.UsageFor(op, key)
	}
	k.counter++
	v := k.counter * 1000
	return Usage{
		TotVol: v, UlVol: v / 4, DlVol: v - v/4,
		TotPkt: v / 100, UlPkt: v / 400, DlPkt: v/100 - v/400,
		Start: time.Unix(1700000000, 0), End: time.Unix(1700000000+int64(k.counter), 0),
	}
}

// EncodeUR renders one usage report (UR attribute).
func EncodeUR(seid uint64, urrid uint32, u Usage) []byte {
	vol := cat(
		u64(gtp5gnl.UR_VOLUME_MEASUREMENT_TOVOL, u.TotVol),
		u64(gtp5gnl.UR_VOLUME_MEASUREMENT_UVOL, u.UlVol),
		u64(gtp5gnl.UR_VOLUME_MEASUREMENT_DVOL, u.DlVol),
		u64(gtp5gnl.UR_VOLUME_MEASUREMENT_TOPACKET, u.TotPkt),
		u64(gtp5gnl.UR_VOLUME_MEASUREMENT_UPACKET, u.UlPkt),
		u64(gtp5gnl.UR_VOLUME_MEASUREMENT_DPACKET, u.DlPkt),
	)
	body := cat(
		u32(gtp5gnl.UR_URRID, urrid),
		u32(gtp5gnl.UR_USAGE_REPORT_TRIGGER, u.Trigger),
		u32(gtp5gnl.UR_URSEQN, 0),
		enc(gtp5gnl.UR_VOLUME_MEASUREMENT, true, vol),
		u64(gtp5gnl.UR_START_TIME, uint64(u.Start.UnixNano())),
		u64(gtp5gnl.UR_END_TIME, uint64(u.End.UnixNano())),
		u64(gtp5gnl.UR_SEID, seid),
	)
	return enc(gtp5gnl.UR, true, body)
}

func (k *Kernel) handle(conn string, raw []byte) []byte {
	if len(raw) < 20 {
		return nil
	}
	typ := ne.Uint16(raw[4:6])
	flags := ne.Uint16(raw[6:8])
	seq := ne.Uint32(raw[8:12])
	if typ != FamilyID {
		return ack(seq, int(syscall.EOPNOTSUPP), raw)
	}
	cmd := int(raw[16])
	attrs, _ := Walk(raw[20:])
	req := Request{Conn: conn, Cmd: cmd, Flags: flags, Seq: seq, Raw: raw, Attrs: attrs}
	k.mu.Lock()
	defer k.mu.Unlock()
	reply, errno := k.apply(&req)
	req.Errno = errno
	if k.KeepLog {
		k.Log = append(k.Log, req)
	}
	return cat(reply, ack(seq, errno, raw))
}

func mergeAttrs(old, nw []Attr) []Attr {
	repl := map[int]bool{}
	for _, a := range nw {
		repl[a.Type] = true
	}
	var out []Attr
	for _, a := range old {
		if !repl[a.Type] {
			out = append(out, a)
		}
	}
	return append(out, nw...)
}

func (k *Kernel) apply(r *Request) (reply []byte, errno int) {
	if k.Fail != nil {
		if e := k.Fail(r); e != 0 {
			return nil, e
		}
	}
	switch r.Cmd {
	case gtp5gnl.CMD_GET_VERSION:
		return genlReply(r.Seq, r.Cmd, enc(1, false, append([]byte(k.Version), 0))), 0
	case gtp5gnl.CMD_GET_MULTI_REPORTS:
		var urs []byte
		for _, m := range Find(r.Attrs, gtp5gnl.URR_MULTI_SEID_URRID) {
			sub, _ := Walk(m.Value)
			ida, ok1 := First(sub, gtp5gnl.URR_ID)
			sa, ok2 := First(sub, gtp5gnl.URR_SEID)
			if !ok1 || !ok2 {
				return nil, int(syscall.EINVAL)
			}
			key := RuleKey{"URR", sa.U64(), uint64(ida.U32())}
			if _, ok := k.Rules[key]; !ok {
				if k.MultiErrIfMissing.Load() {
					return nil, int(syscall.ENOENT) // the other behaviour a data plane may show: the query fails as a whole
				}
				continue
			}
			urs = append(urs, EncodeUR(key.SEID, uint32(key.ID), k.usage("multi", key))...)
		}
		return genlReply(r.Seq, r.Cmd, urs), 0
	}
	sp, ok := specs[r.Cmd]
	if !ok {
		return nil, int(syscall.EOPNOTSUPP)
	}
	ida, ok := First(r.Attrs, sp.idAttr)
	if !ok {
		return nil, int(syscall.EINVAL)
	}
	key := RuleKey{Kind: sp.kind, ID: idOf(ida, sp.idLen)}
	if sa, ok := First(r.Attrs, sp.seid); ok && len(sa.Value) >= 8 {
		key.SEID = sa.U64()
	}
	var body []Attr
	for _, a := range r.Attrs {
		if a.Type == gtp5gnl.LINK || a.Type == sp.idAttr || a.Type == sp.seid {
			continue
		}
		body = append(body, a)
	}
	old, exists := k.Rules[key]
	switch r.Cmd {
	case gtp5gnl.CMD_ADD_PDR, gtp5gnl.CMD_ADD_FAR, gtp5gnl.CMD_ADD_QER, gtp5gnl.CMD_ADD_URR, gtp5gnl.CMD_ADD_BAR:
		if r.Flags&syscall.NLM_F_REPLACE != 0 {
			if !exists {
				return nil, int(syscall.ENOENT)
			}
			k.Rules[key] = mergeAttrs(old, body)
			return nil, 0
		}
		if exists {
			return nil, int(syscall.EEXIST)
		}
		k.Rules[key] = body
		return nil, 0
	case gtp5gnl.CMD_DEL_PDR, gtp5gnl.CMD_DEL_FAR, gtp5gnl.CMD_DEL_QER, gtp5gnl.CMD_DEL_BAR:
		if !exists {
			return nil, int(syscall.ENOENT)
		}
		delete(k.Rules, key)
		return nil, 0
	case gtp5gnl.CMD_DEL_URR:
		if !exists {
			return nil, int(syscall.ENOENT)
		}
		delete(k.Rules, key)
		if k.QuietDel != nil && k.QuietDel(key) {
			return nil, 0
		}
		return genlReply(r.Seq, r.Cmd, EncodeUR(key.SEID, uint32(key.ID), k.usage("remove", key))), 0
	case gtp5gnl.CMD_GET_REPORT:
		if !exists {
			return nil, int(syscall.ENOENT)
		}
		return genlReply(r.Seq, r.Cmd, EncodeUR(key.SEID, uint32(key.ID), k.usage("query", key))), 0
	default: // GET_*
		if !exists {
			return nil, int(syscall.ENOENT)
		}
		var out []byte
		switch sp.idLen {
		case 1:
			out = u8(sp.idAttr, uint8(key.ID))
		case 2:
			out = u16(sp.idAttr, uint16(key.ID))
		default:
			out = u32(sp.idAttr, uint32(key.ID))
		}
		out = append(out, u64(sp.seid, key.SEID)...)
		for _, a := range old {
			out = append(out, enc(a.Type, a.Nested, a.Value)...)
		}
		if sp.kind == "FAR" {
			// related PDRs: those of the same session naming this FAR
			var ids []uint16
			for pk, pa := range k.Rules {
				if pk.Kind != "PDR" || pk.SEID != key.SEID {
					continue
				}
				if f, ok := First(pa, gtp5gnl.PDR_FAR_ID); ok && uint64(f.U32()) == key.ID {
					ids = append(ids, uint16(pk.ID))
				}
			}
			sort.Slice(ids, func(i, j int) bool { return ids[i] < ids[j] })
			if len(ids) > 0 {
				v := make([]byte, 2*len(ids))
				for i, id := range ids {
					ne.PutUint16(v[2*i:], id)
				}
				out = append(out, enc(gtp5gnl.FAR_RELATED_TO_PDR, false, v)...)
			}
		}
		return genlReply(r.Seq, r.Cmd, out), 0
	}
}

// TakeLog returns and clears the recorded requests.
func (k *Kernel) TakeLog() []Request {
	k.mu.Lock()
	defer k.mu.Unlock()
	l := k.Log
	k.Log = nil
	return l
}

// Keys lists the rules present, sorted.
// Forget drops a rule behind the driver's back (what a data plane that lost the rule, or never really had it, looks like to
// the next request for it: ENOENT).
func (k *Kernel) Forget(key RuleKey) {
	k.mu.Lock()
	defer k.mu.Unlock()
	delete(k.Rules, key)
}

func (k *Kernel) Keys() []RuleKey {
	k.mu.Lock()
	defer k.mu.Unlock()
	var ks []RuleKey
	for key := range k.Rules {
		ks = append(ks, key)
	}
	sort.Slice(ks, func(i, j int) bool {
		a, b := ks[i], ks[j]
		if a.SEID != b.SEID {
			return a.SEID < b.SEID
		}
		if a.Kind != b.Kind {
			return a.Kind < b.Kind
		}
		return a.ID < b.ID
	})
	return ks
}

// Rule returns the stored attributes of a rule.
func (k *Kernel) Rule(key RuleKey) ([]Attr, bool) {
	k.mu.Lock()
	defer k.mu.Unlock()
	a, ok := k.Rules[key]
	return a, ok
}

// ---------------------------------------------------------------- multicast

func mcastMsg(cmd int, attrs []byte) []byte {
	body := append([]byte{byte(cmd), 0, 0, 0}, attrs...)
	b := make([]byte, 16+len(body))
	ne.PutUint32(b[0:4], uint32(len(b)))
	ne.PutUint16(b[4:6], FamilyID)
	copy(b[16:], body)
	return b
}

// SendBuffer emits a BUFFER notification (a packet handed up for buffering).
func (k *Kernel) SendBuffer(seid uint64, pdr uint16, action uint16, pkt []byte) error {
	inner := cat(
		u16(gtp5gnl.BUFFER_ID, pdr),
		u16(gtp5gnl.BUFFER_ACTION, action),
		u64(gtp5gnl.BUFFER_SEID, seid),
		enc(gtp5gnl.BUFFER_PACKET, false, pkt),
	)
	return k.Mcast.kwrite(mcastMsg(gtp5gnl.CMD_BUFFER_GTPU, enc(gtp5gnl.BUFFER, true, inner)))
}

// MReport is one report of a REPORT multicast.
type MReport struct {
	SEID  uint64
	URR   uint32
	Usage Usage
}

// SendReports emits one REPORT notification carrying the given reports.
func (k *Kernel) SendReports(rs []MReport) error {
	var urs []byte
	for _, r := range rs {
		urs = append(urs, EncodeUR(r.SEID, r.URR, r.Usage)...)
	}
	return k.Mcast.kwrite(mcastMsg(gtp5gnl.CMD_GET_REPORT, enc(gtp5gnl.REPORT, true, urs)))
}

// Flush waits until the UPF's mux goroutine has read and served every
// multicast message written so far: a marker message of an unknown kind is
// appended, and because the mux serves one message at a time, the marker
// having been read implies all earlier ones were handled completely.
func (k *Kernel) Flush(timeout time.Duration) bool {
	deadline := time.Now().Add(timeout)
	wait := func() bool {
		for k.Mcast.unread() > 0 {
			if time.Now().After(deadline) {
				return false
			}
			time.Sleep(20 * time.Microsecond)
		}
		return true
	}
	if !wait() {
		return false
	}
	// marker: attribute type 0x7f is neither BUFFER nor REPORT
	if err := k.Mcast.kwrite(mcastMsg(0, enc(0x7f, false, []byte{0, 0, 0, 0}))); err != nil {
		return false
	}
	if !wait() {
		return false
	}
	// a second marker: the first one having been *read* only proves that the
	// messages before it were *served*
	if err := k.Mcast.kwrite(mcastMsg(0, enc(0x7f, false, []byte{0, 0, 0, 0}))); err != nil {
		return false
	}
	return wait()
}

// PendingMcast is the number of multicast bytes not yet read by the UPF.
func (k *Kernel) PendingMcast() int { return k.Mcast.unread() }

var _ = binary.LittleEndian

// Reset forgets every rule and recorded request (between cases).
func (k *Kernel) Reset() {
	k.mu.Lock()
	k.Rules = map[RuleKey][]Attr{}
	k.Log = nil
	k.counter = 0
	k.mu.Unlock()
}

// Put installs a rule directly (harness shortcut for bulk set-up).
func (k *Kernel) Put(key RuleKey, attrs []Attr) {
	k.mu.Lock()
	k.Rules[key] = attrs
	k.mu.Unlock()
}

// ScanLog lets the caller inspect (and mark) recorded requests under the lock.
func (k *Kernel) ScanLog(f func(r *Request)) {
	k.mu.Lock()
	defer k.mu.Unlock()
	for i := range k.Log {
		f(&k.Log[i])
	}
}
