//go:build verif

package c14

import (
	"bytes"
	"encoding/binary"
	"fmt"
	"net"
	"testing"
	"time"

	"github.com/free5gc/go-gtp5gnl"
	"github.com/free5gc/go-upf/internal/verif/fullstack"
	"github.com/free5gc/go-upf/internal/verif/gtpref"
	"github.com/free5gc/go-upf/internal/verif/stack"

	"pgregory.net/rapid"

	"github.com/free5gc/go-upf/internal/gtpv1"
	"github.com/free5gc/go-upf/internal/verif/vcore"
)

func TestMain(m *testing.M) {
	vcore.Init("C14", "exploration",
		"exhaustive QFI 0..63 x PDU type 0..15 x {with,without} PDU Session Container x boundary payload lengths x boundary TEIDs, "+
			"plus rapid-drawn TEIDs/payloads (0..9000 B); every encoded packet is parsed by an independent TS 29.281 / TS 38.415 reference decoder. "+
			"The real Gtp5g.WritePacket is driven over a loopback socket for QFI none/0..63 x 4 TEIDs x 27 payload lengths (0..5, around 1400, every length 1495..1504, around 2048 / 4096, 8192, 9000) and rapid-drawn lengths, and the datagram received is decoded the same way. "+
			"non-trivial = extension present with QFI >= 16, or payload length not a multiple of 4; distinct by (ext,pdutype,qfi,len,teid)",
		"header form fixed to flags 0x34 (version 1, PT=1, E=1) as emitted by Gtp5g.WritePacket",
		"reference decoder written from TS 29.281 5.1/5.2 and TS 38.415 5.5.2, not from internal/gtpv1")
	vcore.Main(m)
}

// Case is the replayable input.
type Case struct {
	WithExt bool   `json:"with_ext"`
	PDUType uint8  `json:"pdu_type"`
	QFI     uint8  `json:"qfi"`
	TEID    uint32 `json:"teid"`
	Payload []byte `json:"payload"`
}

// decoded is what the independent reference decoder extracts.
type decoded struct {
	version, pt, e, s, pn uint8
	msgType               uint8
	length                uint16
	teid                  uint32
	exts                  [][]byte // content of each extension header (without length and next-type octets), with type
	extTypes              []uint8
	payload               []byte
}

// refDecode parses a GTPv1-U packet per TS 29.281 section 5.
func refDecode(b []byte) (*decoded, error) {
	if len(b) < 8 {
		return nil, fmt.Errorf("shorter than mandatory header: %d", len(b))
	}
	d := &decoded{}
	d.version = b[0] >> 5
	d.pt = (b[0] >> 4) & 1
	if b[0]&0x08 != 0 {
		return nil, fmt.Errorf("spare bit set in flags %#x", b[0])
	}
	d.e = (b[0] >> 2) & 1
	d.s = (b[0] >> 1) & 1
	d.pn = b[0] & 1
	d.msgType = b[1]
	d.length = binary.BigEndian.Uint16(b[2:4])
	d.teid = binary.BigEndian.Uint32(b[4:8])
	if int(d.length) != len(b)-8 {
		return nil, fmt.Errorf("length field %d but %d bytes follow the mandatory header", d.length, len(b)-8)
	}
	pos := 8
	if d.e|d.s|d.pn != 0 {
		// sequence number (2), N-PDU number (1), next extension header type (1)
		if len(b) < 12 {
			return nil, fmt.Errorf("optional fields truncated")
		}
		if d.s == 0 && (b[8] != 0 || b[9] != 0) {
			return nil, fmt.Errorf("S=0 but sequence number octets %x%x not zero", b[8], b[9])
		}
		if d.pn == 0 && b[10] != 0 {
			return nil, fmt.Errorf("PN=0 but N-PDU octet %#x not zero", b[10])
		}
		next := b[11]
		pos = 12
		if d.e == 0 && next != 0 {
			return nil, fmt.Errorf("E=0 but next extension type %#x", next)
		}
		for next != 0 {
			if pos >= len(b) {
				return nil, fmt.Errorf("extension header chain runs past the packet")
			}
			units := int(b[pos])
			if units == 0 {
				return nil, fmt.Errorf("extension header length 0")
			}
			end := pos + units*4
			if end > len(b) {
				return nil, fmt.Errorf("extension header (%d units) runs past the packet", units)
			}
			d.extTypes = append(d.extTypes, next)
			d.exts = append(d.exts, b[pos+1:end-1])
			next = b[end-1]
			pos = end
		}
	}
	d.payload = b[pos:]
	return d, nil
}

// check evaluates one case; a panic inside Len / Encode on a buffer of exactly Len() octets is a violation, not a harness error.
func check(c Case) (v *vcore.Violation) {
	defer func() {
		if p := recover(); p != nil {
			v = vcore.Violatef("panic", "encoding teid %#x, ext %v (pdu type %d, qfi %d), %d payload octets into a buffer of Len() octets panics: %v", c.TEID, c.WithExt, c.PDUType, c.QFI, len(c.Payload), p)
		}
	}()
	return check1(c)
}

func check1(c Case) *vcore.Violation {
	msg := gtpv1.Message{
		Flags:   0x34,
		Type:    gtpv1.MsgTypeTPDU,
		TEID:    c.TEID,
		Payload: c.Payload,
	}
	if c.WithExt {
		msg.Exts = []gtpv1.Encoder{gtpv1.PDUSessionContainer{PDUType: c.PDUType, QoSFlowID: c.QFI}}
	}
	n := msg.Len()
	if n < 0 || n > 1<<20 {
		return vcore.Violatef("len", "Len()=%d", n)
	}
	// poison the buffer so that octets the encoder forgets to write are seen
	b := bytes.Repeat([]byte{0xa5}, n)
	// WritePacket hands a zeroed buffer; mirror that for the octets the
	// encoder is entitled to leave untouched (sequence / N-PDU placeholders)
	zero := make([]byte, n)
	wn, err := msg.Encode(zero)
	if err != nil {
		return vcore.Violatef("encode-error", "Encode: %v", err)
	}
	if wn != n {
		return vcore.Violatef("len-mismatch", "Encode returned %d, Len() %d", wn, n)
	}
	_, _ = msg.Encode(b)
	// every octet except the 3 placeholder octets must have been written
	for i := range b {
		if i >= 8 && i <= 10 {
			continue
		}
		if b[i] != zero[i] {
			return vcore.Violatef("unwritten-octet", "octet %d depends on previous buffer content", i)
		}
	}
	d, derr := refDecode(zero)
	if derr != nil {
		return vcore.Violatef("malformed", "reference decoder rejects %x...: %v", zero[:min(len(zero), 20)], derr)
	}
	if d.version != 1 || d.pt != 1 {
		return vcore.Violatef("version-pt", "version %d pt %d", d.version, d.pt)
	}
	if d.s != 0 || d.pn != 0 {
		return vcore.Violatef("flags", "S=%d PN=%d for flags 0x34", d.s, d.pn)
	}
	if d.msgType != 255 {
		return vcore.Violatef("type", "message type %d", d.msgType)
	}
	if d.teid != c.TEID {
		return vcore.Violatef("teid", "teid %#x want %#x", d.teid, c.TEID)
	}
	if !bytes.Equal(d.payload, c.Payload) {
		return vcore.Violatef("payload", "payload differs (got %d bytes, want %d)", len(d.payload), len(c.Payload))
	}
	if c.WithExt {
		if len(d.exts) != 1 {
			return vcore.Violatef("ext-count", "%d extension headers, want 1", len(d.exts))
		}
		if d.extTypes[0] != 0x85 {
			return vcore.Violatef("ext-type", "extension type %#x want 0x85", d.extTypes[0])
		}
		content := d.exts[0]
		if len(content) != 2 {
			return vcore.Violatef("ext-len", "PDU session container content %d octets, want 2 (one 4-octet unit)", len(content))
		}
		if got := content[0] >> 4; got != c.PDUType&0xf {
			return vcore.Violatef("pdu-type", "PDU type %d want %d", got, c.PDUType&0xf)
		}
		if got := content[1] & 0x3f; got != c.QFI {
			return vcore.Violatef("qfi", "QFI %d want %d", got, c.QFI)
		}
	} else if len(d.exts) != 0 {
		return vcore.Violatef("ext-count", "%d extension headers, want 0", len(d.exts))
	}
	return nil
}

func account(c Case) {
	vcore.E.Eval()
	nt := (c.WithExt && c.QFI >= 16) || len(c.Payload)%4 != 0
	if nt {
		vcore.E.NonTrivial(vcore.FP(c.WithExt, c.PDUType, c.QFI, len(c.Payload), c.TEID))
	}
	if c.WithExt {
		vcore.E.Class("with_ext")
		if c.QFI >= 16 {
			vcore.E.Class("qfi>=16")
		}
	} else {
		vcore.E.Class("without_ext")
	}
	if len(c.Payload)%4 != 0 {
		vcore.E.Class("payload_unaligned")
	}
}

func sample(c Case) any {
	return map[string]any{"with_ext": c.WithExt, "pdu_type": c.PDUType, "qfi": c.QFI, "teid": c.TEID, "payload_len": len(c.Payload)}
}

func payload(n int, salt byte) []byte {
	p := make([]byte, n)
	for i := range p {
		p[i] = byte(i*7) ^ salt
	}
	return p
}

// shapedPayloads are T-PDUs whose own headers carry length fields: consistent with the buffer, shorter (link-layer padding,
// trailing octets), longer (a cut packet), zero; plus every value of the first octet in front of such fields.
func shapedPayloads() [][]byte {
	var out [][]byte
	be16 := func(b []byte, v int) { b[0], b[1] = byte(v>>8), byte(v) }
	for _, n := range []int{20, 28, 40, 45, 60, 64, 100, 576, 1400, 1500} {
		for _, tl := range []int{n, n - 1, n - 5, n / 2, 20, 21, 0, n + 1, 0xffff} {
			ip4 := payload(n, 0x5a)
			ip4[0] = 0x45
			if tl >= 0 {
				be16(ip4[2:], tl)
			}
			out = append(out, ip4)
			if n >= 40 {
				ip6 := payload(n, 0xa5)
				ip6[0] = 0x60
				be16(ip6[4:], max(tl-40, 0))
				out = append(out, ip6)
			}
		}
		// Ethernet frame whose destination MAC starts 45:00:00:1c / 60:00:00:00:00:08, and an inner G-PDU with a short length
		eth := payload(n, 0x11)
		copy(eth, []byte{0x45, 0x00, 0x00, 0x1c, 0x00, 0x08})
		out = append(out, eth)
		gpdu := payload(n, 0x22)
		copy(gpdu, []byte{0x34, 0xff, 0x00, 0x08})
		out = append(out, gpdu)
	}
	for first := 0; first < 256; first++ {
		b := payload(64, byte(first))
		b[0] = byte(first)
		be16(b[2:], 24)
		be16(b[4:], 8)
		out = append(out, b)
	}
	return out
}

func safeWrite(f func() error) (err error) {
	defer func() {
		if p := recover(); p != nil {
			err = fmt.Errorf("panic: %v", p)
		}
	}()
	return f()
}

// writePacket drives the real Gtp5g.WritePacket (the assembly site for buffered packets) over a loopback socket.
func writePacket(t *testing.T) {
	n, err := stack.ReserveNet(stack.Net2FromEnv(114))
	if err != nil {
		t.Fatalf("infrastructure: %v", err)
	}
	d, err := fullstack.NewDriver(fullstack.Opts{GtpuAddr: n.IP(1) + ":2152", NoMcast: true})
	if err != nil {
		t.Fatalf("infrastructure: %v", err)
	}
	defer d.Close()
	n0 := n
	gnb, err := stack.NewSock(n.IP(10), 2152)
	if err != nil {
		t.Fatalf("infrastructure: %v", err)
	}
	defer gnb.Conn.Close()
	// Outer Header Creation descriptions that ask for a GTP-U/UDP/IPv4 header: plain, with the N19 / N6 / LL-SSM indications of
	// octet 6 (flags, not encapsulations), and together with the IPv6 bit
	descs := []uint16{0x0100, 0x0101, 0x0102, 0x0104, 0x0300}
	var shaped []byte // when set: the payload of the next packet (its length is l)
	one := func(t vcore.Failer, teid uint32, qfi, l int) {
		desc := descs[(qfi+1+l)%len(descs)]
		if desc != 0x0100 {
			vcore.E.Class("through_WritePacket:description_with_indication_flags_or_ipv6_bit")
		}
		far := &gtp5gnl.FAR{Param: &gtp5gnl.ForwardParam{Creation: &gtp5gnl.HeaderCreation{Desc: desc, TEID: teid, PeerAddr: net.ParseIP(n.IP(10)).To4(), Port: 2152}}}
		var qer *gtp5gnl.QER
		if qfi >= 0 {
			qer = &gtp5gnl.QER{QFI: uint8(qfi)}
			if l%2 == 1 {
				// a QER as the data plane really hands it back: every other field set as well (reflective QoS, paging
				// policy, gates, rates ...); the packet is a downlink G-PDU of PDU type 0 with this QFI all the same
				qer.ID, qer.Gate, qer.CorrID, qer.RQI, qer.PPI = 0xfffffffe, 0x0f, 0xffffffff, 1, 7
				qer.MBR.ULHigh, qer.MBR.DLHigh, qer.GBR.ULHigh, qer.GBR.DLHigh = 0xffffffff, 0xffffffff, 0xffffffff, 0xffffffff
				qer.PDRIDs = []uint16{1, 0xffff}
			}
		}
		pl := payload(l, byte(qfi))
		if shaped != nil {
			pl = shaped
		}
		c := Case{WithExt: qfi >= 0, QFI: uint8(max(qfi, 0)), TEID: teid, Payload: pl}
		account(c)
		vcore.E.Class("through_WritePacket")
		if err := safeWrite(func() error { return d.G.WritePacket(far, qer, pl) }); err != nil {
			vcore.Report(t, vcore.Violatef("writepacket-error", "WritePacket: %v", err), c)
			return
		}
		b, err := gnb.RecvTimeout(5 * time.Second)
		if err != nil {
			vcore.Report(t, vcore.Violatef("writepacket-lost", "re-injected packet did not arrive: %v", err), c)
			return
		}
		p, derr := gtpref.Decode(b)
		if derr != nil {
			vcore.Report(t, vcore.Violatef("malformed", "WritePacket: reference decoder rejects the datagram: %v", derr), c)
			return
		}
		q, has := p.QFI()
		if first, units, ok := p.PSC(); ok && (first != 0 || units != 1) {
			// a re-injected downlink packet: PDU type 0, no optional PSC fields announced, one 4-octet unit
			vcore.Report(t, vcore.Violatef("writepacket-psc", "WritePacket(teid %#x, qfi %d, QER %+v): PDU Session Container starts with octet %#02x (PDU type %d, flags %#x) in %d unit(s); want PDU type 0 in one unit",
				teid, qfi, *qer, first, first>>4, first&0x0f, units), c)
		}
		if p.Version != 1 || p.PT != 1 || p.Type != 255 || p.TEID != teid || !bytes.Equal(p.Payload, pl) || has != (qfi >= 0) || (has && int(q) != qfi) {
			vcore.Report(t, vcore.Violatef("writepacket-fields", "WritePacket(teid %#x, qfi %d, %d payload bytes) produced version %d pt %d type %d teid %#x qfi %d (present %v) payload %d bytes",
				teid, qfi, l, p.Version, p.PT, p.Type, p.TEID, q, has, len(p.Payload)), c)
		}
	}
	// payload lengths around the alignment units, around the 1500-octet MTU (with and without the 4 octets of the
	// PDU Session Container), around powers of two and jumbo frames: a buffered packet is whatever the kernel held
	lens := []int{0, 1, 2, 3, 4, 5, 1399, 1400, 1401, 1495, 1496, 1497, 1498, 1499, 1500, 1501, 1502, 1503, 1504, 2047, 2048, 2049, 4095, 4096, 4097, 8192, 9000}
	for _, teid := range []uint32{0, 1, 0x80000000, 0xffffffff} {
		for qfi := -1; qfi < 64; qfi++ {
			for _, l := range lens {
				one(t, teid, qfi, l)
			}
		}
	}
	// payloads that are packets: what the data plane buffers is a T-PDU - an IPv4 or IPv6 datagram, an Ethernet frame, an
	// unstructured blob, a G-PDU of an inner tunnel - and it goes out as handed up, whatever its own header says about its
	// length: IP length fields equal to, below and above the buffer's length, every first octet, trailing octets
	for _, sp := range shapedPayloads() {
		for _, qfi := range []int{-1, 9, 41} {
			shaped = sp
			vcore.E.Class("through_WritePacket:payload_with_a_packet_header_of_its_own")
			one(t, 0x1000+uint32(len(sp)), qfi, len(sp))
		}
	}
	shaped = nil
	// back to back: when a FAR stops buffering, its packets are re-injected one right after the other; each datagram must still be
	// its own packet (2-12 packets written without reading in between, then read and matched by their TEIDs)
	vcore.Check(t, vcore.N(300, 4000), func(rt *rapid.T) {
		n := rapid.IntRange(2, 12).Draw(rt, "burst")
		type pk struct {
			teid uint32
			qfi  int
			pl   []byte
		}
		var sent []pk
		base := rapid.Uint32Range(0, 1<<32-64).Draw(rt, "teid0")
		for i := 0; i < n; i++ {
			sent = append(sent, pk{teid: base + uint32(i), qfi: rapid.IntRange(-1, 63).Draw(rt, "qfi"),
				pl: payload(rapid.OneOf(rapid.IntRange(0, 64), rapid.IntRange(0, 1500)).Draw(rt, "len"), byte(i))})
		}
		vcore.E.Eval()
		vcore.E.Class("through_WritePacket:back_to_back")
		for _, p := range sent {
			far := &gtp5gnl.FAR{Param: &gtp5gnl.ForwardParam{Creation: &gtp5gnl.HeaderCreation{Desc: 0x0100, TEID: p.teid, PeerAddr: net.ParseIP(n0.IP(10)).To4(), Port: 2152}}}
			var qer *gtp5gnl.QER
			if p.qfi >= 0 {
				qer = &gtp5gnl.QER{QFI: uint8(p.qfi)}
			}
			pl := p.pl
			if err := safeWrite(func() error { return d.G.WritePacket(far, qer, pl) }); err != nil {
				vcore.Report(rt, vcore.Violatef("writepacket-error", "WritePacket: %v", err), Case{TEID: p.teid, Payload: p.pl})
				return
			}
		}
		got := map[uint32]*gtpref.Packet{}
		for i := 0; i < n; i++ {
			b, err := gnb.RecvTimeout(5 * time.Second)
			if err != nil {
				vcore.Report(rt, vcore.Violatef("writepacket-lost", "burst of %d re-injected packets: datagram %d did not arrive: %v", n, i, err), Case{TEID: base})
				return
			}
			pp, derr := gtpref.Decode(b)
			if derr != nil {
				vcore.Report(rt, vcore.Violatef("malformed", "burst of %d packets written back to back: datagram %d is rejected by the reference decoder: %v", n, i, derr), Case{TEID: base})
				return
			}
			got[pp.TEID] = pp
		}
		for i, p := range sent {
			pp := got[p.teid]
			if pp == nil {
				vcore.Report(rt, vcore.Violatef("writepacket-fields", "burst of %d packets written back to back: no datagram carries TEID %#x of packet %d", n, p.teid, i), Case{TEID: p.teid, Payload: p.pl})
				return
			}
			q, has := pp.QFI()
			if !bytes.Equal(pp.Payload, p.pl) || has != (p.qfi >= 0) || (has && int(q) != p.qfi) {
				vcore.Report(rt, vcore.Violatef("writepacket-fields", "burst of %d packets written back to back: packet %d (teid %#x, qfi %d, %d payload octets) arrived with qfi %d (present %v) and %d payload octets",
					n, i, p.teid, p.qfi, len(p.pl), q, has, len(pp.Payload)), Case{TEID: p.teid, Payload: p.pl})
				return
			}
		}
	})
	vcore.Check(t, vcore.N(1500, 20000), func(rt *rapid.T) {
		l := rapid.OneOf(rapid.IntRange(0, 9000), rapid.IntRange(1480, 1520), rapid.IntRange(0, 64)).Draw(rt, "len")
		one(rt, rapid.Uint32().Draw(rt, "teid"), rapid.IntRange(-1, 63).Draw(rt, "qfi"), l)
	})
}

func TestC14(t *testing.T) {
	files, explicit := vcore.ReplayFiles()
	for _, f := range files {
		var c Case
		if err := vcore.LoadReplayCase(f, &c); err != nil {
			t.Fatalf("replay %s: %v", f, err)
		}
		account(c)
		vcore.E.Class("replayed")
		vcore.Report(t, check(c), c)
	}
	if explicit {
		return
	}

	// exhaustive core
	lens := []int{0, 1, 2, 3, 4, 5, 6, 7, 8, 9, 1399, 1400, 1401, 1499, 1500, 1501}
	if vcore.Thorough() {
		lens = append(lens, 63, 64, 65, 8999, 9000, 9001, 65000)
	}
	teids := []uint32{0, 1, 1 << 31, 1<<32 - 1}
	for _, l := range lens {
		p := payload(l, byte(l))
		for _, teid := range teids {
			c := Case{WithExt: false, TEID: teid, Payload: p}
			account(c)
			vcore.Report(t, check(c), c)
			for qfi := 0; qfi < 64; qfi++ {
				for pt := 0; pt < 16; pt++ {
					c := Case{WithExt: true, PDUType: uint8(pt), QFI: uint8(qfi), TEID: teid, Payload: p}
					account(c)
					if qfi == 37 && pt == 0 && teid == 1 && (l == 5 || l == 1401) {
						vcore.E.Sample(fmt.Sprintf("exhaustive-len%d", l), sample(c))
					}
					vcore.Report(t, check(c), c)
				}
			}
		}
	}
	vcore.E.SetExtra("exhaustive_core", "QFI 0..63 x PDU type 0..15 x {ext,no ext} x listed payload lengths x 4 TEIDs enumerated completely")

	if !vcore.Thorough() || vcore.Cfg.Shard == 0 {
		writePacket(t)
	}

	// random part
	vcore.Check(t, vcore.N(20000, 400000), func(rt *rapid.T) {
		c := Case{
			WithExt: rapid.Bool().Draw(rt, "ext"),
			TEID:    rapid.Uint32().Draw(rt, "teid"),
			Payload: rapid.SliceOfN(rapid.Byte(), 0, 9000).Draw(rt, "payload"),
		}
		if c.WithExt {
			c.PDUType = rapid.Uint8Range(0, 15).Draw(rt, "pdutype")
			c.QFI = rapid.Uint8Range(0, 63).Draw(rt, "qfi")
		}
		account(c)
		vcore.E.Sample(fmt.Sprintf("random-ext%v", c.WithExt), sample(c))
		vcore.Report(rt, check(c), c)
	})
}
