//go:build verif

// Package rulepath follows Create / Update / Remove IEs from a PFCP session
// message down to the netlink requests the (simulated) kernel receives: the
// real PfcpServer, its session bookkeeping, the real Gtp5g driver.
//
// C02 and C03 compare, IE by IE, what the driver hands to the kernel with what
// the IE says - by calling the driver.  That cannot see an IE that never gets
// to the driver: the session layer decides, from its own tables of rule ids,
// whether a Create / Update / Remove is passed on at all.  Here histories of
// well-formed messages are generated from a model of the rules a session has
// (every op is legal: create what is not there, update or remove what is
// there; no rule named twice in one message; rule ids 0-3 in every id space so
// that a FAR, a QER and a URR with the same number coexist), and
//
// A Create for a rule the session already has is drawn now and then; the data
// plane refuses it, the installed rule is untouched and must stay updatable.
//
// Oracle: every (other) IE of an answered message produces exactly one netlink request
// of the matching kind (create / update / remove), for the session's own SEID
// and the IE's rule id, and the kernel accepts it.
package rulepath

import (
	"fmt"
	"github.com/free5gc/go-gtp5gnl"
	"sort"
	"sync"

	"github.com/wmnsk/go-pfcp/message"
	"pgregory.net/rapid"

	"github.com/free5gc/go-upf/internal/verif/fullstack"
	"github.com/free5gc/go-upf/internal/verif/simkernel"
	"github.com/free5gc/go-upf/internal/verif/stack"
	"github.com/free5gc/go-upf/internal/verif/vcore"
)

type Case struct {
	Msgs [][]stack.RuleOp `json:"msgs"` // Msgs[0] is the establishment
	// Fails: (message, op) pairs of Create IEs in modifications whose netlink request the data plane refuses once (ENOMEM, before
	// it takes effect): the rule does not exist afterwards, and the SMF's next Create for it must be passed on like any other
	Fails [][2]int `json:"fails,omitempty"`
}

type Stats struct {
	SameNumber    bool // a rule was removed (or updated) while a rule of another kind with the same id existed
	RefusedCreate bool // a Create for a rule that exists (refused by the data plane)
	Rejected      bool // such a message was not answered 'accepted': the case ends there, nothing is concluded
	Retried       bool // a Create for a rule whose earlier Create the data plane had refused (transient error)
	Ops           int
}

var kinds = []string{"FAR", "QER", "URR", "BAR", "PDR"}

func build(t *rapid.T, verb, kind string, id uint32, have map[string]map[uint32]bool) stack.RuleOp {
	r := stack.RuleOp{Verb: verb, Kind: kind, ID: id}
	if verb == "remove" {
		return r
	}
	if rapid.IntRange(0, 2).Draw(t, "permute") == 0 {
		r.Perm = rapid.Uint32Range(1, 1<<32-1).Draw(t, "perm")
	}
	switch kind {
	case "FAR":
		// DROP, FORW, BUFF, BUFF|NOCP: an Update FAR leaving BUFF makes the driver look up the FAR's PDRs and their QERs first
		r.Action, r.HasAction = rapid.SampledFrom([]uint16{1, 2, 2, 4, 4, 0x0c}).Draw(t, "action"), true
		if verb == "create" || rapid.Bool().Draw(t, "ohc") {
			r.OHC = &stack.OHC{TEID: rapid.Uint32().Draw(t, "teid"), Peer: "10.0.0.9"}
		}
	case "QER":
		r.QFI = uint8(rapid.IntRange(1, 63).Draw(t, "qfi"))
		r.Gate = uint8(rapid.IntRange(0, 15).Draw(t, "gate"))
	case "URR":
		r.Method, r.Trig = uint8(rapid.IntRange(1, 7).Draw(t, "method")), 0x02
		r.MNOP = rapid.Bool().Draw(t, "mnop")
	case "PDR":
		r.Prec = uint32(rapid.IntRange(1, 1000).Draw(t, "prec"))
		if verb == "create" {
			r.SrcIf, r.UEIP = 1, "10.60.0.1"
		}
		r.FAR = uint32(rapid.IntRange(1, 3).Draw(t, "far"))
		for fid := uint32(1); fid <= 3; fid++ {
			if have["FAR"][fid] && rapid.Bool().Draw(t, "existing_far") {
				r.FAR = fid
			}
		}
		for q := uint32(1); q <= 3; q++ {
			if have["QER"][q] && rapid.IntRange(0, 2).Draw(t, "qer") == 0 {
				r.QERs = append(r.QERs, q)
			}
			if have["URR"][q] && rapid.IntRange(0, 1).Draw(t, "urr") == 0 {
				r.URRs = append(r.URRs, q)
			}
		}
	}
	return r
}

// Gen draws an establishment and 1-8 modifications.
func Gen(t *rapid.T) Case {
	have := map[string]map[uint32]bool{}
	for _, k := range kinds {
		have[k] = map[uint32]bool{}
	}
	var c Case
	nm := rapid.IntRange(2, 9).Draw(t, "msgs")
	for m := 0; m < nm; m++ {
		var ops []stack.RuleOp
		named := map[string]bool{}
		bar := map[string]bool{}
		failing := map[int]bool{}
		n := rapid.IntRange(1, 6).Draw(t, "ops")
		for i := 0; i < n; i++ {
			kind := rapid.SampledFrom(kinds).Draw(t, "kind")
			maxID := 3
			if kind == "BAR" {
				maxID = 2
			}
			id := uint32(rapid.IntRange(0, maxID).Draw(t, "id"))
			if named[fmt.Sprintf("%s%d", kind, id)] {
				continue
			}
			verb := "create"
			if have[kind][id] {
				// now and then a Create for a rule that is already there: the data plane refuses it and the rule stays as it is
				verb = rapid.SampledFrom([]string{"update", "update", "update", "remove", "remove", "create"}).Draw(t, "verb")
			}
			if m == 0 && verb != "create" {
				continue
			}
			if kind == "BAR" {
				if bar[verb] {
					continue // a message carries one Create / Update / Remove BAR IE at most
				}
				bar[verb] = true
			}
			named[fmt.Sprintf("%s%d", kind, id)] = true
			if m > 0 && verb == "create" && !have[kind][id] && kind != "PDR" && rapid.IntRange(0, 5).Draw(t, "enomem") == 0 {
				failing[len(ops)] = true
				c.Fails = append(c.Fails, [2]int{m, len(ops)})
			}
			ops = append(ops, build(t, verb, kind, id, have))
		}
		// apply to the model after the whole message has been drawn: ops of one message do not see each other
		for oi, o := range ops {
			if failing[oi] {
				continue // refused by the data plane: the rule does not exist
			}
			switch o.Verb {
			case "create":
				have[o.Kind][o.ID] = true
			case "remove":
				delete(have[o.Kind], o.ID)
			}
		}
		if m == 0 && len(ops) == 0 {
			ops = append(ops, build(t, "create", "FAR", 1, have))
			have["FAR"][1] = true
		}
		c.Msgs = append(c.Msgs, ops)
	}
	return c
}

// Run plays the case; only ops whose kind is in assert are asserted (C02: PDR FAR, C03: QER URR BAR).
func Run(c Case, assert map[string]bool) (v *vcore.Violation, stt Stats) {
	f, err := fullstack.NewFull(fullstack.FullOpts{Nodes: 1})
	if err != nil {
		panic("infrastructure: " + err.Error())
	}
	defer func() {
		if cerr := f.Close(); cerr != nil && v == nil {
			v = vcore.Violatef("stop-hang", "%v", cerr)
		}
		if f.S.Dead != nil && v == nil {
			v = vcore.Violatef(f.S.Dead.Key, "UPF fatal exit: %.600s", f.S.Dead.Msg)
		}
	}()
	r := f.R
	if o := r.Step(stack.Op{Kind: "assoc", Peer: 0, Node: 0, Sess: -1}); o.Dead != nil || o.Stuck {
		return vcore.Violatef("prefix", "association failed"), stt
	}
	have := map[string]map[uint32]bool{}
	for _, k := range kinds {
		have[k] = map[uint32]bool{}
	}
	var up uint64
	var failMu sync.Mutex
	toFail := map[simkernel.RuleKey]bool{}
	wasRefused := map[string]bool{}
	f.D.K.Fail = func(q *simkernel.Request) int {
		key, op := simkernel.Classify(q)
		failMu.Lock()
		defer failMu.Unlock()
		if op == "create" && toFail[key] {
			delete(toFail, key)
			return 12 // ENOMEM
		}
		return 0
	}
	for mi, ops := range c.Msgs {
		failing := map[int]bool{}
		failMu.Lock()
		for _, fl := range c.Fails {
			if fl[0] == mi && fl[1] < len(ops) && mi > 0 {
				failing[fl[1]] = true
				toFail[simkernel.RuleKey{Kind: ops[fl[1]].Kind, SEID: up, ID: uint64(ops[fl[1]].ID)}] = true
			}
		}
		failMu.Unlock()
		f.D.K.TakeLog()
		var o *stack.Obs
		if mi == 0 {
			o = r.Step(stack.Op{Kind: "est", Peer: 0, Node: 0, Sess: -1, CP: 0x77, Rules: ops})
		} else {
			o = r.Step(stack.Op{Kind: "mod", Peer: 0, Sess: 0, Rules: ops})
		}
		if o.Dead != nil {
			return vcore.Violatef(o.Dead.Key, "message %d: UPF fatal exit: %.600s", mi, o.Dead.Msg), stt
		}
		if o.Stuck {
			return vcore.Violatef("stuck", "message %d: no heartbeat answer", mi), stt
		}
		if mi == 0 {
			if o.NewSess < 0 || !r.Sess[o.NewSess].Known {
				return vcore.Violatef("est-failed", "establishment not accepted"), stt
			}
			up = r.Sess[0].UP
		} else {
			answered := false
			for _, m := range o.Msgs[0] {
				if mr, ok := m.(*message.SessionModificationResponse); ok && stack.Cause(mr) == 1 {
					answered = true
				}
			}
			if !answered {
				dup := false
				for _, op := range ops {
					if op.Verb == "create" && have[op.Kind][op.ID] {
						dup = true
					}
				}
				if dup || len(failing) > 0 {
					// the message re-creates a rule the session has: go-upf answers 'accepted' and leaves the installed rule alone,
					// but rejecting the message is as good an answer; what was applied of it is then unknown to this model
					stt.Rejected = true
					return nil, stt
				}
				return vcore.Violatef("mod-not-accepted", "message %d %s: Modification of a live session not accepted", mi, brief(ops)), stt
			}
		}
		for s := range r.Pending {
			r.Pending[s] = nil
		}
		// what reached the kernel
		type rq struct {
			key simkernel.RuleKey
			op  string
		}
		seen := map[rq][]int{}
		types := map[rq][]map[int]bool{} // attribute types of each request, per rule and operation
		for _, q := range f.D.K.TakeLog() {
			q := q
			key, op := simkernel.Classify(&q)
			if op == "" || op == "get" {
				continue
			}
			seen[rq{key, op}] = append(seen[rq{key, op}], q.Errno)
			ts := map[int]bool{}
			for _, a := range q.Attrs {
				ts[a.Type] = true
			}
			types[rq{key, op}] = append(types[rq{key, op}], ts)
		}
		for oi, op := range ops {
			stt.Ops++
			rid := fmt.Sprintf("%s%d", op.Kind, op.ID)
			if op.Verb == "create" && wasRefused[rid] && !failing[oi] {
				stt.Retried = true
			}
			for _, k := range kinds {
				if k != op.Kind && have[k][op.ID] && op.Verb != "create" {
					stt.SameNumber = true
				}
			}
			if !assert[op.Kind] {
				continue
			}
			if op.Verb == "create" && have[op.Kind][op.ID] {
				stt.RefusedCreate = true
				// refused by the data plane (EEXIST); what matters is that the installed rule can still be updated - and that it
				// has not been rewritten with part of the refused IE: a driver that answers the refusal by writing the rule again
				// must write all of it (the create-only PDR_UNIX_SOCKET_PATH aside)
				key := simkernel.RuleKey{Kind: op.Kind, SEID: up, ID: uint64(op.ID)}
				updIE := false
				for _, o2 := range ops {
					if o2.Verb == "update" && o2.Kind == op.Kind && o2.ID == op.ID {
						updIE = true
					}
				}
				if cr := types[rq{key, "create"}]; !updIE && len(cr) > 0 {
					for _, ut := range types[rq{key, "update"}] {
						for a := range cr[0] {
							if !ut[a] && !(op.Kind == "PDR" && a == gtp5gnl.PDR_UNIX_SOCKET_PATH) {
								return vcore.Violatef("refused-create-rewrote-rule", "message %d %s: the Create %s %d for a rule that exists was refused by the data plane, and the installed rule was then written again without attribute %d of the IE: neither the installed rule nor the IE's content", mi, brief(ops), op.Kind, op.ID, a), stt
							}
						}
					}
				}
				continue
			}
			got := seen[rq{simkernel.RuleKey{Kind: op.Kind, SEID: up, ID: uint64(op.ID)}, op.Verb}]
			if len(got) == 0 {
				return vcore.Violatef("ie-not-passed-on", "message %d %s: the %s %s %d IE of an accepted message for a rule the session %s produced no %s request to the data plane (session %#x); requests seen: %s",
					mi, brief(ops), op.Verb, op.Kind, op.ID, map[bool]string{true: "does not have yet", false: "has"}[op.Verb == "create"], op.Verb, up, seenList(seen)), stt
			}
			if len(got) > 1 {
				return vcore.Violatef("ie-passed-on-twice", "message %d %s: %s %s %d reached the data plane %d times", mi, brief(ops), op.Verb, op.Kind, op.ID, len(got)), stt
			}
			if failing[oi] {
				if got[0] != 12 {
					return vcore.Violatef("harness", "message %d: the refusal arranged for %s %s %d did not take place (errno %d)", mi, op.Verb, op.Kind, op.ID, got[0]), stt
				}
				wasRefused[rid] = true
				continue
			}
			if got[0] != 0 {
				return vcore.Violatef("ie-refused-by-data-plane", "message %d %s: %s %s %d was answered errno %d by the data plane although the session's history makes it legal", mi, brief(ops), op.Verb, op.Kind, op.ID, got[0]), stt
			}
		}
		for oi, op := range ops {
			if failing[oi] {
				continue
			}
			switch op.Verb {
			case "create":
				have[op.Kind][op.ID] = true
			case "remove":
				delete(have[op.Kind], op.ID)
			}
		}
		failMu.Lock()
		for k := range toFail {
			delete(toFail, k) // an arranged refusal that no request met does not wait for a later message
		}
		failMu.Unlock()
	}
	return nil, stt
}

func brief(ops []stack.RuleOp) string {
	s := "["
	for i, o := range ops {
		if i > 0 {
			s += " "
		}
		s += fmt.Sprintf("%s-%s%d", o.Verb, o.Kind, o.ID)
	}
	return s + "]"
}

func seenList[K comparable](m map[K][]int) string {
	var out []string
	for k, v := range m {
		out = append(out, fmt.Sprintf("%v=%v", k, v))
	}
	sort.Strings(out)
	return fmt.Sprint(out)
}

// Brief renders a case for evidence samples.
func Brief(c Case) []string {
	var out []string
	for _, m := range c.Msgs {
		out = append(out, brief(m))
	}
	return out
}
