//go:build verif

// Package gtpref is an independent reference decoder for GTPv1-U G-PDUs
// (TS 29.281 section 5, PDU Session Container per TS 38.415 5.5.2).
package gtpref

import (
	"encoding/binary"
	"fmt"
)

type Packet struct {
	Version, PT, E, S, PN uint8
	Type                  uint8
	Length                uint16
	TEID                  uint32
	ExtTypes              []uint8
	Exts                  [][]byte // content without the length and next-type octets
	Payload               []byte
}

func Decode(b []byte) (*Packet, error) {
	if len(b) < 8 {
		return nil, fmt.Errorf("shorter than the mandatory header: %d", len(b))
	}
	d := &Packet{}
	d.Version = b[0] >> 5
	d.PT = (b[0] >> 4) & 1
	if b[0]&0x08 != 0 {
		return nil, fmt.Errorf("spare bit set in flags %#x", b[0])
	}
	d.E, d.S, d.PN = (b[0]>>2)&1, (b[0]>>1)&1, b[0]&1
	d.Type = b[1]
	d.Length = binary.BigEndian.Uint16(b[2:4])
	d.TEID = binary.BigEndian.Uint32(b[4:8])
	if int(d.Length) != len(b)-8 {
		return nil, fmt.Errorf("length field %d but %d bytes follow the mandatory header", d.Length, len(b)-8)
	}
	pos := 8
	if d.E|d.S|d.PN != 0 {
		if len(b) < 12 {
			return nil, fmt.Errorf("optional fields truncated")
		}
		next := b[11]
		pos = 12
		if d.E == 0 && next != 0 {
			return nil, fmt.Errorf("E=0 but next extension type %#x", next)
		}
		for next != 0 {
			if pos >= len(b) {
				return nil, fmt.Errorf("extension chain runs past the packet")
			}
			units := int(b[pos])
			if units == 0 {
				return nil, fmt.Errorf("extension header length 0")
			}
			end := pos + units*4
			if end > len(b) {
				return nil, fmt.Errorf("extension header runs past the packet")
			}
			d.ExtTypes = append(d.ExtTypes, next)
			d.Exts = append(d.Exts, b[pos+1:end-1])
			next = b[end-1]
			pos = end
		}
	}
	d.Payload = b[pos:]
	return d, nil
}

// QFI returns the QoS flow identifier of the PDU Session Container, if any.
func (p *Packet) QFI() (uint8, bool) {
	for i, t := range p.ExtTypes {
		if t == 0x85 && len(p.Exts[i]) >= 2 {
			return p.Exts[i][1] & 0x3f, true
		}
	}
	return 0, false
}

// PSC returns the first octet of the PDU Session Container (PDU type in the high nibble, QMP / SNP / spare below) and
// the number of 4-octet units the extension header occupies.
func (p *Packet) PSC() (first uint8, units int, ok bool) {
	for i, t := range p.ExtTypes {
		if t == 0x85 && len(p.Exts[i]) >= 2 {
			return p.Exts[i][0], (len(p.Exts[i]) + 2) / 4, true
		}
	}
	return 0, 0, false
}
