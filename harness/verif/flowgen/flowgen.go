//go:build verif

// Package flowgen holds the grammar-based generator and the reference
// denotation of IPFilterRule flow descriptions shared by C16 and C02.
package flowgen

import (
	"fmt"
	"net"
	"strconv"
	"strings"

	"pgregory.net/rapid"

	"github.com/free5gc/go-gtp5gnl"
)

// ---------------------------------------------------------------- reference model

type Addr struct {
	Kind   string  `json:"kind"` // any | assigned | host | prefix
	IP     [4]byte `json:"ip"`
	Prefix int     `json:"prefix"`
}

type PortItem struct {
	Lo, Hi uint16
	Range  bool
}

type Rule struct {
	Dir      string     `json:"dir"`
	Proto    int        `json:"proto"` // -1 = "ip"
	Src      Addr       `json:"src"`
	SrcPorts []PortItem `json:"src_ports"`
	Dst      Addr       `json:"dst"`
	DstPorts []PortItem `json:"dst_ports"`
	Seps     []string   `json:"seps"` // separators between tokens (and leading/trailing)
}

// filter is the denotation of a rule.
type Filter struct {
	Action, Dir        uint8
	Proto              uint8
	SrcNet, DstNet     [4]byte
	SrcMask, DstMask   [4]byte
	SrcPorts, DstPorts [][2]uint16
}

func (a Addr) Text() string {
	switch a.Kind {
	case "any", "assigned":
		return a.Kind
	case "host":
		return net.IP(a.IP[:]).String()
	default:
		return fmt.Sprintf("%s/%d", net.IP(a.IP[:]).String(), a.Prefix)
	}
}

func (a Addr) Denote() (n, m [4]byte) {
	switch a.Kind {
	case "any", "assigned":
		return
	case "host":
		return a.IP, [4]byte{255, 255, 255, 255}
	default:
		mask := net.CIDRMask(a.Prefix, 32)
		for i := 0; i < 4; i++ {
			m[i] = mask[i]
			n[i] = a.IP[i] & mask[i]
		}
		return
	}
}

func PortsText(ps []PortItem) string {
	var parts []string
	for _, p := range ps {
		if p.Range {
			parts = append(parts, fmt.Sprintf("%d-%d", p.Lo, p.Hi))
		} else {
			parts = append(parts, strconv.Itoa(int(p.Lo)))
		}
	}
	return strings.Join(parts, ",")
}

func PortsDenote(ps []PortItem) [][2]uint16 {
	var out [][2]uint16
	for _, p := range ps {
		if p.Range {
			out = append(out, [2]uint16{p.Lo, p.Hi})
		} else {
			out = append(out, [2]uint16{p.Lo, p.Lo})
		}
	}
	return out
}

func (r *Rule) Tokens() []string {
	t := []string{"permit", r.Dir}
	if r.Proto < 0 {
		t = append(t, "ip")
	} else {
		t = append(t, strconv.Itoa(r.Proto))
	}
	t = append(t, "from", r.Src.Text())
	if len(r.SrcPorts) > 0 {
		t = append(t, PortsText(r.SrcPorts))
	}
	t = append(t, "to", r.Dst.Text())
	if len(r.DstPorts) > 0 {
		t = append(t, PortsText(r.DstPorts))
	}
	return t
}

func (r *Rule) Text() string {
	toks := r.Tokens()
	var sb strings.Builder
	sep := func(i int) string {
		if i < len(r.Seps) && r.Seps[i] != "" {
			return r.Seps[i]
		}
		return " "
	}
	if len(r.Seps) > 0 && strings.TrimSpace(r.Seps[0]) == "" {
		sb.WriteString(r.Seps[0]) // leading blanks (may be empty)
	}
	for i, t := range toks {
		if i > 0 {
			sb.WriteString(sep(i))
		}
		sb.WriteString(t)
	}
	if len(r.Seps) > len(toks) {
		sb.WriteString(r.Seps[len(toks)])
	}
	return sb.String()
}

func (r *Rule) Denote(swap bool) Filter {
	f := Filter{Action: gtp5gnl.SDF_FILTER_PERMIT}
	if r.Dir == "in" {
		f.Dir = gtp5gnl.SDF_FILTER_IN
	} else {
		f.Dir = gtp5gnl.SDF_FILTER_OUT
	}
	if r.Proto < 0 {
		f.Proto = 0xff
	} else {
		f.Proto = uint8(r.Proto)
	}
	f.SrcNet, f.SrcMask = r.Src.Denote()
	f.DstNet, f.DstMask = r.Dst.Denote()
	f.SrcPorts = PortsDenote(r.SrcPorts)
	f.DstPorts = PortsDenote(r.DstPorts)
	if swap {
		f.SrcNet, f.DstNet = f.DstNet, f.SrcNet
		f.SrcMask, f.DstMask = f.DstMask, f.SrcMask
		f.SrcPorts, f.DstPorts = f.DstPorts, f.SrcPorts
	}
	return f
}

// ---------------------------------------------------------------- generators

func GenAddr(t *rapid.T, label string) Addr {
	kind := rapid.SampledFrom([]string{"any", "assigned", "host", "prefix", "prefix"}).Draw(t, label+"kind")
	a := Addr{Kind: kind}
	if kind == "host" || kind == "prefix" {
		b := rapid.SliceOfN(rapid.OneOf(rapid.Byte(), rapid.SampledFrom([]byte{0, 1, 10, 127, 128, 254, 255})), 4, 4).Draw(t, label+"ip")
		copy(a.IP[:], b)
	}
	if kind == "prefix" {
		a.Prefix = rapid.OneOf(rapid.IntRange(0, 32), rapid.SampledFrom([]int{0, 1, 7, 8, 9, 15, 16, 17, 23, 24, 25, 31, 32})).Draw(t, label+"plen")
	}
	return a
}

var portVals = rapid.OneOf(rapid.Uint16(), rapid.SampledFrom([]uint16{0, 1, 80, 255, 256, 1023, 1024, 32767, 32768, 65534, 65535}))

func GenPorts(t *rapid.T, label string) []PortItem {
	n := rapid.SampledFrom([]int{0, 0, 1, 1, 2, 3, 5, 8}).Draw(t, label+"n")
	var ps []PortItem
	for i := 0; i < n; i++ {
		lo := portVals.Draw(t, label+"lo")
		if rapid.Bool().Draw(t, label+"range") {
			hi := portVals.Draw(t, label+"hi")
			if hi < lo {
				lo, hi = hi, lo
			}
			ps = append(ps, PortItem{Lo: lo, Hi: hi, Range: true})
		} else {
			ps = append(ps, PortItem{Lo: lo, Hi: lo})
		}
	}
	return ps
}

func GenRule(t *rapid.T) *Rule {
	r := &Rule{
		Dir:   rapid.SampledFrom([]string{"in", "out"}).Draw(t, "dir"),
		Proto: rapid.OneOf(rapid.Just(-1), rapid.IntRange(0, 255), rapid.SampledFrom([]int{0, 1, 6, 17, 254, 255})).Draw(t, "proto"),
	}
	r.Src = GenAddr(t, "src")
	r.SrcPorts = GenPorts(t, "sp")
	r.Dst = GenAddr(t, "dst")
	r.DstPorts = GenPorts(t, "dp")
	ntok := len(r.Tokens())
	if rapid.Bool().Draw(t, "oddspacing") {
		r.Seps = make([]string, ntok+1)
		for i := range r.Seps {
			s := rapid.SampledFrom([]string{" ", " ", "  ", "\t", " \t ", "   "}).Draw(t, "sep")
			if i == 0 || i == ntok {
				s = rapid.SampledFrom([]string{"", "", " ", "\t", "  "}).Draw(t, "edge")
			}
			r.Seps[i] = s
		}
	}
	return r
}

// Mutate draws a near-miss mutation of a valid rule (shared by C16 and C07).
func Mutate(t *rapid.T, r *Rule) string {
	toks := r.Tokens()
	k := rapid.IntRange(0, 13).Draw(t, "mut")
	i := rapid.IntRange(0, len(toks)-1).Draw(t, "pos")
	switch k {
	case 0: // delete a token
		toks = append(toks[:i:i], toks[i+1:]...)
	case 1: // duplicate a token
		toks = append(toks[:i+1:i+1], toks[i:]...)
	case 2:
		toks[0] = rapid.SampledFrom([]string{"deny", "Permit", "PERMIT", "allow", ""}).Draw(t, "act")
	case 3:
		toks[1] = rapid.SampledFrom([]string{"both", "IN", "inn", "0"}).Draw(t, "dir")
	case 4:
		toks[2] = rapid.SampledFrom([]string{"256", "-1", "tcp", "udp", "0x11", "1e1", "99999999999999999999"}).Draw(t, "proto")
	case 5: // IPv6 / broken addresses
		toks[4] = rapid.SampledFrom([]string{"::1", "2001:db8::/32", "1.2.3", "1.2.3.4.5", "256.1.1.1", "1.2.3.4/33", "1.2.3.4/-1", "1.2.3.4/", "/8", "!1.2.3.4", "01.2.3.4"}).Draw(t, "addr")
	case 6: // broken ports
		p := rapid.SampledFrom([]string{"65536", "1-65536", "-", "1-", "-1", "1,,2", ",", "1-2-3", "9-1", "a", "1;2", "70000-80000"}).Draw(t, "ports")
		toks = append(toks, p)
	case 7:
		toks = append(toks, rapid.SampledFrom([]string{"garbage", "frag", "established", "setup", "tcpflags", "to", "from"}).Draw(t, "suffix"))
	case 8: // replace 'from'/'to'
		for j := range toks {
			if toks[j] == "from" || toks[j] == "to" {
				if rapid.Bool().Draw(t, "rep") {
					toks[j] = rapid.SampledFrom([]string{"form", "TO", "From", "t0"}).Draw(t, "kw")
				}
			}
		}
	case 9: // truncate
		toks = toks[:i]
	case 10: // join two tokens
		if i+1 < len(toks) {
			toks = append(append(toks[:i:i], toks[i]+toks[i+1]), toks[i+2:]...)
		}
	case 11: // unicode / control characters as separators
		return strings.Join(toks, rapid.SampledFrom([]string{" ", "\x00", "\v", "\r\n", " "}).Draw(t, "usep"))
	case 12: // ports in place of addresses
		toks[4] = "80"
	case 13: // swap from/to sections
		toks[3], toks[len(toks)-2] = toks[len(toks)-2], toks[3]
	}
	return strings.Join(toks, " ")
}
