//go:build verif

package c05

import (
	"fmt"
	"sort"
	"time"

	"github.com/wmnsk/go-pfcp/message"
	"pgregory.net/rapid"

	"github.com/free5gc/go-upf/internal/verif/fullstack"
	"github.com/free5gc/go-upf/internal/verif/stack"
	"github.com/free5gc/go-upf/internal/verif/vcore"
)

// ---------------------------------------------------------------- the other sessions' periodic reporting
//
// The model data plane of the histories above has no periodic reporting: the
// arrangement "URR u of session s reports every p seconds" lives in the real
// driver's periodic server, where the URRs of all sessions with the same
// measurement period share one timer group.  It is part of the URR rule of a
// session, so a message for another session must leave it alone.
//
// Real PfcpServer + real Gtp5g driver + simulated kernel; 2 nodes, 2-5 sessions
// with 1-2 PERIO URRs each (rule ids and periods coincide on purpose), then 1-3
// messages - Remove URR, Session Deletion, re-association of a node, an Update
// URR - each followed by a tick of every period (injected into the periodic
// server).  Oracle: after each message every session that was neither
// addressed nor ended by it receives, per tick, one Session Report Request at
// its own node's socket naming exactly its own periodic URRs of that period.
// (What the addressed session itself reports is C03's and C10's subject.)

var perioSec = []uint32{3600, 7200}

type PURR struct {
	ID  uint32 `json:"id"`
	Per int    `json:"per"` // index into perioSec
}

type PSess struct {
	Node int    `json:"node"`
	URRs []PURR `json:"urrs"`
}

type PAct struct {
	Kind string `json:"kind"` // rmurr rmall del reassoc updurr
	Sess int    `json:"sess"`
	URR  int    `json:"urr"` // index into the session's URRs
}

type PCase struct {
	Sess []PSess `json:"sess"`
	Acts []PAct  `json:"acts"`
}

type pstats struct {
	samePeriodBystander bool // a bystander shared the period of a URR that the message removed
	lastOfPeriod        bool // the message removed the addressed session's last periodic URR of a period a bystander uses
}

func runPerio(c PCase) (v *vcore.Violation, stt pstats) {
	f, err := fullstack.NewFull(fullstack.FullOpts{Nodes: 2})
	if err != nil {
		panic("infrastructure: " + err.Error())
	}
	defer func() {
		if cerr := f.Close(); cerr != nil && v == nil {
			v = vcore.Violatef("stop-hang", "%v", cerr)
		}
		if f.S.Dead != nil && v == nil {
			v = vcore.Violatef(f.S.Dead.Key, "UPF fatal exit: %.600s", f.S.Dead.Msg)
		}
	}()
	r := f.R
	for n := 0; n < 2; n++ {
		if o := r.Step(stack.Op{Kind: "assoc", Peer: n, Node: n, Sess: -1}); o.Dead != nil || o.Stuck {
			return vcore.Violatef("prefix", "association failed"), stt
		}
	}
	type ms struct {
		spec  PSess
		ref   int
		alive bool
		urrs  map[uint32]int // id -> period index
	}
	var all []*ms
	perNode := map[int]int{}
	for i, sp := range c.Sess {
		var rules []stack.RuleOp
		var refs []uint32
		m := &ms{spec: sp, alive: true, urrs: map[uint32]int{}}
		for _, u := range sp.URRs {
			rules = append(rules, stack.RuleOp{Verb: "create", Kind: "URR", ID: u.ID, Method: 2, Trig: 0x03, Period: perioSec[u.Per]})
			refs = append(refs, u.ID)
			m.urrs[u.ID] = u.Per
		}
		rules = append(rules, stack.RuleOp{Verb: "create", Kind: "PDR", ID: 1, Prec: 1, URRs: refs})
		o := r.Step(stack.Op{Kind: "est", Peer: sp.Node, Node: sp.Node, Sess: -1, CP: uint64(0x50 + perNode[sp.Node]), Rules: rules}) // CP SEIDs are unique per node and coincide across nodes
		if o.Dead != nil || o.NewSess < 0 || !r.Sess[o.NewSess].Known {
			return vcore.Violatef("prefix", "establishment %d not accepted", i), stt
		}
		m.ref = o.NewSess
		perNode[sp.Node]++
		all = append(all, m)
	}
	clear := func() {
		for s := range r.Pending {
			r.Pending[s] = nil
		}
	}
	clear()
	for ai, a := range c.Acts {
		if a.Sess >= len(all) {
			continue
		}
		m := all[a.Sess]
		touched := map[*ms]bool{m: true}
		what := fmt.Sprintf("message %d (%s, session #%d of node %d)", ai, a.Kind, a.Sess, m.spec.Node)
		removed := map[int]bool{} // periods of which the message removed a URR
		var o *stack.Obs
		switch a.Kind {
		case "rmurr", "updurr":
			if !m.alive || len(m.urrs) == 0 {
				continue
			}
			var ids []int
			for id := range m.urrs {
				ids = append(ids, int(id))
			}
			sort.Ints(ids)
			id := uint32(ids[a.URR%len(ids)])
			if a.Kind == "updurr" {
				o = r.Step(stack.Op{Kind: "mod", Peer: m.spec.Node, Sess: m.ref, Rules: []stack.RuleOp{{Verb: "update", Kind: "URR", ID: id, Method: 2, Trig: 0x03, Period: perioSec[m.urrs[id]]}}})
			} else {
				removed[m.urrs[id]] = true
				o = r.Step(stack.Op{Kind: "mod", Peer: m.spec.Node, Sess: m.ref, Rules: []stack.RuleOp{{Verb: "remove", Kind: "URR", ID: id}}})
				delete(m.urrs, id)
			}
		case "rmall":
			if !m.alive || len(m.urrs) == 0 {
				continue
			}
			var rules []stack.RuleOp
			for id, p := range m.urrs {
				removed[p] = true
				rules = append(rules, stack.RuleOp{Verb: "remove", Kind: "URR", ID: id})
			}
			sort.Slice(rules, func(i, j int) bool { return rules[i].ID < rules[j].ID })
			o = r.Step(stack.Op{Kind: "mod", Peer: m.spec.Node, Sess: m.ref, Rules: rules})
			m.urrs = map[uint32]int{}
		case "del":
			if !m.alive {
				continue
			}
			for _, p := range m.urrs {
				removed[p] = true
			}
			o = r.Step(stack.Op{Kind: "del", Peer: m.spec.Node, Sess: m.ref})
			m.alive = false
		case "reassoc":
			for _, x := range all {
				if x.spec.Node == m.spec.Node {
					touched[x] = true
					if x.alive {
						for _, p := range x.urrs {
							removed[p] = true
						}
					}
					x.alive = false
				}
			}
			o = r.Step(stack.Op{Kind: "assoc", Peer: m.spec.Node, Node: m.spec.Node, Sess: -1})
		default:
			continue
		}
		if o.Dead != nil {
			return vcore.Violatef(o.Dead.Key, "%s: UPF fatal exit: %.600s", what, o.Dead.Msg), stt
		}
		if o.Stuck {
			return vcore.Violatef("stuck", "%s: no heartbeat answer", what), stt
		}
		clear()
		for _, x := range all {
			if touched[x] || !x.alive {
				continue
			}
			for _, p := range x.urrs {
				if removed[p] {
					stt.samePeriodBystander = true
					left := false
					for _, y := range all {
						if touched[y] && y.alive {
							for _, q := range y.urrs {
								if q == p {
									left = true
								}
							}
						}
					}
					if !left {
						stt.lastOfPeriod = true
					}
				}
			}
		}
		// a tick of every period: the bystanders report as before
		for per, sec := range perioSec {
			f.D.G.VerifPerio().VerifTick(time.Duration(sec) * time.Second)
			if err := f.PerioBarrier(); err != nil {
				return vcore.Violatef("perio-stuck", "%s, tick of %d s: %v", what, sec, err), stt
			}
			ob := &stack.Obs{Rx: map[int][]stack.Datagram{}, Msgs: map[int][]message.Message{}, NewSess: -1}
			r.Collect(ob)
			if ob.Dead != nil {
				return vcore.Violatef(ob.Dead.Key, "%s, tick: UPF fatal exit", what), stt
			}
			got := map[string][]int{} // "sock/cpseid" -> urr ids reported
			for _, s := range ob.SRRs {
				k := fmt.Sprintf("%d/%#x", s.Sock, s.SEID)
				for _, u := range stack.UsageReports(s.Msg) {
					got[k] = append(got[k], int(u.URR))
				}
			}
			clear()
			for xi, x := range all {
				if touched[x] || !x.alive {
					continue
				}
				var want []int
				for id, p := range x.urrs {
					if p == per {
						want = append(want, int(id))
					}
				}
				sort.Ints(want)
				k := fmt.Sprintf("%d/%#x", x.spec.Node, r.Sess[x.ref].CP)
				g := got[k]
				sort.Ints(g)
				// two sessions of one node never share a CP SEID here, so the key identifies the session
				if fmt.Sprint(g) != fmt.Sprint(want) {
					return vcore.Violatef("bystander-periodic-reports", "%s, then a tick of the %d s period: session #%d (node %d, CP SEID %#x), which the message did not address, reported URRs %v; its periodic URRs of that period are %v",
						what, sec, xi, x.spec.Node, r.Sess[x.ref].CP, g, want), stt
				}
			}
		}
	}
	return nil, stt
}

func genPerio(t *rapid.T) PCase {
	var c PCase
	n := rapid.IntRange(2, 5).Draw(t, "sessions")
	for i := 0; i < n; i++ {
		s := PSess{Node: rapid.IntRange(0, 1).Draw(t, "node")}
		k := rapid.IntRange(1, 2).Draw(t, "urrs")
		for j := 0; j < k; j++ {
			s.URRs = append(s.URRs, PURR{ID: uint32(j + 1), Per: rapid.SampledFrom([]int{0, 0, 1}).Draw(t, "per")})
		}
		c.Sess = append(c.Sess, s)
	}
	m := rapid.IntRange(1, 3).Draw(t, "acts")
	for i := 0; i < m; i++ {
		c.Acts = append(c.Acts, PAct{Kind: rapid.SampledFrom([]string{"rmurr", "rmurr", "rmall", "del", "del", "reassoc", "updurr"}).Draw(t, "kind"),
			Sess: rapid.IntRange(0, n-1).Draw(t, "sess"), URR: rapid.IntRange(0, 1).Draw(t, "urr")})
	}
	return c
}

func accountPerio(c PCase, s pstats) {
	vcore.E.Eval()
	vcore.E.Class("periodic_reporting_of_bystanders")
	if s.samePeriodBystander {
		vcore.E.Class("periodic:bystander_shares_the_period_of_a_removed_urr")
	}
	if s.lastOfPeriod {
		vcore.E.Class("periodic:addressed_session_lost_its_last_urr_of_a_shared_period")
		vcore.E.NonTrivial(vcore.JSON(c))
		vcore.E.Sample("periodic", c)
	}
}

func reportPerio(t vcore.Failer, c PCase, v *vcore.Violation) {
	if v == nil || vcore.IsKnown(v.Key) {
		return
	}
	key := v.Key
	c.Acts = vcore.MinimizeSlice(c.Acts, func(as []PAct) bool {
		x, _ := runPerio(PCase{Sess: c.Sess, Acts: as})
		return x != nil && x.Key == key
	}, 50)
	if x, _ := runPerio(c); x != nil {
		v = x
	}
	vcore.Report(t, v, map[string]any{"perio": c})
}
