//go:build verif

package c05

import (
	"testing"

	"pgregory.net/rapid"

	"github.com/free5gc/go-upf/internal/verif/sessmodel"
	"github.com/free5gc/go-upf/internal/verif/stack"
	"github.com/free5gc/go-upf/internal/verif/vcore"
)

func TestMain(m *testing.M) {
	vcore.Init("C05", "exploration",
		"rapid histories (<= 25 ops) with 3 nodes and up to ~8 sessions whose rule ids (pools of 2-3) and CP SEIDs (unique per peer, equal across peers) deliberately coincide: establishment, modification, deletion, SEID reuse, "+
			"usage and buffer notifications (so queues and UR-SEQN counters are populated), re-association, SEID-0 answers also from wrong peers, takeover (Modification carrying a Node ID); "+
			"oracle = frame condition: before/after every message the server snapshot (rules, URR counters, packet queues, owner) and the model data plane of every session NOT addressed by the message are deep-equal; every data-plane call carries the addressed session's own UP SEID; "+
			"re-association of X removes every session established under X and owned by X, none that is neither (ambiguous ones counted, not asserted); a SEID-0 answer removes at most the one session whose CP SEID and peer address match. "+
			"Second part (real Gtp5g driver, its periodic server, simulated kernel): 2 nodes, 2-5 sessions with 1-2 periodic URRs each (ids and measurement periods coincide), 1-3 messages (Remove URR, remove all, Update URR, Deletion, re-association) each followed by an injected tick of every period: every session neither addressed nor ended by the message reports exactly its own periodic URRs of that period. "+
			"non-trivial = a message was processed while >= 2 live sessions shared a rule id or a CP SEID, or (second part) the addressed session lost its last URR of a period a bystander uses; distinct by history",
		"ownership after takeover onto an existing node id is ambiguous between statement and mechanism: accepted either way, counted as ambiguous",
		"CP SEIDs are unique per peer (a CP function does not reuse its own SEID)",
		"model data plane (kernel semantics) instead of gtp5g in the first part; ticks of the second part are injected into the periodic server (real tickers: C15)")
	vcore.Main(m)
}

var or = sessmodel.Oracles{Frame: true}

func cfg() sessmodel.GenCfg {
	g := stack.DefaultGen()
	g.MaxRules = 4
	g.PDRs, g.FARs, g.URRs = 2, 2, 2
	return sessmodel.GenCfg{MaxOps: 25, SharedCP: true, Takeover: true, Reports: true, Rules: g}
}

func account(c sessmodel.Case, r sessmodel.Result) {
	vcore.E.Eval()
	if r.Stats.SharedAtMsg > 0 {
		vcore.E.Class("msgs_with_shared_ids")
	}
	if r.Stats.EqualCP {
		vcore.E.Class("equal_cp_seids")
	}
	if r.Stats.Takeovers > 0 {
		vcore.E.Class("takeover")
	}
	if r.Stats.Ambiguous > 0 {
		vcore.E.ClassN("ambiguous_ownership_not_asserted", int64(r.Stats.Ambiguous))
	}
	if r.Stats.Reissued > 0 {
		vcore.E.Class("reissued_seid")
	}
	if r.Stats.Ended > 0 {
		vcore.E.Class("session_ended")
	}
	if r.Stats.SharedAtMsg > 0 {
		vcore.E.NonTrivial(vcore.JSON(c))
		vcore.E.Sample("shared-ids", sessmodel.Brief(c))
	}
}

func report(t vcore.Failer, c sessmodel.Case, r sessmodel.Result) {
	if r.V == nil || vcore.IsKnown(r.V.Key) {
		return
	}
	key := r.V.Key
	c.Ops = vcore.MinimizeSlice(c.Ops, func(ops []sessmodel.Op) bool {
		x := sessmodel.Run(sessmodel.Case{Ops: ops, Refuse: c.Refuse}, or)
		return x.V != nil && x.V.Key == key
	}, 300)
	if x := sessmodel.Run(c, or); x.V != nil {
		vcore.Report(t, x.V, c)
	}
	vcore.Report(t, r.V, c)
}

func TestC05(t *testing.T) {
	files, explicit := vcore.ReplayFiles()
	for _, f := range files {
		var w struct {
			sessmodel.Case
			Perio *PCase `json:"perio"`
		}
		if err := vcore.LoadReplayCase(f, &w); err != nil {
			t.Fatalf("replay %s: %v", f, err)
		}
		if w.Perio != nil {
			v, s := runPerio(*w.Perio)
			accountPerio(*w.Perio, s)
			vcore.E.Class("replayed")
			reportPerio(t, *w.Perio, v)
			continue
		}
		c := w.Case
		r := sessmodel.Run(c, or)
		account(c, r)
		vcore.E.Class("replayed")
		report(t, c, r)
	}
	if explicit {
		return
	}
	// the other sessions' periodic reporting (real driver and periodic server)
	vcore.Check(t, vcore.N(150, 1500), func(rt *rapid.T) {
		c := genPerio(rt)
		v, s := runPerio(c)
		accountPerio(c, s)
		reportPerio(rt, c, v)
	})
	g := cfg()
	vcore.Check(t, vcore.N(1200, 12000), func(rt *rapid.T) {
		c := sessmodel.Case{Ops: sessmodel.Gen(rt, g), Refuse: sessmodel.GenRefuse(rt)}
		r := sessmodel.Run(c, or)
		account(c, r)
		report(rt, c, r)
	})
}
