//go:build verif

package c20

import (
	"fmt"
	"net"
	"os"
	"path/filepath"
	"reflect"
	"regexp"
	"strconv"
	"strings"
	"sync"
	"testing"
	"time"

	"gopkg.in/yaml.v2"
	"pgregory.net/rapid"

	"github.com/free5gc/go-upf/internal/forwarder"
	"github.com/free5gc/go-upf/internal/logger"
	"github.com/free5gc/go-upf/internal/report"
	"github.com/free5gc/go-upf/internal/verif/fullstack"
	"github.com/free5gc/go-upf/internal/verif/stack"
	"github.com/free5gc/go-upf/internal/verif/vcore"
	"github.com/free5gc/go-upf/pkg/app"
	"github.com/free5gc/go-upf/pkg/factory"
)

func TestMain(m *testing.M) {
	vcore.Init("C20", "exploration",
		"from a valid YAML document: every single fault exhaustively (each field deleted, emptied, key mistyped, value of the wrong structural type, out of range, each enumerated alternative), rapid multi-faults (2-5), list sizes 0-3, valid variants (log levels, N3/N9, MTU, several DNNs, host names); "+
			"module version strings x.y.z with x in 0..2, y,z in 0..12 exhaustively plus random components up to 10^6. "+
			"accepted configurations are also handed to app.NewApp and the configuration the application then holds is compared the same way; Oracle: never (nil,nil) and never a configuration together with an error; whatever ReadConfig returns as accepted must satisfy an independently written validity predicate over the returned struct "+
			"(version 1.0.3, PFCP address is a host, node id a host resolving for IPv4, non-zero retransmission timeout, forwarder gtp5g, interface entries with host address and type N3/N9, >= 1 DNN each with name and valid CIDR, log level in the list) "+
			"and every value present in the document must appear unchanged; documents valid by construction must be accepted; documents in which a required element is missing, empty, structurally mistyped or out of range must be rejected. "+
			"The version check runs through the real checkVersion against a simulated GET_VERSION reply: success iff (0,9,5) <= (x,y,z) < (0,10,0). NewDriver must return an error and no driver for any forwarder other than gtp5g. "+
			"non-trivial = multi-fault documents, and version strings within +-2 of a bound in any component; distinct by document / version",
		"unspecified and therefore only checked for consistency (accepted => valid and unchanged): scalar type coercions of the YAML library (numbers for strings, unit-less integers for the timeout), IPv6 literals and DNS names as node id, pre-release version suffixes",
		"'localhost' resolves through /etc/hosts in this sandbox")
	vcore.Main(m)
}

// ---------------------------------------------------------------- documents

// doc is a YAML document as a tree of map[string]any / []any / scalars.
type doc = map[string]any

func base() doc {
	return doc{
		"version":     "1.0.3",
		"description": "UPF configuration",
		"pfcp": doc{
			"addr":           "127.0.0.8",
			"nodeID":         "127.0.0.8",
			"retransTimeout": "1s",
			"maxRetrans":     3,
		},
		"gtpu": doc{
			"forwarder": "gtp5g",
			"ifList": []any{
				doc{"addr": "127.0.0.8", "type": "N3", "name": "upf.5gc.nctu.me", "ifname": "gtpif", "mtu": 1400},
			},
		},
		"dnnList": []any{
			doc{"dnn": "internet", "cidr": "10.60.0.0/24", "natifname": "eth0"},
		},
		"logger": doc{"enable": true, "level": "info", "reportCaller": false},
	}
}

func clone(v any) any {
	switch x := v.(type) {
	case doc:
		o := doc{}
		for k, e := range x {
			o[k] = clone(e)
		}
		return o
	case []any:
		o := make([]any, len(x))
		for i, e := range x {
			o[i] = clone(e)
		}
		return o
	default:
		return v
	}
}

// path addresses a node: keys and list indices.
type path []any

func (p path) String() string {
	var s []string
	for _, e := range p {
		s = append(s, fmt.Sprint(e))
	}
	return strings.Join(s, ".")
}

func paths(v any, pre path, out *[]path) {
	switch x := v.(type) {
	case doc:
		for _, k := range sortedKeys(x) {
			p := append(append(path{}, pre...), k)
			*out = append(*out, p)
			paths(x[k], p, out)
		}
	case []any:
		for i, e := range x {
			p := append(append(path{}, pre...), i)
			*out = append(*out, p)
			paths(e, p, out)
		}
	}
}

func sortedKeys(d doc) []string {
	var ks []string
	for k := range d {
		ks = append(ks, k)
	}
	for i := range ks {
		for j := i + 1; j < len(ks); j++ {
			if ks[j] < ks[i] {
				ks[i], ks[j] = ks[j], ks[i]
			}
		}
	}
	return ks
}

func parent(root any, p path) (any, any) {
	cur := root
	for _, e := range p[:len(p)-1] {
		switch x := cur.(type) {
		case doc:
			k, ok := e.(string)
			if !ok {
				return nil, nil
			}
			cur = x[k]
		case []any:
			i, ok := e.(int)
			if !ok || i >= len(x) {
				return nil, nil
			}
			cur = x[i]
		default:
			return nil, nil
		}
	}
	// the last element must fit the parent's structure (earlier faults may have changed it)
	switch cur.(type) {
	case doc:
		if _, ok := p[len(p)-1].(string); !ok {
			return nil, nil
		}
	case []any:
		if _, ok := p[len(p)-1].(int); !ok {
			return nil, nil
		}
	default:
		return nil, nil
	}
	return cur, p[len(p)-1]
}

// Fault is one mutation of the document.
type Fault struct {
	Path  string `json:"path"`
	Kind  string `json:"kind"` // delete empty mistype_key wrong_type set
	Value any    `json:"value,omitempty"`
	p     path
}

func apply(root doc, f Fault) {
	par, last := parent(root, f.p)
	if par == nil {
		return
	}
	set := func(v any) {
		switch x := par.(type) {
		case doc:
			if _, ok := x[last.(string)]; ok || f.Kind == "set" {
				x[last.(string)] = v
			}
		case []any:
			if i := last.(int); i < len(x) {
				x[i] = v
			}
		}
	}
	get := func() (any, bool) {
		switch x := par.(type) {
		case doc:
			v, ok := x[last.(string)]
			return v, ok
		case []any:
			if i := last.(int); i < len(x) {
				return x[i], true
			}
		}
		return nil, false
	}
	cur, ok := get()
	if !ok && f.Kind != "set" {
		return
	}
	switch f.Kind {
	case "delete":
		switch x := par.(type) {
		case doc:
			delete(x, last.(string))
		case []any:
			// deleting a list element is expressed as emptying the parent list by the caller
			_ = x
		}
	case "empty":
		switch cur.(type) {
		case doc:
			set(doc{})
		case []any:
			set([]any{})
		case string:
			set("")
		default:
			set(nil)
		}
	case "null":
		set(nil)
	case "mistype_key":
		if x, ok := par.(doc); ok {
			k := last.(string)
			x[k+"x"] = x[k]
			delete(x, k)
		}
	case "wrong_type":
		switch cur.(type) {
		case doc:
			set([]any{"a", "b"})
		case []any:
			set(doc{"a": "b"})
		default:
			set(doc{"unexpected": "map"})
		}
	case "set":
		set(f.Value)
	}
}

// ---------------------------------------------------------------- validity predicate (written from the property statement)

var dnsRe = regexp.MustCompile(`^([a-zA-Z0-9_]{1}[a-zA-Z0-9_-]{0,62}){1}(\.[a-zA-Z0-9_]{1}[a-zA-Z0-9_-]{0,62})*[\._]?$`)

func isHost(s string) bool {
	if s == "" {
		return false
	}
	if net.ParseIP(s) != nil {
		return true
	}
	if strings.ContainsAny(s, " \t\n/:") || len(strings.Replace(s, ".", "", -1)) > 255 {
		return false
	}
	// a DNS name (RFC 1123 style labels; all-digit labels are legal, so "300.1.1.1" is a host name)
	return dnsRe.MatchString(s)
}

var levels = map[string]bool{"trace": true, "debug": true, "info": true, "warn": true, "error": true, "fatal": true, "panic": true}

// validCfg is the predicate over the running configuration.
func validCfg(c *factory.Config) string {
	if c.Version != "1.0.3" {
		return "version"
	}
	if c.Pfcp == nil {
		return "pfcp missing"
	}
	if !isHost(c.Pfcp.Addr) {
		return "pfcp.addr not a host"
	}
	if !isHost(c.Pfcp.NodeID) {
		return "pfcp.nodeID not a host"
	}
	if _, err := net.ResolveIPAddr("ip4", c.Pfcp.NodeID); err != nil {
		return "pfcp.nodeID does not resolve"
	}
	if c.Pfcp.RetransTimeout == 0 {
		return "no retransmission timeout"
	}
	if c.Gtpu == nil {
		return "gtpu missing"
	}
	if c.Gtpu.Forwarder != "gtp5g" {
		return "forwarder"
	}
	for i, f := range c.Gtpu.IfList {
		if !isHost(f.Addr) {
			return fmt.Sprintf("ifList[%d].addr", i)
		}
		if f.Type != "N3" && f.Type != "N9" {
			return fmt.Sprintf("ifList[%d].type", i)
		}
	}
	if len(c.DnnList) == 0 {
		return "no dnn"
	}
	for i, d := range c.DnnList {
		if d.Dnn == "" {
			return fmt.Sprintf("dnnList[%d].dnn", i)
		}
		if _, _, err := net.ParseCIDR(d.Cidr); err != nil {
			return fmt.Sprintf("dnnList[%d].cidr", i)
		}
	}
	if c.Logger == nil {
		return "logger missing"
	}
	if !levels[c.Logger.Level] {
		return "log level"
	}
	return ""
}

// unchanged compares the accepted configuration with the document.
func unchanged(d doc, c *factory.Config) string {
	str := func(m doc, k string) (string, bool) {
		v, ok := m[k]
		if !ok || v == nil {
			return "", false
		}
		s, ok := v.(string)
		return s, ok
	}
	if s, ok := str(d, "version"); ok && c.Version != s {
		return "version"
	}
	if s, ok := str(d, "description"); ok && c.Description != s {
		return "description"
	}
	if p, ok := d["pfcp"].(doc); ok && c.Pfcp != nil {
		if s, ok := str(p, "addr"); ok && c.Pfcp.Addr != s {
			return "pfcp.addr"
		}
		if s, ok := str(p, "nodeID"); ok && c.Pfcp.NodeID != s {
			return "pfcp.nodeID"
		}
		if s, ok := str(p, "retransTimeout"); ok {
			if dur, err := time.ParseDuration(s); err == nil && c.Pfcp.RetransTimeout != dur {
				return "pfcp.retransTimeout"
			}
		}
		if n, ok := p["maxRetrans"].(int); ok && int(c.Pfcp.MaxRetrans) != n {
			return "pfcp.maxRetrans"
		}
	}
	if g, ok := d["gtpu"].(doc); ok && c.Gtpu != nil {
		if s, ok := str(g, "forwarder"); ok && c.Gtpu.Forwarder != s {
			return "gtpu.forwarder"
		}
		if l, ok := g["ifList"].([]any); ok {
			if len(l) != len(c.Gtpu.IfList) {
				return "gtpu.ifList length"
			}
			for i, e := range l {
				m, ok := e.(doc)
				if !ok {
					continue
				}
				f := c.Gtpu.IfList[i]
				for k, got := range map[string]string{"addr": f.Addr, "type": f.Type, "name": f.Name, "ifname": f.IfName} {
					if s, ok := str(m, k); ok && got != s {
						return fmt.Sprintf("gtpu.ifList[%d].%s", i, k)
					}
				}
				if n, ok := m["mtu"].(int); ok && int(f.MTU) != n {
					return fmt.Sprintf("gtpu.ifList[%d].mtu", i)
				}
			}
		}
	}
	if l, ok := d["dnnList"].([]any); ok {
		if len(l) != len(c.DnnList) {
			return "dnnList length"
		}
		for i, e := range l {
			m, ok := e.(doc)
			if !ok {
				continue
			}
			x := c.DnnList[i]
			for k, got := range map[string]string{"dnn": x.Dnn, "cidr": x.Cidr, "natifname": x.NatIfName} {
				if s, ok := str(m, k); ok && got != s {
					return fmt.Sprintf("dnnList[%d].%s", i, k)
				}
			}
		}
	}
	if lg, ok := d["logger"].(doc); ok && c.Logger != nil {
		if s, ok := str(lg, "level"); ok && c.Logger.Level != s {
			return "logger.level"
		}
		if b, ok := lg["enable"].(bool); ok && c.Logger.Enable != b {
			return "logger.enable"
		}
		if b, ok := lg["reportCaller"].(bool); ok && c.Logger.ReportCaller != b {
			return "logger.reportCaller"
		}
	}
	return ""
}

// mustReject inspects the document structurally: is a required element
// missing, empty, of the wrong structure or out of range?  "" = no such defect
// found (then the verdict is left to the consistency checks).
func mustReject(d doc) string {
	s := func(m doc, k string) (string, bool, bool) { // value, isString, present
		v, ok := m[k]
		if !ok || v == nil {
			return "", false, false
		}
		x, ok := v.(string)
		return x, ok, true
	}
	if v, isS, ok := s(d, "version"); !ok || (isS && v != "1.0.3") {
		return "version"
	}
	p, ok := d["pfcp"].(doc)
	if !ok {
		return "pfcp"
	}
	for _, k := range []string{"addr", "nodeID"} {
		v, isS, ok := s(p, k)
		if !ok || (isS && !isHost(v)) {
			return "pfcp." + k
		}
		if _, isMap := p[k].(doc); isMap {
			return "pfcp." + k
		}
	}
	if v, isS, ok := s(p, "retransTimeout"); !ok || (isS && (v == "" || v == "0s")) {
		return "pfcp.retransTimeout"
	}
	g, ok := d["gtpu"].(doc)
	if !ok {
		return "gtpu"
	}
	if v, isS, ok := s(g, "forwarder"); !ok || (isS && v != "gtp5g") {
		return "gtpu.forwarder"
	}
	if il, present := g["ifList"]; present && il != nil {
		l, ok := il.([]any)
		if !ok {
			return "gtpu.ifList"
		}
		for i, e := range l {
			m, ok := e.(doc)
			if !ok {
				return fmt.Sprintf("gtpu.ifList[%d]", i)
			}
			if v, isS, ok := s(m, "addr"); !ok || (isS && !isHost(v)) {
				return fmt.Sprintf("gtpu.ifList[%d].addr", i)
			}
			if v, isS, ok := s(m, "type"); !ok || (isS && v != "N3" && v != "N9") {
				return fmt.Sprintf("gtpu.ifList[%d].type", i)
			}
		}
	}
	dl, ok := d["dnnList"].([]any)
	if !ok || len(dl) == 0 {
		return "dnnList"
	}
	for i, e := range dl {
		m, ok := e.(doc)
		if !ok {
			return fmt.Sprintf("dnnList[%d]", i)
		}
		if v, isS, ok := s(m, "dnn"); !ok || (isS && v == "") {
			return fmt.Sprintf("dnnList[%d].dnn", i)
		}
		v, isS, ok := s(m, "cidr")
		if !ok {
			return fmt.Sprintf("dnnList[%d].cidr", i)
		}
		if isS {
			if _, _, err := net.ParseCIDR(v); err != nil {
				return fmt.Sprintf("dnnList[%d].cidr", i)
			}
		}
	}
	lg, ok := d["logger"].(doc)
	if !ok {
		return "logger"
	}
	if v, isS, ok := s(lg, "level"); !ok || (isS && !levels[v]) {
		return "logger.level"
	}
	// structural mistypes of any known key (a map or list where a scalar belongs, and vice versa)
	return ""
}

// ---------------------------------------------------------------- run

type Case struct {
	Faults     []Fault `json:"faults"`
	Variant    string  `json:"variant,omitempty"`
	YAML       string  `json:"yaml"`
	MustAccept bool    `json:"must_accept,omitempty"`
}

var tmpDir string

func check(d doc, c *Case) *vcore.Violation {
	b, err := yaml.Marshal(d)
	if err != nil {
		panic(err)
	}
	c.YAML = string(b)
	if tmpDir == "" {
		tmpDir, _ = os.MkdirTemp(os.Getenv("VERIF_SCRATCH"), "c20-")
	}
	f := filepath.Join(tmpDir, "upfcfg.yaml")
	if err := os.WriteFile(f, b, 0o644); err != nil {
		panic(err)
	}
	var cfg *factory.Config
	var rerr error
	func() {
		defer func() {
			if p := recover(); p != nil {
				rerr = fmt.Errorf("PANIC: %v", p)
			}
		}()
		cfg, rerr = factory.ReadConfig(f)
	}()
	if rerr != nil && strings.HasPrefix(rerr.Error(), "PANIC") {
		return vcore.Violatef("panic", "ReadConfig panicked: %v", rerr)
	}
	if cfg == nil && rerr == nil {
		return vcore.Violatef("nil-nil", "ReadConfig returned neither a configuration nor an error")
	}
	if cfg != nil && rerr != nil {
		return vcore.Violatef("cfg-and-error", "ReadConfig returned a configuration together with error %v", rerr)
	}
	if cfg != nil {
		if why := validCfg(cfg); why != "" {
			return vcore.Violatef("accepted-invalid", "accepted configuration is not valid: %s", why)
		}
		if why := unchanged(d, cfg); why != "" {
			return vcore.Violatef("value-changed", "accepted configuration differs from the document at %s", why)
		}
		if why := mustReject(d); why != "" {
			return vcore.Violatef("accepted-defective", "document with a defective required element (%s) was accepted", why)
		}
		// the running configuration is the one the application object holds once it has been set up from the file
		lvl := logger.Log.GetLevel()
		upf, aerr := func() (u *app.UpfApp, err error) {
			defer func() {
				if p := recover(); p != nil {
					err = fmt.Errorf("panic: %v", p)
				}
			}()
			return app.NewApp(cfg)
		}()
		logger.Log.SetLevel(lvl) // the process-wide logger is the harness's as well
		if aerr != nil {
			return vcore.Violatef("app-rejects-accepted", "NewApp refuses a configuration ReadConfig accepted: %v", aerr)
		}
		if rc := upf.Config(); rc == nil {
			return vcore.Violatef("value-changed", "the application holds no configuration after NewApp")
		} else {
			if why := unchanged(d, rc); why != "" {
				return vcore.Violatef("value-changed", "running configuration (after NewApp) differs from the document at %s", why)
			}
			if why := validCfg(rc); why != "" {
				return vcore.Violatef("accepted-invalid", "running configuration (after NewApp) is not valid: %s", why)
			}
		}
	} else if c.MustAccept {
		return vcore.Violatef("valid-rejected", "document valid by construction rejected: %v", rerr)
	}
	return nil
}

func run(c *Case) *vcore.Violation {
	d := clone(base()).(doc)
	if c.Variant != "" {
		variant(d, c.Variant)
	}
	for i := range c.Faults {
		f := &c.Faults[i]
		if f.p == nil {
			f.p = parsePath(f.Path)
		}
		apply(d, *f)
	}
	return check(d, c)
}

func parsePath(s string) path {
	var p path
	for _, e := range strings.Split(s, ".") {
		if n, err := strconv.Atoi(e); err == nil {
			p = append(p, n)
		} else {
			p = append(p, e)
		}
	}
	return p
}

var variants = []string{"level-trace", "level-debug", "level-warn", "level-error", "level-fatal", "level-panic", "n9", "two-if", "no-iflist", "three-dnn", "localhost", "no-optional", "mtu0", "timeout-500ms", "maxretrans-0", "maxretrans-255"}

func variant(d doc, v string) {
	switch {
	case strings.HasPrefix(v, "level-"):
		d["logger"].(doc)["level"] = strings.TrimPrefix(v, "level-")
	case v == "n9":
		d["gtpu"].(doc)["ifList"].([]any)[0].(doc)["type"] = "N9"
	case v == "two-if":
		l := d["gtpu"].(doc)["ifList"].([]any)
		d["gtpu"].(doc)["ifList"] = append(l, doc{"addr": "10.0.0.1", "type": "N9"})
	case v == "no-iflist":
		delete(d["gtpu"].(doc), "ifList")
	case v == "three-dnn":
		d["dnnList"] = []any{doc{"dnn": "internet", "cidr": "10.60.0.0/24"}, doc{"dnn": "ims", "cidr": "10.61.0.0/16"}, doc{"dnn": "iot", "cidr": "192.168.0.0/30", "natifname": "eth1"}}
	case v == "localhost":
		d["pfcp"].(doc)["nodeID"] = "localhost"
	case v == "no-optional":
		delete(d, "description")
		delete(d["pfcp"].(doc), "maxRetrans")
		delete(d["logger"].(doc), "enable")
		delete(d["logger"].(doc), "reportCaller")
		delete(d["dnnList"].([]any)[0].(doc), "natifname")
		i := d["gtpu"].(doc)["ifList"].([]any)[0].(doc)
		delete(i, "name")
		delete(i, "ifname")
		delete(i, "mtu")
	case v == "mtu0":
		d["gtpu"].(doc)["ifList"].([]any)[0].(doc)["mtu"] = 0
	case v == "timeout-500ms":
		d["pfcp"].(doc)["retransTimeout"] = "500ms"
	case v == "maxretrans-0":
		d["pfcp"].(doc)["maxRetrans"] = 0
	case v == "maxretrans-255":
		d["pfcp"].(doc)["maxRetrans"] = 255
	}
}

// out-of-range / alternative values per leaf
var alternatives = map[string][]any{
	"version":             {"1.0.2", "1.0.4", "1.0.30", "1.0", " 1.0.3", "2.0.0", "v1.0.3"},
	"pfcp.addr":           {"not a host!", "127.0.0.8:8805", "300.1.1.1", "a b", "http://x/"},
	"pfcp.nodeID":         {"not a host!", "300.1.1.1", "1.2.3", "a b", "::1", "2001:db8::1", "fe80::1", "::ffff:127.0.0.8"},
	"pfcp.retransTimeout": {"0s", "abc", "1x"},
	"pfcp.maxRetrans":     {256, -1, "many"},
	"gtpu.forwarder":      {"gtp5gx", "xdp", "GTP5G", "gtp5g "},
	"gtpu.ifList.0.addr":  {"not a host!", "300.1.1.1", "a b"},
	"gtpu.ifList.0.type":  {"N6", "n3", "N3 ", "N3|N9", ""},
	"gtpu.ifList.0.mtu":   {-1, 4294967296, "big"},
	"dnnList.0.cidr":      {"10.60.0.0/33", "10.60.0.0", "10.60.0/24", "internet", "10.60.0.0/-1", "::1/129"},
	"dnnList.0.dnn":       {""},
	"logger.level":        {"verbose", "INFO", "warning", "info ", "trace|debug", ""},
	"logger.enable":       {"maybe"},
}

func account(c *Case, nontrivial bool, kind string) {
	vcore.E.Eval()
	vcore.E.Class(kind)
	if nontrivial {
		vcore.E.NonTrivial(vcore.JSON(c.Faults) + c.Variant + c.YAML)
		vcore.E.Sample(kind, map[string]any{"faults": c.Faults, "variant": c.Variant})
	}
}

// ---------------------------------------------------------------- version window

type nopHandler struct{}

func (nopHandler) NotifySessReport(report.SessReport)      {}
func (nopHandler) PopBufPkt(uint64, uint16) ([]byte, bool) { return nil, false }

func versionOK(x, y, z int) bool {
	ge := x > 0 || (x == 0 && (y > 9 || (y == 9 && z >= 5)))
	lt := x == 0 && y < 10
	return ge && lt
}

func TestC20(t *testing.T) {
	stack.InitProcess()
	defer func() {
		if tmpDir != "" {
			os.RemoveAll(tmpDir)
		}
	}()
	files, explicit := vcore.ReplayFiles()
	for _, f := range files {
		var c Case
		if err := vcore.LoadReplayCase(f, &c); err != nil {
			t.Fatalf("replay %s: %v", f, err)
		}
		v := run(&c)
		account(&c, false, "replayed")
		vcore.Report(t, v, c)
	}
	if explicit {
		return
	}
	// valid by construction
	{
		c := Case{MustAccept: true}
		v := run(&c)
		account(&c, false, "valid_base")
		vcore.Report(t, v, c)
		for _, vr := range variants {
			c := Case{Variant: vr, MustAccept: true}
			v := run(&c)
			account(&c, false, "valid_variant")
			vcore.Report(t, v, c)
		}
	}
	// every single fault
	var ps []path
	paths(base(), nil, &ps)
	var singles, textual []Fault
	for _, p := range ps {
		for _, k := range []string{"delete", "empty", "null", "mistype_key", "wrong_type"} {
			if _, isIdx := p[len(p)-1].(int); isIdx && (k == "delete" || k == "mistype_key") {
				continue
			}
			singles = append(singles, Fault{Path: p.String(), Kind: k, p: p})
		}
		for _, alt := range alternatives[p.String()] {
			singles = append(singles, Fault{Path: p.String(), Kind: "set", Value: alt, p: p})
		}
		// every string value once with text that a layer between the file and the decoder (environment or template expansion,
		// comment stripping, a second YAML pass) would rewrite: appended to the valid value, and alone.  For free text the
		// value is legal and must arrive unchanged; for a validated field the result is no valid value and must be rejected
		if par, last := parent(base(), p); par != nil {
			var leaf any
			switch x := par.(type) {
			case doc:
				leaf = x[last.(string)]
			case []any:
				leaf = x[last.(int)]
			}
			if cur, isStr := leaf.(string); isStr {
				for _, x := range []string{"$x", "${x}", "$HOME", "${PATH}", "$$", " #x", "{{.x}}", "%s", "\\n", ": x"} {
					textual = append(textual, Fault{Path: p.String(), Kind: "set", Value: cur + x, p: p}, Fault{Path: p.String(), Kind: "set", Value: x, p: p})
				}
			}
		}
	}
	// list sizes 0..3
	for _, lp := range []string{"gtpu.ifList", "dnnList"} {
		for n := 0; n <= 3; n++ {
			var l []any
			for i := 0; i < n; i++ {
				if lp == "dnnList" {
					l = append(l, doc{"dnn": fmt.Sprintf("dnn%d", i), "cidr": fmt.Sprintf("10.%d.0.0/16", 60+i)})
				} else {
					l = append(l, doc{"addr": fmt.Sprintf("10.0.0.%d", i+1), "type": []string{"N3", "N9"}[i%2]})
				}
			}
			if l == nil {
				l = []any{}
			}
			singles = append(singles, Fault{Path: lp, Kind: "set", Value: l, p: parsePath(lp)})
		}
	}
	structural := len(singles)
	singles = append(singles, textual...)
	for _, f := range singles {
		c := Case{Faults: []Fault{f}}
		v := run(&c)
		account(&c, false, "single_fault")
		vcore.Report(t, v, c)
	}
	// every pair of structural faults within one section of the document (fields of one section are the ones whose validity
	// is most likely to be made to depend on each other)
	pairs := 0
	for i := 0; i < structural; i++ {
		for j := i + 1; j < structural; j++ {
			a, b := singles[i], singles[j]
			if a.Path == b.Path || len(a.p) < 2 || len(b.p) < 2 || a.p[0] != b.p[0] {
				continue
			}
			c := Case{Faults: []Fault{a, b}}
			v := run(&c)
			account(&c, true, "pair_in_section")
			vcore.Report(t, v, c)
			pairs++
		}
	}
	vcore.E.SetExtra("pairs_in_section", fmt.Sprintf("%d pairs of structural faults at two different fields of one section", pairs))
	vcore.E.SetExtra("single_faults", fmt.Sprintf("%d single faults enumerated over %d document nodes", len(singles), len(ps)))

	// coupled faults: the same value at two (or three) places that hold one and the same host in a valid document - every host
	// string used anywhere, among them unresolvable names that are hosts by syntax; exhaustive
	hostVals := []any{"::1", "2001:db8::7", "upf.invalid", "no-such-host.invalid", "256.256.256.256", "12345", "localhost", "127.0.0.9", "not a host!", "300.1.1.1", "a b", "", "1.2.3"}
	hostLeaves := []string{"pfcp.addr", "pfcp.nodeID", "gtpu.ifList.0.addr"}
	for _, hv := range hostVals {
		for mask := 3; mask < 8; mask++ {
			if mask == 4 {
				continue
			}
			c := Case{}
			for i, lp := range hostLeaves {
				if mask&(1<<i) != 0 {
					c.Faults = append(c.Faults, Fault{Path: lp, Kind: "set", Value: hv, p: parsePath(lp)})
				}
			}
			v := run(&c)
			account(&c, true, "coupled_fault")
			vcore.Report(t, v, c)
		}
	}

	// random multi-faults
	vcore.Check(t, vcore.N(3000, 60000), func(rt *rapid.T) {
		n := rapid.IntRange(2, 5).Draw(rt, "n")
		c := Case{}
		if rapid.Bool().Draw(rt, "variant") {
			c.Variant = rapid.SampledFrom(variants).Draw(rt, "v")
		}
		for i := 0; i < n; i++ {
			// mostly structural faults (the textual variants of every string are many and would thin them out)
			hi := structural - 1
			if rapid.IntRange(0, 4).Draw(rt, "textual") == 0 {
				hi = len(singles) - 1
			}
			c.Faults = append(c.Faults, singles[rapid.IntRange(0, hi).Draw(rt, "fault")])
		}
		v := run(&c)
		account(&c, true, "multi_fault")
		vcore.Report(rt, v, c)
	})

	// NewDriver: any forwarder other than gtp5g yields an error and no driver
	for _, fw := range []string{"", "xdp", "GTP5G", "gtp5g ", "empty"} {
		var wg sync.WaitGroup
		cfg := &factory.Config{Gtpu: &factory.Gtpu{Forwarder: fw, IfList: []factory.IfInfo{{Addr: "127.0.0.8", Type: "N3"}}}}
		drv, err := forwarder.NewDriver(&wg, cfg)
		vcore.E.Eval()
		vcore.E.Class("newdriver_forwarder")
		if err == nil || drv != nil {
			vcore.Report(t, vcore.Violatef("forwarder-selection", "NewDriver accepted forwarder %q", fw), map[string]any{"forwarder": fw})
		}
	}
	for _, cfg := range []*factory.Config{{}, {Gtpu: &factory.Gtpu{Forwarder: "gtp5g"}}} {
		var wg sync.WaitGroup
		drv, err := forwarder.NewDriver(&wg, cfg)
		vcore.E.Eval()
		if err == nil || drv != nil {
			vcore.Report(t, vcore.Violatef("forwarder-selection", "NewDriver succeeded without GTP-U configuration / interface"), nil)
		}
	}

	// version window
	d, err := fullstack.NewDriver(fullstack.Opts{})
	if err != nil {
		t.Fatal(err)
	}
	defer d.Close()
	d.G.HandleReport(nopHandler{})
	ver := func(tt vcore.Failer, x, y, z int) {
		s := fmt.Sprintf("%d.%d.%d", x, y, z)
		d.K.Version = s
		err := d.G.VerifCheckVersion()
		vcore.E.Eval()
		vcore.E.Class("version_string")
		near := func(a, b int) bool { return a >= b-2 && a <= b+2 }
		if (x == 0 && near(y, 9) && near(z, 5)) || (x == 0 && near(y, 10) && z <= 2) || (near(x, 0) && near(y, 9)) {
			vcore.E.NonTrivial("version " + s)
			vcore.E.Sample("version", s)
		}
		if want := versionOK(x, y, z); (err == nil) != want {
			vcore.Report(tt, vcore.Violatef("version-window", "gtp5g version %s: check says %v, window 0.9.5 <= v < 0.10.0 says accept=%v", s, err, want), map[string]any{"version": s})
		}
	}
	for x := 0; x <= 2; x++ {
		for y := 0; y <= 12; y++ {
			for z := 0; z <= 12; z++ {
				ver(t, x, y, z)
			}
		}
	}
	comp := rapid.OneOf(rapid.IntRange(0, 12), rapid.IntRange(0, 1000000), rapid.SampledFrom([]int{0, 4, 5, 6, 9, 10, 11, 99, 100}))
	vcore.Check(t, vcore.N(2000, 20000), func(rt *rapid.T) {
		ver(rt, rapid.OneOf(rapid.IntRange(0, 2), comp).Draw(rt, "x"), comp.Draw(rt, "y"), comp.Draw(rt, "z"))
	})
	_ = reflect.DeepEqual
}
