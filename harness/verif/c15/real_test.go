//go:build verif

package c15

import (
	"fmt"
	"sort"
	"sync"
	"time"

	"pgregory.net/rapid"

	"github.com/free5gc/go-upf/internal/forwarder/perio"
	"github.com/free5gc/go-upf/internal/report"
	"github.com/free5gc/go-upf/internal/verif/stack"
	"github.com/free5gc/go-upf/internal/verif/vcore"
)

// ---------------------------------------------------------------- (c) real tickers
//
// Parts (a) and (b) inject ticks through a hook, so no ticker goroutine ever
// fires there.  Here the periods are 1 and 2 s and the tickers are real.  Every
// registration / removal is followed by a barrier (sentinel tick through the
// server), and the recorder logs sentinel callbacks and real queries in the
// order the (single-threaded) server made them, so each query is placed
// exactly between two membership events - up to the one event in flight.
//
// Timing is used one-sidedly where possible: the k-th query of a ticker cannot
// come earlier than k periods after the registration was posted (load only
// delays).  The two checks that need an upper bound (a tick is not more than
// 1 s late; a group alive for period + 1 s has been queried) are reported only
// if the same schedule fails the same way a second time.

type EvC struct {
	AtMs   int    `json:"at_ms"`
	Kind   string `json:"kind"` // add | del
	SEID   uint64 `json:"seid"`
	URR    uint32 `json:"urr"`
	Period int    `json:"period"` // seconds; fixed per (seid, urr) within a case
}

type CaseC struct {
	Evs []EvC `json:"evs"`
}

type logC struct {
	sentinel bool
	at       time.Duration
	m        map[pair]bool
}

type recC struct {
	mu     sync.Mutex
	t0     time.Time
	log    []logC
	queued []report.SessReport
	sig    chan struct{}
}

func (r *recC) NotifySessReport(sr report.SessReport) {
	if sr.SEID == sentinelSEID {
		return
	}
	r.mu.Lock()
	defer r.mu.Unlock()
	r.queued = append(r.queued, sr) // read later, as the PFCP server does
}
func (r *recC) PopBufPkt(uint64, uint16) ([]byte, bool) { return nil, false }

func (r *recC) query(m map[uint64][]uint32) (map[uint64][]report.USAReport, error) {
	at := time.Since(r.t0)
	if _, ok := m[sentinelSEID]; ok {
		r.mu.Lock()
		r.log = append(r.log, logC{sentinel: true, at: at})
		r.mu.Unlock()
		select {
		case r.sig <- struct{}{}:
		default:
		}
		return map[uint64][]report.USAReport{sentinelSEID: {{URRID: 1}}}, nil
	}
	set := map[pair]bool{}
	out := map[uint64][]report.USAReport{}
	dup := false
	for s, ids := range m {
		for _, id := range ids {
			if set[pair{s, id}] {
				dup = true
			}
			set[pair{s, id}] = true
			out[s] = append(out[s], report.USAReport{URRID: id})
		}
	}
	if dup {
		set[pair{0, 0}] = true // marker: some URR twice in one query
	}
	r.mu.Lock()
	r.log = append(r.log, logC{at: at, m: set})
	r.mu.Unlock()
	return out, nil
}

type statsC struct {
	queries  int
	groups   int
	reopened bool // a period emptied and used again
}

const lateSlack = 1000 * time.Millisecond

// runC returns a violation and whether it rests on an upper time bound (then the caller confirms it by a second run).
func runC(c CaseC) (v *vcore.Violation, timing bool, st statsC) {
	stack.InitProcess()
	var wg sync.WaitGroup
	ps, err := perio.OpenServer(&wg)
	if err != nil {
		panic(err)
	}
	rec := &recC{t0: time.Now(), sig: make(chan struct{}, 4)}
	ps.Handle(rec, rec.query)
	defer func() {
		ps.Close()
		done := make(chan struct{})
		go func() { wg.Wait(); close(done) }()
		select {
		case <-done:
		case <-time.After(10 * time.Second):
			if v == nil {
				v, timing = vcore.Violatef("close-hang", "after Close() the periodic server or one of its ticker goroutines did not finish within 10s (real tickers)"), false
			}
		}
	}()
	barrier := func() bool {
		ps.AddPeriodReportTimer(sentinelSEID, 1, sentinelPeriod)
		ps.VerifTick(sentinelPeriod)
		select {
		case <-rec.sig:
		case <-time.After(15 * time.Second):
			return false
		}
		ps.DelPeriodReportTimer(sentinelSEID, 1)
		return true
	}
	// ---- play the schedule
	type applied struct {
		ev         EvC
		post, done time.Duration
	}
	var evs []applied
	maxP := 1
	last := 0
	for _, e := range c.Evs {
		if d := time.Until(rec.t0.Add(time.Duration(e.AtMs) * time.Millisecond)); d > 0 {
			time.Sleep(d)
		}
		a := applied{ev: e, post: time.Since(rec.t0)}
		switch e.Kind {
		case "add":
			ps.AddPeriodReportTimer(e.SEID, e.URR, time.Duration(e.Period)*time.Second)
		case "del":
			ps.DelPeriodReportTimer(e.SEID, e.URR)
		}
		if !barrier() {
			return vcore.Violatef("perio-stuck", "the periodic server did not reach the sentinel tick within 15s (real tickers)"), false, st
		}
		a.done = time.Since(rec.t0)
		evs = append(evs, a)
		maxP = max(maxP, e.Period)
		last = e.AtMs
	}
	// every group alive at the end gets the chance of one more tick
	if d := time.Until(rec.t0.Add(time.Duration(last+maxP*1000+300) * time.Millisecond)); d > 0 {
		time.Sleep(d)
	}
	if !barrier() {
		return vcore.Violatef("perio-stuck", "the periodic server did not reach the sentinel tick within 15s (real tickers)"), false, st
	}
	end := time.Since(rec.t0)
	rec.mu.Lock()
	log := append([]logC(nil), rec.log...)
	var del []delivery
	for _, sr := range rec.queued {
		for _, rep := range sr.Reports {
			if u, ok := rep.(report.USAReport); ok {
				del = append(del, delivery{sr.SEID, u.URRID, u.USARTrigger.Flags})
			}
		}
	}
	rec.mu.Unlock()

	// ---- model: membership after each event; epochs of each period's ticker
	periodOf := map[pair]int{}
	for _, a := range evs {
		if a.ev.Kind == "add" {
			periodOf[pair{a.ev.SEID, a.ev.URR}] = a.ev.Period
		}
	}
	type epoch struct {
		period     int
		post, done time.Duration // registration that created the ticker
		end        time.Duration // removal that released it was posted (0 = still alive)
		endDone    time.Duration
		n          int // queries seen
	}
	member := []map[pair]bool{{}} // member[i] = registered set after i events
	var epochs []*epoch
	cur := map[int]*epoch{}
	count := map[int]int{}
	usedBefore := map[int]bool{}
	for _, a := range evs {
		prev := member[len(member)-1]
		next := map[pair]bool{}
		for p := range prev {
			next[p] = true
		}
		p := pair{a.ev.SEID, a.ev.URR}
		per := periodOf[p]
		switch a.ev.Kind {
		case "add":
			if !next[p] {
				next[p] = true
				count[per]++
				if count[per] == 1 {
					e := &epoch{period: per, post: a.post, done: a.done}
					epochs = append(epochs, e)
					cur[per] = e
					st.groups++
					if usedBefore[per] {
						st.reopened = true
					}
					usedBefore[per] = true
				}
			}
		case "del":
			if next[p] {
				delete(next, p)
				count[per]--
				if count[per] == 0 {
					cur[per].end, cur[per].endDone = a.post, a.done
					delete(cur, per)
				}
			}
		}
		member = append(member, next)
	}
	setOf := func(i, per int) map[pair]bool {
		out := map[pair]bool{}
		for p := range member[i] {
			if periodOf[p] == per {
				out[p] = true
			}
		}
		return out
	}
	same := func(a, b map[pair]bool) bool {
		if len(a) != len(b) {
			return false
		}
		for p := range a {
			if !b[p] {
				return false
			}
		}
		return true
	}
	// ---- walk the server's log: barrier i (0-based) closes event i; the final barrier is number len(evs)
	nb := 0
	wantD := map[pair]int{}
	for _, l := range log {
		if l.sentinel {
			nb++
			continue
		}
		st.queries++
		if l.m[pair{0, 0}] {
			return vcore.Violatef("query-dup", "a periodic query names a URR twice: %v", l.m), false, st
		}
		per := 0
		for p := range l.m {
			pp, known := periodOf[p]
			if !known {
				return vcore.Violatef("query-stale", "real ticker: queried URR %d of session %#x which was never registered", p.urr, p.seid), false, st
			}
			if per != 0 && pp != per {
				return vcore.Violatef("query-mixed-periods", "real ticker: one query names URRs of the %d s and the %d s group: %v", per, pp, l.m), false, st
			}
			per = pp
		}
		if per == 0 {
			continue // an empty query map: accepted as in part (a)
		}
		// the query was made after events 0..nb-1 were applied; event nb may or may not have been
		ok := same(l.m, setOf(min(nb, len(evs)), per))
		if !ok && nb < len(evs) {
			ok = same(l.m, setOf(nb+1, per))
		}
		if !ok {
			return vcore.Violatef("query-set", "real ticker (%d s) at %v: queried %v, registered at that point %v", per, l.at.Round(time.Millisecond), keys(l.m), keys(setOf(min(nb, len(evs)), per))), false, st
		}
		for p := range l.m {
			wantD[p]++
		}
		// which ticker made it: the epoch of this period alive at that point
		var ep *epoch
		for _, e := range epochs {
			if e.period == per && e.post <= l.at && (e.end == 0 || l.at <= e.endDone) {
				ep = e
				break
			}
		}
		if ep == nil {
			return vcore.Violatef("query-without-timer", "real ticker: query for the %d s group at %v although no timer of that period can exist then", per, l.at.Round(time.Millisecond)), false, st
		}
		ep.n++
		earliest := ep.post + time.Duration(ep.n*per)*time.Second
		if l.at+2*time.Millisecond < earliest {
			return vcore.Violatef("tick-early", "real ticker: query #%d of the %d s group at %v, registration was posted at %v (earliest possible %v)", ep.n, per, l.at.Round(time.Millisecond), ep.post.Round(time.Millisecond), earliest.Round(time.Millisecond)), false, st
		}
		if latest := ep.done + time.Duration(ep.n*per)*time.Second + lateSlack; l.at > latest {
			return vcore.Violatef("tick-late", "real ticker: query #%d of the %d s group at %v, registration was in place at %v (more than %v late)", ep.n, per, l.at.Round(time.Millisecond), ep.done.Round(time.Millisecond), lateSlack), true, st
		}
	}
	for _, e := range epochs {
		till := e.end
		if till == 0 {
			till = end
		}
		if e.n == 0 && till-e.done > time.Duration(e.period)*time.Second+lateSlack {
			return vcore.Violatef("tick-missing", "real ticker: the %d s group existed from %v to %v and was never queried", e.period, e.done.Round(time.Millisecond), till.Round(time.Millisecond)), true, st
		}
	}
	gotD := map[pair]int{}
	for _, d := range del {
		if d.flags&report.USAR_TRIG_PERIO == 0 {
			return vcore.Violatef("not-flagged-perio", "real ticker: report for URR %d of session %#x delivered without the PERIO trigger", d.urr, d.seid), false, st
		}
		gotD[pair{d.seid, d.urr}]++
	}
	for p, n := range wantD {
		if gotD[p] != n {
			return vcore.Violatef("delivery-count", "real ticker: URR %d of session %#x: %d periodic reports delivered, %d queried", p.urr, p.seid, gotD[p], n), false, st
		}
	}
	for p, n := range gotD {
		if wantD[p] != n {
			return vcore.Violatef("delivery-count", "real ticker: URR %d of session %#x: %d periodic reports delivered, %d queried", p.urr, p.seid, n, wantD[p]), false, st
		}
	}
	return nil, false, st
}

func keys(m map[pair]bool) []string {
	var out []string
	for p := range m {
		out = append(out, fmt.Sprintf("%#x/%d", p.seid, p.urr))
	}
	sort.Strings(out)
	return out
}

func genC(t *rapid.T) CaseC {
	n := rapid.IntRange(1, 5).Draw(t, "pairs")
	var evs []EvC
	for i := 0; i < n; i++ {
		p := pair{uint64(rapid.IntRange(1, 3).Draw(t, "seid")), uint32(i + 1)}
		per := rapid.IntRange(1, 2).Draw(t, "period")
		at := rapid.IntRange(0, 20).Draw(t, "at") * 50
		evs = append(evs, EvC{AtMs: at, Kind: "add", SEID: p.seid, URR: p.urr, Period: per})
		if rapid.Bool().Draw(t, "del") {
			at2 := at + rapid.IntRange(1, 50).Draw(t, "after")*50
			evs = append(evs, EvC{AtMs: at2, Kind: "del", SEID: p.seid, URR: p.urr, Period: per})
			if rapid.IntRange(0, 2).Draw(t, "again") == 0 {
				evs = append(evs, EvC{AtMs: at2 + rapid.IntRange(1, 20).Draw(t, "gap")*50, Kind: "add", SEID: p.seid, URR: p.urr, Period: per})
			}
		}
	}
	sort.SliceStable(evs, func(i, j int) bool { return evs[i].AtMs < evs[j].AtMs })
	return CaseC{Evs: evs}
}

func accountC(c CaseC, s statsC) {
	vcore.E.Eval()
	vcore.E.Class("real_tickers")
	if s.reopened {
		vcore.E.Class("real_tickers:period_reopened")
	}
	if s.queries >= 2 {
		vcore.E.NonTrivial(vcore.JSON(c))
		vcore.E.Sample("real-tickers", map[string]any{"case": c, "queries": s.queries, "timers": s.groups})
	}
}

// checkC runs a schedule; a violation that rests on an upper time bound counts only when a second run fails with the same key.
func checkC(c CaseC) (*vcore.Violation, statsC) {
	v, timing, s := runC(c)
	if v != nil && timing {
		v2, _, _ := runC(c)
		if v2 == nil || v2.Key != v.Key {
			vcore.E.Note("real tickers: " + v.Key + " not confirmed by a second run (machine load): " + v.Msg)
			return nil, s
		}
	}
	return v, s
}
