//go:build verif

package c15

import (
	"sync"
	"time"

	"github.com/free5gc/go-upf/internal/forwarder/perio"
	"github.com/free5gc/go-upf/internal/report"
	"github.com/free5gc/go-upf/internal/verif/stack"
	"github.com/free5gc/go-upf/internal/verif/vcore"
)

// ---------------------------------------------------------------- (d) closing a busy server
//
// "closing the server releases all of them" - also when Close() comes while the
// server is busy handing a tick's report over and registrations have piled up
// behind it (its event queue holds 512).  The handler blocks on the first
// report; Queued registrations are posted (by a goroutine, they wait for room
// beyond 512); Close() is called; the handler is let go.  The server and every
// ticker goroutine must finish.

type CaseD struct {
	Queued int `json:"queued"`
}

type blockingHandler struct {
	gate    chan struct{}
	entered chan struct{}
	once    sync.Once
}

func (h *blockingHandler) NotifySessReport(report.SessReport) {
	h.once.Do(func() {
		close(h.entered)
		<-h.gate
	})
}
func (h *blockingHandler) PopBufPkt(uint64, uint16) ([]byte, bool) { return nil, false }
func (h *blockingHandler) query(m map[uint64][]uint32) (map[uint64][]report.USAReport, error) {
	out := map[uint64][]report.USAReport{}
	for seid, ids := range m {
		for _, id := range ids {
			out[seid] = append(out[seid], report.USAReport{URRID: id})
		}
	}
	return out, nil
}

func runD(c CaseD) *vcore.Violation {
	stack.InitProcess()
	var wg sync.WaitGroup
	ps, err := perio.OpenServer(&wg)
	if err != nil {
		panic(err)
	}
	h := &blockingHandler{gate: make(chan struct{}), entered: make(chan struct{})}
	ps.Handle(h, h.query)
	ps.AddPeriodReportTimer(1, 1, 3600*time.Second)
	ps.AddPeriodReportTimer(2, 1, 7200*time.Second)
	ps.VerifTick(3600 * time.Second)
	select {
	case <-h.entered:
	case <-time.After(10 * time.Second):
		close(h.gate)
		return vcore.Violatef("perio-stuck", "the tick's report never reached the handler")
	}
	go func() {
		for i := 0; i < c.Queued; i++ {
			ps.AddPeriodReportTimer(uint64(100+i), 1, 3600*time.Second)
		}
	}()
	want := min(c.Queued, ps.VerifQueueCap())
	for t1 := time.Now(); time.Since(t1) < 5*time.Second && ps.VerifQueueLen() < want; {
		time.Sleep(100 * time.Microsecond)
	}
	go ps.Close()
	time.Sleep(20 * time.Millisecond)
	close(h.gate)
	done := make(chan struct{})
	go func() { wg.Wait(); close(done) }()
	select {
	case <-done:
		return nil
	case <-time.After(10 * time.Second):
		return vcore.Violatef("close-hang", "Close() while the periodic server was handing a report over and %d registrations were waiting behind it (its queue holds %d): 10 s after the handler returned the server or one of its ticker goroutines is still running", c.Queued, ps.VerifQueueCap())
	}
}

func closePart(t vcore.Failer) {
	for _, q := range []int{0, 100, 511, 512, 600} {
		c := CaseD{Queued: q}
		vcore.E.Eval()
		vcore.E.Class("close_while_busy")
		if q >= 512 {
			vcore.E.Class("close_while_busy:event_queue_full")
			vcore.E.NonTrivial(vcore.FP("close", q))
			vcore.E.Sample("close-while-busy", c)
		}
		vcore.Report(t, runD(c), map[string]any{"close": c})
	}
}
