//go:build verif

package c15

import (
	"fmt"
	"sort"
	"sync"
	"testing"
	"time"

	"pgregory.net/rapid"

	"github.com/free5gc/go-gtp5gnl"
	"github.com/free5gc/go-upf/internal/forwarder/perio"
	"github.com/free5gc/go-upf/internal/report"
	"github.com/free5gc/go-upf/internal/verif/fullstack"
	"github.com/free5gc/go-upf/internal/verif/simkernel"
	"github.com/free5gc/go-upf/internal/verif/stack"
	"github.com/free5gc/go-upf/internal/verif/vcore"
)

func TestMain(m *testing.M) {
	vcore.Init("C15", "exploration",
		"(a) the real periodic server alone: rapid histories of Add/Del over 6 sessions x 4 URRs x 3 periods (hours, so no real ticker fires), ticks for existing and vanished periods, and queued ticks - the harness blocks the server inside the query callback, "+
			"enqueues a drawn batch of events, then releases; oracle: the map passed to the query callback on a tick of period p equals the model's registered set for p exactly (no callback for an empty/unknown period is accepted, a callback with an empty map too), "+
			"every returned report is delivered once, flagged PERIO, to its SEID; after the last URR of p is deleted the server has no group p; after Close() the wait group (server + every ticker goroutine) completes. "+
			"(b) batching: query maps of 0-400 URRs over 1-60 sessions through the real Gtp5g.psQueryURR on the simulated kernel, sizes around the batch limit; oracle: union of OIDs over the GET_MULTI_REPORTS requests equals the input, no OID twice, "+
			"each request carries at most gtp5gnl.MaxNetlinkUsageReportNum() OIDs and a URR_NUM equal to its own count, results keyed by the right SEID. "+
			"(c) real tickers: wall-clock schedules (1-5 URRs over periods of 1 and 2 s, registrations, removals and re-registrations at drawn offsets up to 4.5 s), every event followed by a barrier so that each query is placed exactly between two membership events by the order of the server's callbacks; "+
			"oracle: each query names URRs of one period only and equals that period's registered set at that point; the k-th query of a ticker comes no earlier than k periods after its registration was posted; every queried report delivered once, flagged PERIO; "+
			"not more than 1 s late and not missing for a group that lived a period + 1 s (these two only when a second run of the same schedule fails the same way). "+
			"non-trivial = a tick processed after an Add/Del interleaving of >= 4 events, a stale queued tick, a map crossing a batch boundary, or a real-ticker schedule with >= 2 queries; distinct by history / map shape",
		"each URR is registered at most once at a time (the quantifier says so)",
		"ticks are injected by an in-package hook in (a); the sentinel registration used as barrier is filtered out of the observations",
		"(c) uses the wall clock: lower time bounds are exact, upper bounds carry 1 s of slack and need confirmation by a second run")
	vcore.Main(m)
}

// ---------------------------------------------------------------- (a) periodic server

type Ev struct {
	Kind   string `json:"kind"` // add del tick block
	SEID   uint64 `json:"seid,omitempty"`
	URR    uint32 `json:"urr,omitempty"`
	Period int    `json:"period,omitempty"` // index into periods
	Batch  []Ev   `json:"batch,omitempty"`  // block: events enqueued while the server sits in the query callback
}

type CaseA struct {
	Evs []Ev `json:"evs"`
	// Quiet: sessions for which the data plane's answer to a usage query holds no report (nothing measured, or the
	// rule is not there any more): they stay registered and are asked again at every tick all the same
	Quiet []uint64 `json:"quiet,omitempty"`
}

var periods = []time.Duration{2 * time.Hour, 3 * time.Hour, 5 * time.Hour}

const sentinelSEID = 0xfeedfeedfeedfeed
const sentinelPeriod = 999999 * time.Hour

type pair struct {
	seid uint64
	urr  uint32
}

type query struct {
	m map[uint64][]uint32
}

type recorder struct {
	mu       sync.Mutex
	queries  []query
	queued   []report.SessReport
	gate     chan struct{} // when non-nil the callback blocks until it is closed
	entered  chan struct{}
	sentinel chan struct{}
	hold     chan struct{}
	quiet    map[uint64]bool
}

type delivery struct {
	seid  uint64
	urr   uint32
	flags uint32
}

// NotifySessReport keeps the notification as it was handed over, like the PFCP server, which only queues it and looks at
// the reports later on another goroutine: what it says is read when the history is evaluated (deliveries()).
func (r *recorder) NotifySessReport(sr report.SessReport) {
	r.mu.Lock()
	defer r.mu.Unlock()
	if sr.SEID == sentinelSEID {
		return
	}
	r.queued = append(r.queued, sr)
}

// deliveries reads the queued notifications; call with r.mu held and the periodic server idle.
func (r *recorder) deliveries() []delivery {
	var out []delivery
	for _, sr := range r.queued {
		for _, rep := range sr.Reports {
			if u, ok := rep.(report.USAReport); ok {
				out = append(out, delivery{sr.SEID, u.URRID, u.USARTrigger.Flags})
			}
		}
	}
	return out
}
func (r *recorder) PopBufPkt(uint64, uint16) ([]byte, bool) { return nil, false }

func (r *recorder) query(m map[uint64][]uint32) (map[uint64][]report.USAReport, error) {
	if _, ok := m[sentinelSEID]; ok {
		r.mu.Lock()
		hold := r.hold
		r.hold = nil
		r.mu.Unlock()
		select {
		case r.sentinel <- struct{}{}:
		default:
		}
		if hold != nil {
			<-hold // the harness inspects server state while the server sits here
		}
		return map[uint64][]report.USAReport{sentinelSEID: {{URRID: 1}}}, nil
	}
	cp := map[uint64][]uint32{}
	out := map[uint64][]report.USAReport{}
	for s, ids := range m {
		cp[s] = append([]uint32(nil), ids...)
		if r.quiet[s] {
			continue
		}
		for _, id := range ids {
			out[s] = append(out[s], report.USAReport{URRID: id})
		}
	}
	r.mu.Lock()
	r.queries = append(r.queries, query{cp})
	gate, entered := r.gate, r.entered
	r.gate, r.entered = nil, nil
	r.mu.Unlock()
	if gate != nil {
		close(entered)
		<-gate
	}
	return out, nil
}

type statsA struct {
	interleaved bool
	stale       bool
	ticks       int
}

func runA(c CaseA) (v *vcore.Violation, stt statsA) {
	stack.InitProcess()
	var wg sync.WaitGroup
	ps, err := perio.OpenServer(&wg)
	if err != nil {
		panic(err)
	}
	rec := &recorder{sentinel: make(chan struct{}, 4), quiet: map[uint64]bool{}}
	for _, q := range c.Quiet {
		rec.quiet[q] = true
	}
	ps.Handle(rec, rec.query)
	closed := false
	closeAndWait := func() *vcore.Violation {
		if closed {
			return nil
		}
		closed = true
		ps.Close()
		done := make(chan struct{})
		go func() { wg.Wait(); close(done) }()
		select {
		case <-done:
			return nil
		case <-time.After(10 * time.Second):
			return vcore.Violatef("close-hang", "after Close() the periodic server or one of its ticker goroutines did not finish within 10s")
		}
	}
	defer func() {
		if x := closeAndWait(); x != nil && v == nil {
			v = x
		}
	}()
	barrier := func() *vcore.Violation {
		ps.AddPeriodReportTimer(sentinelSEID, 1, sentinelPeriod)
		ps.VerifTick(sentinelPeriod)
		select {
		case <-rec.sentinel:
		case <-time.After(15 * time.Second):
			return vcore.Violatef("perio-stuck", "the periodic server did not reach the sentinel tick within 15s")
		}
		ps.DelPeriodReportTimer(sentinelSEID, 1)
		// the Del is processed before anything posted later; a second sentinel round makes sure it has been
		return nil
	}

	model := map[int]map[pair]bool{}
	where := map[pair]int{} // registered period index (+1)
	sinceTick := 0

	// expected queries, in order
	var wantQ []map[pair]bool
	apply := func(e Ev) {
		switch e.Kind {
		case "add":
			p := pair{e.SEID, e.URR}
			if where[p] != 0 {
				return // registered at most once at a time: generator avoids it, replay tolerates it
			}
			if model[e.Period] == nil {
				model[e.Period] = map[pair]bool{}
			}
			model[e.Period][p] = true
			where[p] = e.Period + 1
			sinceTick++
		case "del":
			p := pair{e.SEID, e.URR}
			if w := where[p]; w != 0 {
				delete(model[w-1], p)
				delete(where, p)
			}
			sinceTick++
		case "tick":
			stt.ticks++
			set := map[pair]bool{}
			for p := range model[e.Period] {
				set[p] = true
			}
			if sinceTick >= 4 {
				stt.interleaved = true
			}
			sinceTick = 0
			wantQ = append(wantQ, set)
		}
	}
	post := func(e Ev) {
		switch e.Kind {
		case "add":
			if where[pair{e.SEID, e.URR}] != 0 {
				return
			}
			ps.AddPeriodReportTimer(e.SEID, e.URR, periods[e.Period])
		case "del":
			ps.DelPeriodReportTimer(e.SEID, e.URR)
		case "tick":
			ps.VerifTick(periods[e.Period])
		}
	}
	for _, e := range c.Evs {
		if e.Kind != "block" {
			post(e)
			apply(e)
			continue
		}
		// block: needs a tick that really calls the callback (non-empty period)
		var pidx = -1
		for i := range periods {
			if len(model[i]) > 0 {
				pidx = i
				break
			}
		}
		if pidx < 0 {
			continue
		}
		gate, entered := make(chan struct{}), make(chan struct{})
		rec.mu.Lock()
		rec.gate, rec.entered = gate, entered
		rec.mu.Unlock()
		t := Ev{Kind: "tick", Period: pidx}
		post(t)
		apply(t)
		select {
		case <-entered:
		case <-time.After(15 * time.Second):
			close(gate)
			return vcore.Violatef("perio-stuck", "tick did not reach the query callback"), stt
		}
		// the server sits in the callback: everything posted now stays queued
		emptied := map[int]bool{}
		for _, b := range e.Batch {
			post(b)
			before := map[int]int{}
			for i := range periods {
				before[i] = len(model[i])
			}
			apply(b)
			for i := range periods {
				if before[i] > 0 && len(model[i]) == 0 {
					emptied[i] = true
				}
			}
			if b.Kind == "tick" && emptied[b.Period] && len(model[b.Period]) == 0 {
				stt.stale = true
			}
		}
		close(gate)
	}
	if x := barrier(); x != nil {
		return x, stt
	}
	// ---- compare
	rec.mu.Lock()
	queries := append([]query(nil), rec.queries...)
	delivered := rec.deliveries()
	rec.mu.Unlock()
	// queries with an empty expected set may or may not reach the callback
	qi := 0
	for ti, want := range wantQ {
		if len(want) == 0 {
			if qi < len(queries) && len(queries[qi].m) == 0 {
				qi++
			}
			continue
		}
		if qi >= len(queries) {
			return vcore.Violatef("tick-not-queried", "tick #%d should have queried %d URRs but no query was made", ti, len(want)), stt
		}
		got := map[pair]int{}
		for s, ids := range queries[qi].m {
			for _, id := range ids {
				got[pair{s, id}]++
			}
		}
		qi++
		for p := range want {
			if got[p] != 1 {
				return vcore.Violatef("query-missing", "tick #%d: registered URR %d of session %#x queried %d times (want once); query %v", ti, p.urr, p.seid, got[p], got), stt
			}
		}
		for p, n := range got {
			if !want[p] {
				return vcore.Violatef("query-stale", "tick #%d: queried URR %d of session %#x (%d times) which is not registered with this period", ti, p.urr, p.seid, n), stt
			}
		}
	}
	if qi != len(queries) {
		return vcore.Violatef("surplus-query", "%d queries made, %d expected", len(queries), qi), stt
	}
	// deliveries: each queried report once, flagged PERIO
	wantD := map[pair]int{}
	for _, w := range wantQ {
		for p := range w {
			if !rec.quiet[p.seid] {
				wantD[p]++
			}
		}
	}
	gotD := map[pair]int{}
	for _, d := range delivered {
		if d.flags&report.USAR_TRIG_PERIO == 0 {
			return vcore.Violatef("not-flagged-perio", "report for URR %d of session %#x delivered without the PERIO trigger (flags %#x)", d.urr, d.seid, d.flags), stt
		}
		gotD[pair{d.seid, d.urr}]++
	}
	for p, n := range wantD {
		if gotD[p] != n {
			return vcore.Violatef("delivery-count", "URR %d of session %#x: %d periodic reports delivered, %d expected", p.urr, p.seid, gotD[p], n), stt
		}
	}
	for p, n := range gotD {
		if wantD[p] != n {
			return vcore.Violatef("delivery-count", "URR %d of session %#x: %d periodic reports delivered, %d expected", p.urr, p.seid, n, wantD[p]), stt
		}
	}
	// groups: exactly the non-empty periods.  The server is held inside the
	// sentinel's query callback while its state is read.
	if x := barrier(); x != nil {
		return x, stt
	}
	hold := make(chan struct{})
	rec.mu.Lock()
	rec.hold = hold
	rec.mu.Unlock()
	ps.AddPeriodReportTimer(sentinelSEID, 1, sentinelPeriod)
	ps.VerifTick(sentinelPeriod)
	select {
	case <-rec.sentinel:
	case <-time.After(15 * time.Second):
		close(hold)
		return vcore.Violatef("perio-stuck", "the periodic server did not reach the sentinel tick within 15s"), stt
	}
	groups := ps.VerifGroups()
	close(hold)
	ps.DelPeriodReportTimer(sentinelSEID, 1)
	for i, p := range periods {
		g, ok := groups[p]
		if len(model[i]) == 0 && ok {
			return vcore.Violatef("timer-not-released", "period %v has no registered URR but its group/timer still exists (%v)", p, g), stt
		}
		if len(model[i]) > 0 && !ok {
			return vcore.Violatef("timer-missing", "period %v has %d registered URRs but no group", p, len(model[i])), stt
		}
		n := 0
		for s, ids := range g {
			for _, id := range ids {
				n++
				if !model[i][pair{s, id}] {
					return vcore.Violatef("group-stale", "group %v holds URR %d of session %#x which is not registered", p, id, s), stt
				}
			}
		}
		if n != len(model[i]) {
			return vcore.Violatef("group-size", "group %v holds %d URRs, model %d", p, n, len(model[i])), stt
		}
	}
	delete(groups, sentinelPeriod)
	if len(groups) > 3 {
		return vcore.Violatef("group-extra", "unexpected groups %v", groups), stt
	}
	if x := closeAndWait(); x != nil {
		return x, stt
	}
	return nil, stt
}

func genEv(t *rapid.T, where map[pair]int, allowTick bool) (Ev, bool) {
	kinds := []string{"add", "add", "add", "del", "del"}
	if allowTick {
		kinds = append(kinds, "tick", "tick")
	}
	k := rapid.SampledFrom(kinds).Draw(t, "kind")
	switch k {
	case "add":
		p := pair{uint64(rapid.IntRange(1, 6).Draw(t, "seid")), uint32(rapid.IntRange(1, 4).Draw(t, "urr"))}
		if where[p] != 0 {
			return Ev{}, false
		}
		per := rapid.IntRange(0, 2).Draw(t, "period")
		where[p] = per + 1
		return Ev{Kind: "add", SEID: p.seid, URR: p.urr, Period: per}, true
	case "del":
		p := pair{uint64(rapid.IntRange(1, 6).Draw(t, "seid")), uint32(rapid.IntRange(1, 4).Draw(t, "urr"))}
		// mostly delete something registered
		if where[p] == 0 && len(where) > 0 && rapid.IntRange(0, 3).Draw(t, "hit") != 0 {
			var ks []pair
			for q := range where {
				ks = append(ks, q)
			}
			sort.Slice(ks, func(i, j int) bool {
				if ks[i].seid != ks[j].seid {
					return ks[i].seid < ks[j].seid
				}
				return ks[i].urr < ks[j].urr
			})
			p = ks[rapid.IntRange(0, len(ks)-1).Draw(t, "which")]
		}
		delete(where, p)
		return Ev{Kind: "del", SEID: p.seid, URR: p.urr}, true
	default:
		return Ev{Kind: "tick", Period: rapid.IntRange(0, 2).Draw(t, "period")}, true
	}
}

func genA(t *rapid.T) CaseA {
	var c CaseA
	where := map[pair]int{}
	n := rapid.IntRange(2, 40).Draw(t, "n")
	for i := 0; i < n; i++ {
		if rapid.IntRange(0, 7).Draw(t, "block") == 0 {
			var batch []Ev
			m := rapid.IntRange(1, 8).Draw(t, "nbatch")
			for j := 0; j < m; j++ {
				if e, ok := genEv(t, where, true); ok {
					batch = append(batch, e)
				}
			}
			c.Evs = append(c.Evs, Ev{Kind: "block", Batch: batch})
			continue
		}
		if e, ok := genEv(t, where, true); ok {
			c.Evs = append(c.Evs, e)
		}
	}
	if rapid.IntRange(0, 2).Draw(t, "quiet") == 0 {
		for sd := uint64(1); sd <= 6; sd++ {
			if rapid.IntRange(0, 2).Draw(t, "quiet_seid") == 0 {
				c.Quiet = append(c.Quiet, sd)
			}
		}
	}
	return c
}

// ---------------------------------------------------------------- (b) batching

type CaseB struct {
	Sizes []int `json:"sizes"` // URRs per session
}

type nopHandler struct{}

func (nopHandler) NotifySessReport(report.SessReport)      {}
func (nopHandler) PopBufPkt(uint64, uint16) ([]byte, bool) { return nil, false }

func runB(c CaseB) (v *vcore.Violation, crossed bool) {
	d, err := fullstack.NewDriver(fullstack.Opts{})
	if err != nil {
		panic(err)
	}
	d.G.HandleReport(nopHandler{})
	defer d.Close()
	limit := gtp5gnl.MaxNetlinkUsageReportNum()
	in := map[uint64][]uint32{}
	total := 0
	for i, n := range c.Sizes {
		seid := uint64(i+1) * 0x100000001
		for j := 0; j < n; j++ {
			id := uint32(j + 1)
			in[seid] = append(in[seid], id)
			d.K.Put(simkernel.RuleKey{Kind: "URR", SEID: seid, ID: uint64(id)}, nil)
			total++
		}
		if n == 0 {
			in[seid] = nil
		}
	}
	d.K.TakeLog()
	res, qerr := d.G.VerifPsQueryURR(in)
	if qerr != nil {
		return vcore.Violatef("query-error", "psQueryURR: %v", qerr), false
	}
	seen := map[pair]int{}
	nreq := 0
	for _, r := range d.K.TakeLog() {
		if r.Cmd != gtp5gnl.CMD_GET_MULTI_REPORTS {
			return vcore.Violatef("unexpected-command", "command %d during a multi-URR query", r.Cmd), false
		}
		if r.Conn != "ps" {
			return vcore.Violatef("wrong-connection", "periodic query sent on the %s connection", r.Conn), false
		}
		nreq++
		ms := simkernel.Find(r.Attrs, gtp5gnl.URR_MULTI_SEID_URRID)
		if len(ms) > limit {
			return vcore.Violatef("batch-too-large", "a GET_MULTI_REPORTS request carries %d URRs, limit %d", len(ms), limit), false
		}
		if len(ms) == 0 {
			return vcore.Violatef("empty-batch", "a GET_MULTI_REPORTS request without URRs"), false
		}
		num, ok := simkernel.First(r.Attrs, gtp5gnl.URR_NUM)
		if !ok || len(num.Value) != 4 || int(num.U32()) != len(ms) {
			return vcore.Violatef("urr-num", "URR_NUM does not equal the %d URRs of the request", len(ms)), false
		}
		for _, m := range ms {
			sub, _ := simkernel.Walk(m.Value)
			ida, ok1 := simkernel.First(sub, gtp5gnl.URR_ID)
			sa, ok2 := simkernel.First(sub, gtp5gnl.URR_SEID)
			if !ok1 || !ok2 || len(ida.Value) != 4 || len(sa.Value) != 8 {
				return vcore.Violatef("malformed-oid", "multi-URR entry malformed"), false
			}
			seen[pair{sa.U64(), ida.U32()}]++
		}
	}
	for s, ids := range in {
		for _, id := range ids {
			if seen[pair{s, id}] != 1 {
				return vcore.Violatef("oid-count", "URR %d of session %#x queried %d times (want once) with %d URRs over %d sessions", id, s, seen[pair{s, id}], total, len(c.Sizes)), false
			}
		}
	}
	if len(seen) != total {
		return vcore.Violatef("oid-surplus", "%d distinct OIDs queried, %d requested", len(seen), total), false
	}
	got := 0
	for s, rs := range res {
		for _, r := range rs {
			got++
			found := false
			for _, id := range in[s] {
				if id == r.URRID {
					found = true
				}
			}
			if !found {
				return vcore.Violatef("result-wrong-seid", "result lists URR %d under session %#x which did not ask for it", r.URRID, s), false
			}
		}
	}
	if got != total {
		return vcore.Violatef("result-count", "%d reports returned for %d URRs", got, total), false
	}
	return nil, total > limit
}

// ---------------------------------------------------------------- test

func accountA(c CaseA, s statsA) {
	vcore.E.Eval()
	vcore.E.Class("perio_history")
	if len(c.Quiet) > 0 {
		vcore.E.Class("sessions_without_a_report_in_the_answer")
	}
	if s.interleaved {
		vcore.E.Class("tick_after_4+_add_del")
	}
	if s.stale {
		vcore.E.Class("stale_queued_tick")
	}
	if s.interleaved || s.stale {
		vcore.E.NonTrivial(vcore.JSON(c))
		vcore.E.Sample(fmt.Sprintf("history-stale%v", s.stale), c)
	}
}

func accountB(c CaseB, crossed bool) {
	vcore.E.Eval()
	vcore.E.Class("batch_query")
	if crossed {
		vcore.E.Class("crossed_batch_limit")
		vcore.E.NonTrivial(vcore.JSON(c))
		vcore.E.Sample("batch", c)
	}
}

func reportA(t vcore.Failer, c CaseA, v *vcore.Violation) {
	if v == nil || vcore.IsKnown(v.Key) {
		return
	}
	key := v.Key
	if key == "perio-stuck" || key == "close-hang" {
		// each run of such a case waits out a 10-15 s deadline: report it as found
		vcore.Report(t, v, map[string]any{"a": c})
		return
	}
	c.Evs = vcore.MinimizeSlice(c.Evs, func(evs []Ev) bool {
		x, _ := runA(CaseA{Evs: evs})
		return x != nil && x.Key == key
	}, 200)
	if x, _ := runA(c); x != nil {
		vcore.Report(t, x, map[string]any{"a": c})
	}
	vcore.Report(t, v, map[string]any{"a": c})
}

func TestC15(t *testing.T) {
	files, explicit := vcore.ReplayFiles()
	for _, f := range files {
		var w struct {
			A *CaseA  `json:"a"`
			B *CaseB  `json:"b"`
			C *CaseC  `json:"c"`
			D *CaseD  `json:"close"`
			E []EStep `json:"driver"`
			F int     `json:"busy"`
		}
		if err := vcore.LoadReplayCase(f, &w); err != nil {
			t.Fatalf("replay %s: %v", f, err)
		}
		vcore.E.Class("replayed")
		if w.A != nil {
			v, s := runA(*w.A)
			accountA(*w.A, s)
			reportA(t, *w.A, v)
		}
		if w.B != nil {
			v, cr := runB(*w.B)
			accountB(*w.B, cr)
			vcore.Report(t, v, map[string]any{"b": w.B})
		}
		if w.C != nil {
			v, s := checkC(*w.C)
			accountC(*w.C, s)
			vcore.Report(t, v, map[string]any{"c": w.C})
		}
		if w.D != nil {
			vcore.E.Eval()
			vcore.Report(t, runD(*w.D), map[string]any{"close": w.D})
		}
		if w.E != nil {
			vcore.E.Eval()
			vcore.Report(t, runE(w.E), map[string]any{"driver": w.E})
		}
		if w.F > 0 {
			vcore.E.Eval()
			vcore.Report(t, runBusy(w.F), map[string]any{"busy": w.F})
		}
	}
	if explicit {
		return
	}
	closePart(t)
	driverPart(t)
	busyPart(t)
	vcore.Check(t, vcore.N(500, 9000), func(rt *rapid.T) {
		c := genA(rt)
		v, s := runA(c)
		accountA(c, s)
		reportA(rt, c, v)
	})
	// (c) real tickers: schedules drawn first, then played side by side (each on its own server; they mostly sleep)
	vcore.Check(t, 1, func(rt *rapid.T) {
		n := vcore.N(12, 32)
		cs := make([]CaseC, n)
		for i := range cs {
			cs[i] = genC(rt)
		}
		vs := make([]*vcore.Violation, n)
		ss := make([]statsC, n)
		var wg sync.WaitGroup
		for i := range cs {
			wg.Add(1)
			go func(i int) {
				defer wg.Done()
				vs[i], ss[i] = checkC(cs[i])
			}(i)
		}
		wg.Wait()
		for i := range cs {
			accountC(cs[i], ss[i])
		}
		for i := range cs {
			vcore.Report(rt, vs[i], map[string]any{"c": cs[i]})
		}
	})
	limit := gtp5gnl.MaxNetlinkUsageReportNum()
	edge := []int{0, 1, limit - 1, limit, limit + 1, 2*limit - 1, 2 * limit, 2*limit + 1, 3 * limit}
	for _, n := range edge {
		for _, sessions := range []int{1, 2, 7} {
			var c CaseB
			for i := 0; i < sessions; i++ {
				c.Sizes = append(c.Sizes, n/sessions)
			}
			c.Sizes[0] += n % sessions
			v, cr := runB(c)
			accountB(c, cr)
			vcore.Report(t, v, map[string]any{"b": c})
		}
	}
	vcore.Check(t, vcore.N(300, 1000), func(rt *rapid.T) {
		ns := rapid.IntRange(1, 60).Draw(rt, "sessions")
		target := rapid.SampledFrom([]int{0, 3, limit - 1, limit, limit + 1, 2 * limit, 2*limit + 1, 200, 400}).Draw(rt, "target")
		var c CaseB
		left := target
		for i := 0; i < ns; i++ {
			n := 0
			if left > 0 {
				n = rapid.IntRange(0, min(left, 2+2*target/ns)).Draw(rt, "n")
			}
			left -= n
			c.Sizes = append(c.Sizes, n)
		}
		c.Sizes[ns-1] += left
		v, cr := runB(c)
		accountB(c, cr)
		vcore.Report(rt, v, map[string]any{"b": c})
	})
}
