//go:build verif

package c15

import (
	"time"

	"github.com/wmnsk/go-pfcp/ie"

	"github.com/free5gc/go-gtp5gnl"
	"github.com/free5gc/go-upf/internal/verif/fullstack"
	"github.com/free5gc/go-upf/internal/verif/simkernel"
	"github.com/free5gc/go-upf/internal/verif/stack"
	"github.com/free5gc/go-upf/internal/verif/vcore"
)

// ---------------------------------------------------------------- (e) registrations as the driver makes and drops them
//
// The parts above drive the periodic server through its own interface.  Who
// registers and deregisters in the product is the gtp5g driver: CreateURR for a
// URR with the periodic trigger, RemoveURR for every URR.  Here the real driver
// runs on the simulated kernel; URRs are created and removed - also when the
// kernel has lost the rule meanwhile and answers the removal with ENOENT, and
// when it refuses the creation - and after every step a tick of the period must
// query exactly the periodic URRs that exist, and the period's timer must be
// gone when there is none.

type EStep struct {
	Verb string `json:"verb"` // create | remove | create-refused | remove-lost
	SEID uint64 `json:"seid"`
	ID   uint32 `json:"id"`
}

func runE(steps []EStep) *vcore.Violation {
	d, err := fullstack.NewDriver(fullstack.Opts{})
	if err != nil {
		panic(err)
	}
	d.G.HandleReport(nopHandler{})
	defer d.Close()
	full := &fullstack.Full{D: d}
	const period = 3600
	have := map[pair]bool{}
	for i, st := range steps {
		key := simkernel.RuleKey{Kind: "URR", SEID: st.SEID, ID: uint64(st.ID)}
		k := pair{st.SEID, st.ID}
		mk := stack.RuleOp{Verb: "create", Kind: "URR", ID: st.ID, Method: 2, Trig: 0x03, Period: period}
		switch st.Verb {
		case "create":
			if have[k] {
				continue
			}
			_ = d.G.CreateURR(st.SEID, stack.OffWire(mk.IE()))
			have[k] = true
		case "create-refused":
			// the rule exists in the data plane already: the creation is refused, nothing may be arranged for it twice
			if !have[k] {
				continue
			}
			_ = d.G.CreateURR(st.SEID, stack.OffWire(mk.IE()))
		case "remove", "remove-lost":
			if !have[k] {
				continue
			}
			if st.Verb == "remove-lost" {
				d.K.Forget(key)
			}
			_, _ = d.G.RemoveURR(st.SEID, ie.NewRemoveURR(ie.NewURRID(st.ID)))
			delete(have, k)
		}
		d.K.TakeLog()
		d.G.VerifPerio().VerifTick(period * time.Second)
		if err := full.PerioBarrier(); err != nil {
			return vcore.Violatef("perio-stuck", "step %d: %v", i, err)
		}
		got := map[pair]int{}
		for _, r := range d.K.TakeLog() {
			if r.Cmd != gtp5gnl.CMD_GET_MULTI_REPORTS || r.Conn != "ps" {
				continue
			}
			for _, m := range simkernel.Find(r.Attrs, gtp5gnl.URR_MULTI_SEID_URRID) {
				sub, _ := simkernel.Walk(m.Value)
				ida, ok1 := simkernel.First(sub, gtp5gnl.URR_ID)
				sa, ok2 := simkernel.First(sub, gtp5gnl.URR_SEID)
				if ok1 && ok2 && len(sa.Value) == 8 && sa.U64() != fullstack.SentinelSEID {
					got[pair{sa.U64(), ida.U32()}]++
				}
			}
		}
		for p := range have {
			if got[p] != 1 {
				return vcore.Violatef("query-missing", "step %d (%s URR %d of session %#x): a tick queried the periodic URR %d of session %#x %d times, want once", i, st.Verb, st.ID, st.SEID, p.urr, p.seid, got[p])
			}
		}
		for p, n := range got {
			if !have[p] {
				return vcore.Violatef("query-of-removed", "step %d (%s URR %d of session %#x): a tick queried URR %d of session %#x (%d times), which has been removed", i, st.Verb, st.ID, st.SEID, p.urr, p.seid, n)
			}
		}
		if len(have) == 0 {
			if g, ok := d.G.VerifPerio().VerifGroups()[period*time.Second]; ok {
				return vcore.Violatef("timer-not-released", "step %d (%s): no periodic URR is left but the period's group/timer still exists (%v)", i, st.Verb, g)
			}
		}
	}
	return nil
}

func driverPart(t vcore.Failer) {
	scripts := [][]EStep{
		{{"create", 7, 1}, {"remove", 7, 1}},
		{{"create", 7, 1}, {"remove-lost", 7, 1}},
		{{"create", 7, 1}, {"create", 8, 1}, {"remove-lost", 7, 1}, {"remove", 8, 1}},
		{{"create", 7, 1}, {"create-refused", 7, 1}, {"remove", 7, 1}},
		{{"create", 7, 1}, {"create", 7, 2}, {"create-refused", 7, 2}, {"remove-lost", 7, 2}, {"remove", 7, 1}},
	}
	for _, sc := range scripts {
		vcore.E.Eval()
		vcore.E.Class("registrations_made_by_the_driver")
		vcore.E.NonTrivial(vcore.JSON(sc))
		vcore.Report(t, runE(sc), map[string]any{"driver": sc})
	}
}
