//go:build verif

package c15

import (
	"sync/atomic"
	"time"

	"github.com/wmnsk/go-pfcp/ie"

	"github.com/free5gc/go-gtp5gnl"
	"github.com/free5gc/go-upf/internal/verif/fullstack"
	"github.com/free5gc/go-upf/internal/verif/simkernel"
	"github.com/free5gc/go-upf/internal/verif/stack"
	"github.com/free5gc/go-upf/internal/verif/vcore"
)

// ---------------------------------------------------------------- (e) registrations as the driver makes and drops them
//
// The parts above drive the periodic server through its own interface.  Who
// registers and deregisters in the product is the gtp5g driver: CreateURR for a
// URR with the periodic trigger, RemoveURR for every URR.  Here the real driver
// runs on the simulated kernel; URRs are created and removed - also when the
// kernel has lost the rule meanwhile and answers the removal with ENOENT, and
// when it refuses the creation - and after every step a tick of the period must
// query exactly the periodic URRs that exist, and the period's timer must be
// gone when there is none.

type EStep struct {
	Verb string `json:"verb"` // create | remove | create-refused | remove-lost
	SEID uint64 `json:"seid"`
	ID   uint32 `json:"id"`
}

func runE(steps []EStep) *vcore.Violation {
	d, err := fullstack.NewDriver(fullstack.Opts{})
	if err != nil {
		panic(err)
	}
	d.G.HandleReport(nopHandler{})
	defer d.Close()
	full := &fullstack.Full{D: d}
	const period = 3600
	have := map[pair]bool{}
	for i, st := range steps {
		key := simkernel.RuleKey{Kind: "URR", SEID: st.SEID, ID: uint64(st.ID)}
		k := pair{st.SEID, st.ID}
		mk := stack.RuleOp{Verb: "create", Kind: "URR", ID: st.ID, Method: 2, Trig: 0x03, Period: period}
		switch st.Verb {
		case "create":
			if have[k] {
				continue
			}
			_ = d.G.CreateURR(st.SEID, stack.OffWire(mk.IE()))
			have[k] = true
		case "create-refused":
			// the rule exists in the data plane already: the creation is refused, nothing may be arranged for it twice
			if !have[k] {
				continue
			}
			_ = d.G.CreateURR(st.SEID, stack.OffWire(mk.IE()))
		case "remove", "remove-lost":
			if !have[k] {
				continue
			}
			if st.Verb == "remove-lost" {
				d.K.Forget(key)
			}
			_, _ = d.G.RemoveURR(st.SEID, ie.NewRemoveURR(ie.NewURRID(st.ID)))
			delete(have, k)
		}
		d.K.TakeLog()
		d.G.VerifPerio().VerifTick(period * time.Second)
		if err := full.PerioBarrier(); err != nil {
			return vcore.Violatef("perio-stuck", "step %d: %v", i, err)
		}
		got := map[pair]int{}
		for _, r := range d.K.TakeLog() {
			if r.Cmd != gtp5gnl.CMD_GET_MULTI_REPORTS || r.Conn != "ps" {
				continue
			}
			for _, m := range simkernel.Find(r.Attrs, gtp5gnl.URR_MULTI_SEID_URRID) {
				sub, _ := simkernel.Walk(m.Value)
				ida, ok1 := simkernel.First(sub, gtp5gnl.URR_ID)
				sa, ok2 := simkernel.First(sub, gtp5gnl.URR_SEID)
				if ok1 && ok2 && len(sa.Value) == 8 && sa.U64() != fullstack.SentinelSEID {
					got[pair{sa.U64(), ida.U32()}]++
				}
			}
		}
		for p := range have {
			if got[p] != 1 {
				return vcore.Violatef("query-missing", "step %d (%s URR %d of session %#x): a tick queried the periodic URR %d of session %#x %d times, want once", i, st.Verb, st.ID, st.SEID, p.urr, p.seid, got[p])
			}
		}
		for p, n := range got {
			if !have[p] {
				return vcore.Violatef("query-of-removed", "step %d (%s URR %d of session %#x): a tick queried URR %d of session %#x (%d times), which has been removed", i, st.Verb, st.ID, st.SEID, p.urr, p.seid, n)
			}
		}
		if len(have) == 0 {
			if g, ok := d.G.VerifPerio().VerifGroups()[period*time.Second]; ok {
				return vcore.Violatef("timer-not-released", "step %d (%s): no periodic URR is left but the period's group/timer still exists (%v)", i, st.Verb, g)
			}
		}
	}
	return nil
}

func driverPart(t vcore.Failer) {
	scripts := [][]EStep{
		{{"create", 7, 1}, {"remove", 7, 1}},
		{{"create", 7, 1}, {"remove-lost", 7, 1}},
		{{"create", 7, 1}, {"create", 8, 1}, {"remove-lost", 7, 1}, {"remove", 8, 1}},
		{{"create", 7, 1}, {"create-refused", 7, 1}, {"remove", 7, 1}},
		{{"create", 7, 1}, {"create", 7, 2}, {"create-refused", 7, 2}, {"remove-lost", 7, 2}, {"remove", 7, 1}},
	}
	for _, sc := range scripts {
		vcore.E.Eval()
		vcore.E.Class("registrations_made_by_the_driver")
		vcore.E.NonTrivial(vcore.JSON(sc))
		vcore.Report(t, runE(sc), map[string]any{"driver": sc})
	}
}

// ---------------------------------------------------------------- (f) registrations while the server is busy
//
// The periodic server is inside a tick's usage query (held by the simulated
// kernel) while the driver creates n periodic URRs - more than the server's
// event queue holds (512): the creations wait, none may be lost.  The next
// tick must query every one of them.

func runBusy(n int) *vcore.Violation {
	d, err := fullstack.NewDriver(fullstack.Opts{})
	if err != nil {
		panic(err)
	}
	d.G.HandleReport(nopHandler{})
	defer func() {
		d.K.PsHold.Store(false)
		d.Close()
	}()
	full := &fullstack.Full{D: d}
	const period = 3600
	mk := func(id uint32) *ie.IE {
		return stack.OffWire(stack.RuleOp{Verb: "create", Kind: "URR", ID: id, Method: 2, Trig: 0x03, Period: period}.IE())
	}
	if err := d.G.CreateURR(1, mk(1)); err != nil {
		return vcore.Violatef("harness", "first CreateURR: %v", err)
	}
	if err := full.PerioBarrier(); err != nil {
		return vcore.Violatef("perio-stuck", "%v", err)
	}
	d.K.PsHold.Store(true)
	d.G.VerifPerio().VerifTick(period * time.Second)
	for i := 0; i < 100000 && d.K.PsHeld.Load() == 0; i++ {
		time.Sleep(100 * time.Microsecond)
	}
	if d.K.PsHeld.Load() == 0 {
		return vcore.Violatef("harness", "the tick's query never reached the data plane")
	}
	have := map[pair]bool{{1, 1}: true}
	done := make(chan error, 1)
	var created atomic.Int64
	go func() {
		for i := 0; i < n; i++ {
			seid, id := uint64(100+i/4), uint32(1+i%4)
			if err := d.G.CreateURR(seid, mk(id)); err != nil {
				done <- err
				return
			}
			created.Add(1)
		}
		done <- nil
	}()
	for i := 0; i < n; i++ {
		have[pair{uint64(100 + i/4), uint32(1 + i%4)}] = true
	}
	// the creations either all get through (the queue took them) or wait for the server once its queue is full; only then
	// is the query let go (the harness owns this schedule: a fixed delay let the query return before the queue had filled
	// on a busy machine)
	finished := false
	for i, last, same := 0, int64(-1), 0; i < 3000 && !finished; i++ {
		select {
		case err := <-done:
			done <- err
			finished = true
			continue
		case <-time.After(10 * time.Millisecond):
		}
		if c := created.Load(); c == last && d.G.VerifPerio().VerifQueueLen() >= 512 {
			if same++; same >= 10 {
				break
			}
		} else {
			last, same = c, 0
		}
	}
	d.K.PsHold.Store(false)
	select {
	case err := <-done:
		if err != nil {
			return vcore.Violatef("harness", "CreateURR: %v", err)
		}
	case <-time.After(30 * time.Second):
		return vcore.Violatef("create-stuck", "%d periodic URRs created while the periodic server was inside a usage query: the creations did not finish within 30 s of the query's return", n)
	}
	if err := full.PerioBarrier(); err != nil {
		return vcore.Violatef("perio-stuck", "%v", err)
	}
	d.K.TakeLog()
	d.G.VerifPerio().VerifTick(period * time.Second)
	if err := full.PerioBarrier(); err != nil {
		return vcore.Violatef("perio-stuck", "%v", err)
	}
	got := map[pair]int{}
	for _, r := range d.K.TakeLog() {
		if r.Cmd != gtp5gnl.CMD_GET_MULTI_REPORTS || r.Conn != "ps" {
			continue
		}
		for _, m := range simkernel.Find(r.Attrs, gtp5gnl.URR_MULTI_SEID_URRID) {
			sub, _ := simkernel.Walk(m.Value)
			ida, ok1 := simkernel.First(sub, gtp5gnl.URR_ID)
			sa, ok2 := simkernel.First(sub, gtp5gnl.URR_SEID)
			if ok1 && ok2 && len(sa.Value) == 8 && sa.U64() != fullstack.SentinelSEID {
				got[pair{sa.U64(), ida.U32()}]++
			}
		}
	}
	missing := 0
	for p := range have {
		if got[p] != 1 {
			missing++
		}
	}
	if missing > 0 {
		return vcore.Violatef("query-missing", "%d periodic URRs were created while the periodic server was inside a usage query (its event queue holds 512): the next tick queried %d of the %d URRs that exist, %d are missing or queried twice", n, len(got), len(have), missing)
	}
	return nil
}

func busyPart(t vcore.Failer) {
	for _, n := range []int{100, 600} {
		vcore.E.Eval()
		vcore.E.Class("registrations_while_the_server_is_busy")
		vcore.E.NonTrivial(vcore.FP("busy", n))
		vcore.Report(t, runBusy(n), map[string]any{"busy": n})
	}
}
