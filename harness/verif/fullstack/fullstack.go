//go:build verif

// Package fullstack wires the real forwarder.Gtp5g driver (with its real
// buffering listener and periodic server) to the simulated gtp5g kernel.
package fullstack

import (
	"net"
	"sync"
	"time"

	"github.com/khirono/go-nl"

	"github.com/free5gc/go-upf/internal/forwarder"
	"github.com/free5gc/go-upf/internal/verif/simkernel"
	"github.com/free5gc/go-upf/internal/verif/stack"
)

var (
	muxOnce sync.Once
	mux     *nl.Mux
	muxErr  error
)

// Mux returns the one netlink mux of this process (go-nl's Mux.Close closes a
// descriptor that Mux.Serve closes again on exit, so it is never closed).
func Mux() (*nl.Mux, error) {
	muxOnce.Do(func() {
		mux, muxErr = nl.NewMux()
		if muxErr == nil {
			go func() { _ = mux.Serve() }()
		}
	})
	return mux, muxErr
}

// Driver is a real Gtp5g driver on a simulated kernel.
type Driver struct {
	K      *simkernel.Kernel
	G      *forwarder.Gtp5g
	Gtpu   *net.UDPConn
	wg     *sync.WaitGroup
	own    sync.WaitGroup
	detach sync.Once
}

type Opts struct {
	WG       *sync.WaitGroup // wait group the periodic server runs under (default: own)
	GtpuAddr string          // address the re-injection socket binds (default: none)
	NoMcast  bool
}

func NewDriver(o Opts) (*Driver, error) {
	stack.InitProcess()
	m, err := Mux()
	if err != nil {
		return nil, err
	}
	k, err := simkernel.New()
	if err != nil {
		return nil, err
	}
	d := &Driver{K: k, wg: o.WG}
	if d.wg == nil {
		d.wg = &d.own
	}
	if o.GtpuAddr != "" {
		a, err := net.ResolveUDPAddr("udp4", o.GtpuAddr)
		if err != nil {
			k.Close()
			return nil, err
		}
		d.Gtpu, err = net.ListenUDP("udp4", a)
		if err != nil {
			k.Close()
			return nil, err
		}
	}
	opts := forwarder.VerifGtp5gOpts{Mux: m, Conn: k.Main, PsConn: k.Ps, FamilyID: simkernel.FamilyID, LinkIdx: simkernel.LinkIdx, GtpuConn: d.Gtpu}
	if !o.NoMcast {
		opts.Mcast = k.Mcast
	}
	d.G, err = forwarder.VerifNewGtp5g(d.wg, opts)
	if err != nil {
		k.Close()
		return nil, err
	}
	return d, nil
}

// Close shuts the driver down: handlers are popped from the shared mux before
// any descriptor is closed.
// Detach does what the production driver's Close() does to the periodic
// server and the netlink listener (once).
func (d *Driver) Detach() {
	d.detach.Do(func() { d.G.VerifClose() })
}

func (d *Driver) Close() error {
	d.Detach()
	var err error
	if d.wg == &d.own {
		done := make(chan struct{})
		go func() { d.own.Wait(); close(done) }()
		select {
		case <-done:
		case <-time.After(10 * time.Second):
			err = errTimeout
		}
	}
	d.K.Close()
	if d.Gtpu != nil {
		d.Gtpu.Close()
	}
	return err
}

type timeoutErr struct{}

func (timeoutErr) Error() string { return "periodic server did not stop within 10s" }

var errTimeout = timeoutErr{}
