//go:build verif

package fullstack

import (
	"fmt"
	"time"

	"github.com/free5gc/go-gtp5gnl"
	"github.com/free5gc/go-upf/internal/verif/simkernel"
	"github.com/free5gc/go-upf/internal/verif/stack"
)

// Full is the full stack: real PfcpServer + real Gtp5g driver (buffering
// listener, periodic server) + simulated kernel.
type Full struct {
	S *stack.Stack
	D *Driver
	R *stack.Runner
}

type FullOpts struct {
	Nodes      int
	MaxRetrans uint8
	Retrans    time.Duration  // retransmission timeout of UPF-initiated requests (default: an hour, no real timer fires)
	Gtpu       bool           // bind the re-injection socket on the UPF address, port 2152
	NodeIDs    map[int]string // see stack.Opts.NodeIDs
}

func NewFull(o FullOpts) (*Full, error) {
	stack.InitProcess()
	n, err := stack.ReserveNet(stack.Net2FromEnv(100))
	if err != nil {
		return nil, err
	}
	do := Opts{}
	if o.Gtpu {
		do.GtpuAddr = n.IP(1) + ":2152"
	}
	d, err := NewDriver(do)
	if err != nil {
		return nil, err
	}
	s, err := stack.New(stack.Opts{Driver: d.G, Nodes: o.Nodes, MaxRetrans: o.MaxRetrans, Retrans: o.Retrans, NodeIDs: o.NodeIDs})
	if err != nil {
		d.Close()
		return nil, err
	}
	return &Full{S: s, D: d, R: stack.NewRunner(s, nil)}, nil
}

// Close stops the PFCP server first and the driver second (the order pkg/app uses).
func (f *Full) Close() error {
	err := f.S.Close()
	if derr := f.D.Close(); derr != nil && err == nil {
		err = derr
	}
	return err
}

const SentinelSEID = 0xfeedfeedfeedfeed

// PerioBarrier returns once the periodic server has handled every event
// posted before the call (a sentinel registration is ticked and its query
// awaited in the kernel log).
func (f *Full) PerioBarrier() error {
	ps := f.D.G.VerifPerio()
	sp := 999999 * time.Hour
	ps.AddPeriodReportTimer(SentinelSEID, 1, sp)
	ps.VerifTick(sp)
	deadline := time.Now().Add(20 * time.Second)
	for {
		found := false
		f.D.K.ScanLog(func(r *simkernel.Request) {
			if r.Cmd != gtp5gnl.CMD_GET_MULTI_REPORTS || r.Conn != "ps" {
				return
			}
			for _, m := range simkernel.Find(r.Attrs, gtp5gnl.URR_MULTI_SEID_URRID) {
				sub, _ := simkernel.Walk(m.Value)
				if sa, ok := simkernel.First(sub, gtp5gnl.URR_SEID); ok && len(sa.Value) == 8 && sa.U64() == SentinelSEID {
					found = true
					r.Cmd = -1 // consumed: never matches again
				}
			}
		})
		if found {
			break
		}
		if time.Now().After(deadline) {
			return fmt.Errorf("periodic server did not reach the sentinel tick within 20s")
		}
		time.Sleep(50 * time.Microsecond)
	}
	ps.DelPeriodReportTimer(SentinelSEID, 1)
	return nil
}
