//go:build verif

package stack

import (
	"fmt"
	"net"
	"time"

	"github.com/wmnsk/go-pfcp/ie"
	"github.com/wmnsk/go-pfcp/message"

	"github.com/free5gc/go-upf/internal/pfcp"
	"github.com/free5gc/go-upf/internal/report"
)

// OHC is an outer-header creation (GTP-U/UDP/IPv4 when Port == 0).
type OHC struct {
	TEID uint32 `json:"teid"`
	Peer string `json:"peer"`
	Port uint16 `json:"port,omitempty"`
}

// RuleOp is one Create/Update/Remove/Query IE of a session message.
type RuleOp struct {
	Verb string `json:"verb"` // create update remove query
	Kind string `json:"kind"` // PDR FAR QER URR BAR
	ID   uint32 `json:"id"`
	// PDR
	Prec   uint32   `json:"prec,omitempty"`
	SrcIf  uint8    `json:"src_if,omitempty"`
	UEIP   string   `json:"ueip,omitempty"`
	UEForm int      `json:"ue_form,omitempty"` // with UEIP: 0 IPv4 address, 1 IPv6 address only, 2 CHV4 (no address in the IE)
	FAR    uint32   `json:"far,omitempty"`
	QERs   []uint32 `json:"qers,omitempty"`
	URRs   []uint32 `json:"urrs,omitempty"`
	OHR    bool     `json:"ohr,omitempty"`
	// FAR
	Action    uint16 `json:"action,omitempty"`
	HasAction bool   `json:"has_action,omitempty"`
	OHC       *OHC   `json:"ohc,omitempty"`
	BAR       uint8  `json:"bar,omitempty"`
	IDLast    bool   `json:"id_last,omitempty"` // FAR: the FAR ID IE stands last in the grouped IE (IEs may come in any order)
	Perm      uint32 `json:"perm,omitempty"`    // != 0: child IEs of the Create / Update IE in another order, drawn from this value
	// QER
	QFI  uint8 `json:"qfi,omitempty"`
	Gate uint8 `json:"gate,omitempty"`
	// URR
	Method uint8  `json:"method,omitempty"` // bit0 DURAT, bit1 VOLUM, bit2 EVENT
	MNOP   bool   `json:"mnop,omitempty"`
	Trig   uint32 `json:"trig,omitempty"`
	Period uint32 `json:"period,omitempty"`  // seconds
	NoMeas bool   `json:"no_meas,omitempty"` // update URR without measurement method/info
	NoInfo bool   `json:"no_info,omitempty"` // URR without the Measurement Information IE
}

// Op is one symbolic step of a history.
type Op struct {
	Kind string `json:"kind"` // assoc est mod del hb report rsp expire_rx expire_tx
	Peer int    `json:"peer"` // socket the message is sent from
	Node int    `json:"node"` // node id named in the Node ID IE (-1: none)
	Sess int    `json:"sess"` // session reference (index in establishment order), -1: use Raw
	Raw  uint64 `json:"raw,omitempty"`
	CP   uint64 `json:"cp,omitempty"` // CP SEID chosen by the peer (est)
	Seq  uint32 `json:"seq,omitempty"`
	// est / assoc variations
	NoNodeID bool     `json:"no_node_id,omitempty"`
	NoFSEID  bool     `json:"no_fseid,omitempty"`
	Takeover bool     `json:"takeover,omitempty"` // mod carries Node ID = Node
	Rules    []RuleOp `json:"rules,omitempty"`
	// report (injected through NotifySessReport, as the netlink listener / periodic server do)
	URRs    []uint32 `json:"urrs,omitempty"`
	Trig    uint32   `json:"trig,omitempty"` // usage report trigger flags
	DLDR    bool     `json:"dldr,omitempty"`
	PDR     uint16   `json:"pdr,omitempty"`
	Action  uint16   `json:"action,omitempty"`
	Payload []byte   `json:"payload,omitempty"`
	// rsp: answer the Which-th oldest outstanding Session Report Request seen at socket Peer
	Which    int  `json:"which,omitempty"`
	SEID0    bool `json:"seid0,omitempty"`
	SeqDelta int  `json:"seq_delta,omitempty"` // != 0: answer with a wrong sequence number
	From     int  `json:"from,omitempty"`      // socket the answer is sent from (default: Peer)
	UseFrom  bool `json:"use_from,omitempty"`
	Dup      bool `json:"dup,omitempty"` // keep the request outstanding in the harness (answer again later)
	// expire
	TrID string `json:"tr_id,omitempty"`
}

// ---------------------------------------------------------------- IE builders

// IE renders the rule op.  With Perm != 0 the children of a Create / Update IE are put into another order, drawn from Perm:
// a receiver must cope with any order of the IEs inside a grouped IE.
func (r RuleOp) IE() *ie.IE {
	i := r.ie()
	if r.Perm == 0 || i == nil || len(i.ChildIEs) < 2 || (r.Verb != "create" && r.Verb != "update") {
		return i
	}
	cs := append([]*ie.IE(nil), i.ChildIEs...)
	x := r.Perm
	for k := len(cs) - 1; k > 0; k-- {
		x = x*1664525 + 1013904223
		j := int((x >> 8) % uint32(k+1))
		cs[k], cs[j] = cs[j], cs[k]
	}
	return ie.NewGroupedIE(i.Type, cs...)
}

// Permute gives every Create / Update op of a message a child order of its own, derived from seed (0 = leave as built).
func Permute(rules []RuleOp, seed uint32) []RuleOp {
	if seed == 0 {
		return rules
	}
	out := append([]RuleOp(nil), rules...)
	for i := range out {
		if out[i].Perm == 0 && (out[i].Verb == "create" || out[i].Verb == "update") {
			out[i].Perm = seed*2654435761 + uint32(i)*40503 + 1
		}
	}
	return out
}

func (r RuleOp) ie() *ie.IE {
	switch r.Kind {
	case "PDR":
		switch r.Verb {
		case "create", "update":
			var cs []*ie.IE
			cs = append(cs, ie.NewPDRID(uint16(r.ID)))
			if r.Prec != 0 || r.Verb == "create" {
				cs = append(cs, ie.NewPrecedence(r.Prec))
			}
			if r.Verb == "create" || r.UEIP != "" {
				pdi := []*ie.IE{ie.NewSourceInterface(r.SrcIf)}
				if r.UEIP != "" {
					switch r.UEForm {
					case 1:
						// an IPv6-only UE (the IE carries no IPv4 address)
						pdi = append(pdi, ie.NewUEIPAddress(1, "", "2001:db8:60::1", 0, 0))
					case 2:
						// CHV4: the UP function is asked to choose the IPv4 address, the IE carries none
						pdi = append(pdi, ie.New(ie.UEIPAddress, []byte{0x10}))
					default:
						pdi = append(pdi, ie.NewUEIPAddress(2, r.UEIP, "", 0, 0))
					}
				}
				cs = append(cs, ie.NewPDI(pdi...))
			}
			if r.OHR {
				cs = append(cs, ie.NewOuterHeaderRemoval(0, 0))
			}
			if r.FAR != 0 {
				cs = append(cs, ie.NewFARID(r.FAR))
			}
			for _, q := range r.QERs {
				cs = append(cs, ie.NewQERID(q))
			}
			for _, u := range r.URRs {
				cs = append(cs, ie.NewURRID(u))
			}
			if r.Verb == "create" {
				return ie.NewCreatePDR(cs...)
			}
			return ie.NewUpdatePDR(cs...)
		case "remove":
			return ie.NewRemovePDR(ie.NewPDRID(uint16(r.ID)))
		}
	case "FAR":
		switch r.Verb {
		case "create", "update":
			cs := []*ie.IE{ie.NewFARID(r.ID)}
			if r.HasAction || r.Verb == "create" {
				if r.Action > 0xff {
					cs = append(cs, ie.NewApplyAction(uint8(r.Action), uint8(r.Action>>8)))
				} else {
					cs = append(cs, ie.NewApplyAction(uint8(r.Action)))
				}
			}
			if r.OHC != nil {
				var ohc *ie.IE
				if r.OHC.Port == 0 {
					ohc = ie.NewOuterHeaderCreation(0x0100, r.OHC.TEID, r.OHC.Peer, "", 0, 0, 0)
				} else {
					ohc = ie.NewOuterHeaderCreation(0x0400, 0, r.OHC.Peer, "", r.OHC.Port, 0, 0)
				}
				if r.Verb == "create" {
					cs = append(cs, ie.NewForwardingParameters(ie.NewDestinationInterface(ie.DstInterfaceAccess), ohc))
				} else {
					cs = append(cs, ie.NewUpdateForwardingParameters(ie.NewDestinationInterface(ie.DstInterfaceAccess), ohc))
				}
			}
			if r.BAR != 0 {
				cs = append(cs, ie.NewBARID(r.BAR))
			}
			if r.IDLast {
				cs = append(cs[1:len(cs):len(cs)], cs[0])
			}
			if r.Verb == "create" {
				return ie.NewCreateFAR(cs...)
			}
			return ie.NewUpdateFAR(cs...)
		case "remove":
			return ie.NewRemoveFAR(ie.NewFARID(r.ID))
		}
	case "QER":
		switch r.Verb {
		case "create", "update":
			cs := []*ie.IE{ie.NewQERID(r.ID), ie.NewGateStatus(r.Gate>>2&3, r.Gate&3)}
			if r.QFI != 0 {
				cs = append(cs, ie.NewQFI(r.QFI))
			}
			if r.Verb == "create" {
				return ie.NewCreateQER(cs...)
			}
			return ie.NewUpdateQER(cs...)
		case "remove":
			return ie.NewRemoveQER(ie.NewQERID(r.ID))
		}
	case "URR":
		switch r.Verb {
		case "create", "update":
			cs := []*ie.IE{ie.NewURRID(r.ID)}
			if !r.NoMeas {
				cs = append(cs, ie.NewMeasurementMethod(int(r.Method>>2&1), int(r.Method>>1&1), int(r.Method&1)))
			}
			cs = append(cs, ie.NewReportingTriggers(uint8(r.Trig), uint8(r.Trig>>8), uint8(r.Trig>>16)))
			if r.Period != 0 {
				cs = append(cs, ie.NewMeasurementPeriod(time.Duration(r.Period)*time.Second))
			}
			if !r.NoMeas && !r.NoInfo {
				var mi uint8
				if r.MNOP {
					mi = 0x10
				}
				cs = append(cs, ie.NewMeasurementInformation(mi))
			}
			if r.Verb == "create" {
				return ie.NewCreateURR(cs...)
			}
			return ie.NewUpdateURR(cs...)
		case "remove":
			return ie.NewRemoveURR(ie.NewURRID(r.ID))
		case "query":
			return ie.NewQueryURR(ie.NewURRID(r.ID))
		}
	case "BAR":
		switch r.Verb {
		case "create":
			return ie.NewCreateBAR(ie.NewBARID(uint8(r.ID)))
		case "update":
			return ie.NewUpdateBARWithinSessionModificationRequest(ie.NewBARID(uint8(r.ID)))
		case "remove":
			return ie.NewRemoveBAR(ie.NewBARID(uint8(r.ID)))
		}
	}
	panic(fmt.Sprintf("bad rule op %+v", r))
}

// ---------------------------------------------------------------- runner

// SessRef is what the harness learnt about an established session.
type SessRef struct {
	UP    uint64 `json:"up"`
	CP    uint64 `json:"cp"`
	Node  int    `json:"node"` // node id index named at establishment
	Peer  int    `json:"peer"` // socket it was established from
	Known bool   `json:"known"`
}

// SRR is a Session Report Request observed at a node socket.
type SRR struct {
	Sock int
	Seq  uint32
	SEID uint64 // header SEID = the CP SEID
	B    []byte
	Msg  *message.SessionReportRequest
}

// Runner executes symbolic ops against a Stack.
type Runner struct {
	S       *Stack
	D       *ModelDriver // nil when a real driver is used
	Sess    []SessRef
	seq     map[int]uint32
	Pending map[int][]SRR // outstanding report requests per socket
}

func NewRunner(s *Stack, d *ModelDriver) *Runner {
	return &Runner{S: s, D: d, seq: map[int]uint32{}, Pending: map[int][]SRR{}}
}

// Obs is what one step produced.
type Obs struct {
	Sent    []byte
	SentSeq uint32
	Rx      map[int][]Datagram        // per socket reference
	Msgs    map[int][]message.Message // parsed
	Calls   []Call
	Dead    *CrashInfo
	Stuck   bool
	NewSess int // index of the session created by this step, or -1
	SRRs    []SRR
	Skipped string // op could not be executed (e.g. unresolved reference)
}

func (r *Runner) nextSeq(peer int, want uint32) uint32 {
	if want != 0 {
		return want
	}
	r.seq[peer]++
	return r.seq[peer]
}

// NodeIDIE renders a Node ID in the form its text calls for: IPv4 address, IPv6 address or FQDN.
func NodeIDIE(id string) *ie.IE {
	if ip := net.ParseIP(id); ip != nil {
		if ip.To4() != nil {
			return ie.NewNodeID(id, "", "")
		}
		return ie.NewNodeID("", id, "")
	}
	return ie.NewNodeID("", "", id)
}

func fseidIE(seid uint64, id string) *ie.IE {
	if ip := net.ParseIP(id); ip != nil && ip.To4() == nil {
		return ie.NewFSEID(seid, nil, ip)
	}
	return ie.NewFSEID(seid, net.ParseIP(id), nil)
}

// SEID resolves the SEID an op addresses.
func (r *Runner) SEID(op Op) (uint64, bool) {
	if op.Sess < 0 {
		return op.Raw, true
	}
	if op.Sess >= len(r.Sess) || !r.Sess[op.Sess].Known {
		return 0, false
	}
	return r.Sess[op.Sess].UP, true
}

// Build renders the PFCP message of a request op.
func (r *Runner) Build(op Op, seq uint32) ([]byte, error) {
	switch op.Kind {
	case "hb":
		return Marshal(message.NewHeartbeatRequest(seq, ie.NewRecoveryTimeStamp(time.Unix(1700000000, 0)), nil)), nil
	case "assoc":
		var ies []*ie.IE
		if !op.NoNodeID {
			ies = append(ies, NodeIDIE(r.S.NodeID(op.Node)))
		}
		ies = append(ies, ie.NewRecoveryTimeStamp(time.Unix(1700000000, 0)))
		return Marshal(message.NewAssociationSetupRequest(seq, ies...)), nil
	case "est":
		var ies []*ie.IE
		if !op.NoNodeID {
			ies = append(ies, NodeIDIE(r.S.NodeID(op.Node)))
		}
		if !op.NoFSEID {
			ies = append(ies, fseidIE(op.CP, r.S.NodeID(op.Node)))
		}
		for _, ru := range op.Rules {
			ies = append(ies, ru.IE())
		}
		return Marshal(message.NewSessionEstablishmentRequest(0, 0, 0, seq, 0, ies...)), nil
	case "mod":
		seid, ok := r.SEID(op)
		if !ok {
			return nil, fmt.Errorf("unresolved session reference %d", op.Sess)
		}
		var ies []*ie.IE
		if op.Takeover {
			ies = append(ies, NodeIDIE(r.S.NodeID(op.Node)))
		}
		for _, ru := range op.Rules {
			ies = append(ies, ru.IE())
		}
		return Marshal(message.NewSessionModificationRequest(0, 0, seid, seq, 0, ies...)), nil
	case "del":
		seid, ok := r.SEID(op)
		if !ok {
			return nil, fmt.Errorf("unresolved session reference %d", op.Sess)
		}
		return Marshal(message.NewSessionDeletionRequest(0, 0, seid, seq, 0)), nil
	}
	return nil, fmt.Errorf("not a request op: %s", op.Kind)
}

func safeNotify(f func()) (err error) {
	defer func() {
		if p := recover(); p != nil {
			err = fmt.Errorf("notify panicked: %v", p)
		}
	}()
	f()
	return nil
}

// Step executes one op, passes the barrier and collects observations.
func (r *Runner) Step(op Op) *Obs {
	o := &Obs{Rx: map[int][]Datagram{}, Msgs: map[int][]message.Message{}, NewSess: -1}
	if r.S.Dead != nil {
		o.Dead = r.S.Dead
		return o
	}
	switch op.Kind {
	case "hb", "assoc", "est", "mod", "del":
		seq := r.nextSeq(op.Peer, op.Seq)
		b, err := r.Build(op, seq)
		if err != nil {
			o.Skipped = err.Error()
			return o
		}
		o.Sent, o.SentSeq = b, seq
		if err := r.S.Send(op.Peer, b); err != nil {
			o.Skipped = err.Error()
			return o
		}
	case "resend":
		// handled by callers that keep the bytes (C06); nothing here
	case "report":
		seid, ok := r.SEID(op)
		if !ok {
			o.Skipped = "unresolved session"
			return o
		}
		var reps []report.Report
		if op.DLDR {
			reps = append(reps, report.DLDReport{PDRID: op.PDR, Action: op.Action, BufPkt: op.Payload})
		} else {
			for i, u := range op.URRs {
				reps = append(reps, report.USAReport{
					URRID:        u,
					USARTrigger:  report.UsageReportTrigger{Flags: op.Trig},
					StartTime:    time.Unix(1700000000, 0),
					EndTime:      time.Unix(1700000100, 0),
					VolumMeasure: report.VolumeMeasure{TotalVolume: uint64(100 + i), UplinkVolume: 40, DownlinkVolume: uint64(60 + i)},
				})
			}
		}
		if err := safeNotify(func() { r.S.Srv.NotifySessReport(report.SessReport{SEID: seid, Reports: reps}) }); err != nil {
			o.Skipped = err.Error()
		}
	case "rsp":
		p := r.Pending[op.Peer]
		if op.Which >= len(p) {
			o.Skipped = "no outstanding report request"
			return o
		}
		srr := p[op.Which]
		if !op.Dup {
			r.Pending[op.Peer] = append(append([]SRR{}, p[:op.Which]...), p[op.Which+1:]...)
		}
		seid := uint64(0)
		if !op.SEID0 {
			// the UPF's SEID for the session is not in the request; any non-zero value selects the normal path
			seid = 1
			for _, s := range r.Sess {
				if s.Known && s.CP == srr.SEID {
					seid = s.UP
				}
			}
		}
		seq := uint32(int64(srr.Seq) + int64(op.SeqDelta))
		rsp := message.NewSessionReportResponse(0, 0, seid, seq, 0, ie.NewCause(ie.CauseRequestAccepted))
		from := op.Peer
		if op.UseFrom {
			from = op.From
		}
		b := Marshal(rsp)
		o.Sent, o.SentSeq = b, seq
		if err := r.S.Send(from, b); err != nil {
			o.Skipped = err.Error()
			return o
		}
	case "expire_rx":
		if err := safeNotify(func() { r.S.Srv.NotifyTransTimeout(pfcp.RX, op.TrID) }); err != nil {
			o.Skipped = err.Error()
		}
	case "expire_tx":
		if err := safeNotify(func() { r.S.Srv.NotifyTransTimeout(pfcp.TX, op.TrID) }); err != nil {
			o.Skipped = err.Error()
		}
	default:
		panic("unknown op kind " + op.Kind)
	}
	r.Collect(o)
	// learn the new session
	if op.Kind == "est" {
		ref := SessRef{CP: op.CP, Node: op.Node, Peer: op.Peer}
		for _, m := range o.Msgs[op.Peer] {
			if er, ok := m.(*message.SessionEstablishmentResponse); ok && er.Sequence() == o.SentSeq && er.UPFSEID != nil {
				if f, err := er.UPFSEID.FSEID(); err == nil {
					ref.UP, ref.Known = f.SEID, true
				}
			}
		}
		r.Sess = append(r.Sess, ref)
		o.NewSess = len(r.Sess) - 1
	}
	return o
}

// SendRaw transmits bytes from a socket, then barrier + collect.
func (r *Runner) SendRaw(peer int, b []byte) *Obs {
	o := &Obs{Rx: map[int][]Datagram{}, Msgs: map[int][]message.Message{}, NewSess: -1, Sent: b}
	if r.S.Dead != nil {
		o.Dead = r.S.Dead
		return o
	}
	if err := r.S.Send(peer, b); err != nil {
		o.Skipped = err.Error()
		return o
	}
	r.Collect(o)
	return o
}

// Collect passes the barrier and gathers datagrams and driver calls.
func (r *Runner) Collect(o *Obs) {
	err := r.S.Barrier()
	switch e := err.(type) {
	case nil:
	case *ErrDead:
		o.Dead = e.Info
	case *ErrStuck:
		o.Stuck = true
	default:
		o.Skipped = err.Error()
	}
	if r.D != nil {
		o.Calls = r.D.TakeCalls()
	}
	for _, ref := range r.S.AllSocks() {
		ds := r.S.Sock(ref).Drain()
		if len(ds) == 0 {
			continue
		}
		o.Rx[ref] = ds
		for _, d := range ds {
			m, err := message.Parse(d.B)
			if err != nil {
				continue
			}
			o.Msgs[ref] = append(o.Msgs[ref], m)
			if q, ok := m.(*message.SessionReportRequest); ok {
				s := SRR{Sock: ref, Seq: q.Sequence(), SEID: q.SEID(), B: d.B, Msg: q}
				r.Pending[ref] = append(r.Pending[ref], s)
				o.SRRs = append(o.SRRs, s)
			}
		}
	}
}

// Cause extracts the cause value of a response message (0 if absent).
func Cause(m message.Message) uint8 {
	var c *ie.IE
	switch v := m.(type) {
	case *message.SessionEstablishmentResponse:
		c = v.Cause
	case *message.SessionModificationResponse:
		c = v.Cause
	case *message.SessionDeletionResponse:
		c = v.Cause
	case *message.AssociationSetupResponse:
		c = v.Cause
	}
	if c == nil {
		return 0
	}
	v, _ := c.Cause()
	return v
}

// UsageRep is a usage-report IE decoded from any of the three carriers.
type UsageRep struct {
	URR     uint32
	SEQN    uint32
	Trig    uint32 // octets little-endian widened: octet5 | octet6<<8 | octet7<<16
	HasSEQN bool
	IE      *ie.IE
}

func children(i *ie.IE) []*ie.IE {
	if len(i.ChildIEs) > 0 {
		return i.ChildIEs
	}
	cs, err := ie.ParseMultiIEs(i.Payload)
	if err != nil {
		return nil
	}
	return cs
}

// Children exposes the child IEs of a grouped IE.
func Children(i *ie.IE) []*ie.IE { return children(i) }

// UsageReports extracts the usage reports of a Session Report Request,
// Modification Response or Deletion Response, in message order.
func UsageReports(m message.Message) []UsageRep {
	var urs []*ie.IE
	switch v := m.(type) {
	case *message.SessionReportRequest:
		urs = v.UsageReport
	case *message.SessionModificationResponse:
		urs = v.UsageReport
	case *message.SessionDeletionResponse:
		urs = v.UsageReport
	}
	var out []UsageRep
	for _, u := range urs {
		r := UsageRep{IE: u}
		for _, c := range children(u) {
			switch c.Type {
			case ie.URRID:
				if len(c.Payload) >= 4 {
					r.URR = uint32(c.Payload[0])<<24 | uint32(c.Payload[1])<<16 | uint32(c.Payload[2])<<8 | uint32(c.Payload[3])
				}
			case ie.URSEQN:
				if len(c.Payload) >= 4 {
					r.SEQN = uint32(c.Payload[0])<<24 | uint32(c.Payload[1])<<16 | uint32(c.Payload[2])<<8 | uint32(c.Payload[3])
					r.HasSEQN = true
				}
			case ie.UsageReportTrigger:
				for k, b := range c.Payload {
					if k < 3 {
						r.Trig |= uint32(b) << (8 * k)
					}
				}
			}
		}
		out = append(out, r)
	}
	return out
}

const (
	TrigPERIO = 1 << 0
	TrigVOLTH = 1 << 1
	TrigIMMER = 1 << 7
	TrigTERMR = 1 << 11
)

// UsageDetail is a fully decoded usage-report IE.
type UsageDetail struct {
	UsageRep
	Start, End *time.Time
	Vol        *ie.VolumeMeasurementFields
	HasDur     bool
	Unknown    []uint16 // child IE types not understood by this decoder
	Dup        []uint16 // child IE types present more than once
}

// UsageDetails decodes every usage report of a carrier message.
func UsageDetails(m message.Message) []UsageDetail {
	var out []UsageDetail
	for _, u := range UsageReports(m) {
		d := UsageDetail{UsageRep: u}
		seen := map[uint16]bool{}
		for _, c := range children(u.IE) {
			if seen[c.Type] {
				d.Dup = append(d.Dup, c.Type)
			}
			seen[c.Type] = true
			switch c.Type {
			case ie.URRID, ie.URSEQN, ie.UsageReportTrigger:
			case ie.StartTime:
				if t, err := c.StartTime(); err == nil {
					d.Start = &t
				}
			case ie.EndTime:
				if t, err := c.EndTime(); err == nil {
					d.End = &t
				}
			case ie.VolumeMeasurement:
				if v, err := c.VolumeMeasurement(); err == nil {
					d.Vol = v
				}
			case ie.DurationMeasurement:
				d.HasDur = true
			default:
				d.Unknown = append(d.Unknown, c.Type)
			}
		}
		out = append(out, d)
	}
	return out
}

// OffWire returns the IE as a receiver sees it: marshalled into a datagram-like buffer in which another IE's header
// (type 0xffff) follows, and parsed back.  go-pfcp does not copy IE values: payloads are sub-slices of that buffer, so a
// decoder reading past the end of a value finds the next IE's octets there, not zeroes.
func OffWire(i *ie.IE) *ie.IE {
	if i == nil {
		return nil
	}
	b, err := i.Marshal()
	if err != nil {
		panic("harness: " + err.Error())
	}
	buf := make([]byte, len(b)+8)
	copy(buf, b)
	for k := len(b); k < len(buf); k++ {
		buf[k] = 0xff
	}
	out, err := ie.Parse(buf[:len(b)])
	if err != nil {
		panic("harness: " + err.Error())
	}
	return out
}
