//go:build verif

package stack

import (
	"pgregory.net/rapid"
)

// GenCfg tunes the shared rule-op generator.
type GenCfg struct {
	PDRs, FARs, QERs, URRs, BARs int // size of the id pools (ids 1..n)
	MaxRules                     int
	WithQuery                    bool
	Verbs                        []string // allowed verbs, default all
}

func DefaultGen() GenCfg {
	return GenCfg{PDRs: 3, FARs: 3, QERs: 2, URRs: 3, BARs: 2, MaxRules: 8, WithQuery: true}
}

func subset(t *rapid.T, n int, label string) []uint32 {
	var out []uint32
	for i := 1; i <= n; i++ {
		if rapid.IntRange(0, 2).Draw(t, label) == 0 {
			out = append(out, uint32(i))
		}
	}
	return out
}

// ownID draws a rule's own id from its pool 1..n - or, now and then, 0: a rule id like any other (references to other
// rules keep to 1..n, where 0 stands for "none" in RuleOp).
func ownID(t *rapid.T, n int) uint32 {
	return uint32(rapid.SampledFrom(append([]int{0}, seq(n, 3)...)).Draw(t, "id"))
}

// seq returns 1..n, each k times.
func seq(n, k int) []int {
	var out []int
	for i := 1; i <= n; i++ {
		for j := 0; j < k; j++ {
			out = append(out, i)
		}
	}
	return out
}

// GenRule draws one rule op of the given verb set.
func (g GenCfg) GenRule(t *rapid.T, verbs []string) RuleOp {
	kind := rapid.SampledFrom([]string{"PDR", "PDR", "FAR", "QER", "URR", "URR", "BAR"}).Draw(t, "kind")
	verb := rapid.SampledFrom(verbs).Draw(t, "verb")
	if verb == "query" && kind != "URR" {
		kind = "URR"
	}
	r := RuleOp{Verb: verb, Kind: kind}
	switch kind {
	case "PDR":
		r.ID = ownID(t, g.PDRs)
		if verb != "remove" {
			r.Prec = uint32(rapid.IntRange(1, 255).Draw(t, "prec"))
			r.SrcIf = uint8(rapid.IntRange(0, 1).Draw(t, "srcif"))
			if rapid.Bool().Draw(t, "ueip") {
				r.UEIP = "10.60.0.1"
				r.UEForm = rapid.SampledFrom([]int{0, 0, 0, 0, 1, 2}).Draw(t, "ueform")
			}
			r.FAR = uint32(rapid.IntRange(0, g.FARs).Draw(t, "far"))
			r.QERs = subset(t, g.QERs, "qer")
			r.URRs = subset(t, g.URRs, "urr")
		}
	case "FAR":
		r.ID = ownID(t, g.FARs)
		if verb != "remove" {
			r.HasAction = true
			r.Action = rapid.SampledFrom([]uint16{1, 2, 4, 0xc}).Draw(t, "action")
			if rapid.Bool().Draw(t, "ohc") {
				r.OHC = &OHC{TEID: uint32(rapid.IntRange(1, 1000).Draw(t, "teid")), Peer: "127.0.0.10"}
			}
			r.BAR = uint8(rapid.IntRange(0, g.BARs).Draw(t, "bar"))
		}
	case "QER":
		r.ID = ownID(t, g.QERs)
		if verb != "remove" {
			r.QFI = uint8(rapid.IntRange(0, 63).Draw(t, "qfi"))
		}
	case "URR":
		r.ID = ownID(t, g.URRs)
		if verb == "create" || verb == "update" {
			r.Method = uint8(rapid.IntRange(0, 7).Draw(t, "method"))
			r.MNOP = rapid.Bool().Draw(t, "mnop")
			r.Trig = rapid.SampledFrom([]uint32{0x02, 0x0100, 0x0102}).Draw(t, "trig")
		}
	case "BAR":
		r.ID = ownID(t, g.BARs)
	}
	return r
}

// GenRules draws the rule ops of one session message.
func (g GenCfg) GenRules(t *rapid.T, est bool) []RuleOp {
	verbs := []string{"create", "create", "update", "remove"}
	if g.WithQuery {
		verbs = append(verbs, "query")
	}
	if est {
		verbs = []string{"create"}
	}
	n := rapid.IntRange(0, g.MaxRules).Draw(t, "nrules")
	var out []RuleOp
	bar := map[string]bool{}
	for i := 0; i < n; i++ {
		r := g.GenRule(t, verbs)
		if (r.Verb == "create" || r.Verb == "update") && rapid.IntRange(0, 2).Draw(t, "permute") == 0 {
			r.Perm = rapid.Uint32Range(1, 1<<32-1).Draw(t, "perm")
		}
		if r.Kind == "BAR" {
			// a session message carries at most one Create/Update/Remove BAR IE
			if bar[r.Verb] {
				continue
			}
			bar[r.Verb] = true
		}
		out = append(out, r)
	}
	return out
}
