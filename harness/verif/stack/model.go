//go:build verif

package stack

import (
	"fmt"
	"sort"
	"sync"
	"syscall"
	"time"

	"github.com/wmnsk/go-pfcp/ie"

	"github.com/free5gc/go-upf/internal/report"
)

// RuleKey addresses one rule of the model data plane.
type RuleKey struct {
	SEID uint64
	Kind string // PDR FAR QER URR BAR
	ID   uint32
}

func (k RuleKey) String() string { return fmt.Sprintf("%s[%#x:%d]", k.Kind, k.SEID, k.ID) }

// Call is one data-plane call seen by the model driver.
type Call struct {
	Op      string `json:"op"` // create update remove query
	Kind    string `json:"kind"`
	SEID    uint64 `json:"seid"`
	ID      uint32 `json:"id"`
	Err     string `json:"err,omitempty"`
	Faulted string `json:"faulted,omitempty"` // "", "before", "after"
	Idx     int    `json:"idx"`               // position among fault-eligible calls (-1 for removes)
}

// Fault says: the eligible call number Pos fails in the given mode.
type Fault struct {
	Pos  int    `json:"pos"`
	Mode string `json:"mode"` // before | after
}

// ModelDriver is an instrumented forwarder.Driver with kernel semantics:
// create of an existing id fails (EEXIST), update/remove/query of a missing
// id fails (ENOENT).
type ModelDriver struct {
	mu       sync.Mutex
	Rules    map[RuleKey][]byte // value: marshalled IE of the last create/update
	Calls    []Call
	eligible int
	Faults   map[int]string
	handler  report.Handler
	// ReportFor builds the usage report(s) a remove/query/update of a URR returns.
	ReportFor func(op string, seid uint64, urrid uint32) []report.USAReport
	volume    uint64
	// UpdateReports makes UpdateURR return a usage report, as gtp5g does when it restarts the measurement.
	UpdateReports bool
	// Refuse, when set, names rules whose creation the data plane turns down (as gtp5g does for content it cannot take):
	// the create call fails before anything is stored
	Refuse func(kind string, seid uint64, id uint32) bool
	// FailRemove, when set, names rules whose removal the data plane turns down (a transient error): the remove call fails
	// and the rule stays
	FailRemove func(kind string, seid uint64, id uint32) bool
	// Hook, when set, runs at the start of every call on the caller's (the event loop's) goroutine; it may block to keep the loop busy.
	Hook func(op, kind string, seid uint64, id uint32)
}

func NewModelDriver() *ModelDriver {
	return &ModelDriver{Rules: map[RuleKey][]byte{}, Faults: map[int]string{}}
}

func (d *ModelDriver) Close()                        {}
func (d *ModelDriver) HandleReport(h report.Handler) { d.handler = h }
func (d *ModelDriver) Handler() report.Handler       { return d.handler }
func (d *ModelDriver) SetFaults(fs []Fault) {
	d.mu.Lock()
	d.Faults = map[int]string{}
	for _, f := range fs {
		d.Faults[f.Pos] = f.Mode
	}
	d.mu.Unlock()
}

// TakeCalls returns and clears the calls recorded since the last take.
func (d *ModelDriver) TakeCalls() []Call {
	d.mu.Lock()
	defer d.mu.Unlock()
	c := d.Calls
	d.Calls = nil
	return c
}

// NCalls returns how many calls have been recorded since the last take.
func (d *ModelDriver) NCalls() int {
	d.mu.Lock()
	defer d.mu.Unlock()
	return len(d.Calls)
}

// Eligible returns how many fault-eligible calls have been seen so far.
func (d *ModelDriver) Eligible() int {
	d.mu.Lock()
	defer d.mu.Unlock()
	return d.eligible
}

// Snapshot copies the data plane.
func (d *ModelDriver) Snapshot() map[RuleKey]string {
	d.mu.Lock()
	defer d.mu.Unlock()
	out := make(map[RuleKey]string, len(d.Rules))
	for k, v := range d.Rules {
		out[k] = string(v)
	}
	return out
}

// Keys lists the rules present, sorted.
func (d *ModelDriver) Keys() []RuleKey {
	d.mu.Lock()
	defer d.mu.Unlock()
	var ks []RuleKey
	for k := range d.Rules {
		ks = append(ks, k)
	}
	sort.Slice(ks, func(i, j int) bool {
		a, b := ks[i], ks[j]
		if a.SEID != b.SEID {
			return a.SEID < b.SEID
		}
		if a.Kind != b.Kind {
			return a.Kind < b.Kind
		}
		return a.ID < b.ID
	})
	return ks
}

func ieBytes(i *ie.IE) []byte {
	if i == nil {
		return nil
	}
	b, err := i.Marshal()
	if err != nil {
		return []byte("unmarshalable")
	}
	return b
}

func (d *ModelDriver) do(op, kind string, seid uint64, id uint32, body *ie.IE) error {
	if h := d.Hook; h != nil {
		h(op, kind, seid, id)
	}
	d.mu.Lock()
	defer d.mu.Unlock()
	c := Call{Op: op, Kind: kind, SEID: seid, ID: id, Idx: -1}
	mode := ""
	if op != "remove" {
		c.Idx = d.eligible
		mode = d.Faults[d.eligible]
		d.eligible++
	}
	k := RuleKey{seid, kind, id}
	_, exists := d.Rules[k]
	var err error
	apply := func() {
		switch op {
		case "create":
			if exists {
				err = syscall.EEXIST
				return
			}
			d.Rules[k] = ieBytes(body)
		case "update":
			if !exists {
				err = syscall.ENOENT
				return
			}
			d.Rules[k] = ieBytes(body)
		case "remove":
			if !exists {
				err = syscall.ENOENT
				return
			}
			delete(d.Rules, k)
		case "query":
			if !exists {
				err = syscall.ENOENT
			}
		}
	}
	if op == "create" && mode == "" && d.Refuse != nil && d.Refuse(kind, seid, id) {
		mode = "refused"
	}
	if op == "remove" && exists && d.FailRemove != nil && d.FailRemove(kind, seid, id) {
		mode = "refused"
	}
	switch mode {
	case "refused":
		err = fmt.Errorf("refused by the data plane")
		c.Faulted = "refused"
	case "before":
		err = fmt.Errorf("injected fault (before apply)")
		c.Faulted = "before"
	case "after":
		apply()
		if err == nil {
			err = fmt.Errorf("injected fault (after apply)")
		}
		c.Faulted = "after"
	default:
		apply()
	}
	if err != nil {
		c.Err = err.Error()
	}
	d.Calls = append(d.Calls, c)
	return err
}

func (d *ModelDriver) reports(op string, seid uint64, urrid uint32) []report.USAReport {
	if d.ReportFor != nil {
		return d.ReportFor(op, seid, urrid)
	}
	d.mu.Lock()
	d.volume += 1000
	v := d.volume
	d.mu.Unlock()
	return []report.USAReport{{
		URRID:     urrid,
		StartTime: time.Unix(1700000000, 0),
		EndTime:   time.Unix(1700000100, 0),
		VolumMeasure: report.VolumeMeasure{
			TotalVolume: v, UplinkVolume: v / 2, DownlinkVolume: v - v/2,
			TotalPktNum: v / 100, UplinkPktNum: v / 200, DownlinkPktNum: v/100 - v/200,
		},
	}}
}

func pdrID(i *ie.IE) uint32 { v, _ := i.PDRID(); return uint32(v) }
func farID(i *ie.IE) uint32 { v, _ := i.FARID(); return v }
func qerID(i *ie.IE) uint32 { v, _ := i.QERID(); return v }
func urrID(i *ie.IE) uint32 { v, _ := i.URRID(); return v }
func barID(i *ie.IE) uint32 { v, _ := i.BARID(); return uint32(v) }

func (d *ModelDriver) CreatePDR(s uint64, i *ie.IE) error {
	return d.do("create", "PDR", s, pdrID(i), i)
}
func (d *ModelDriver) UpdatePDR(s uint64, i *ie.IE) error {
	return d.do("update", "PDR", s, pdrID(i), i)
}
func (d *ModelDriver) RemovePDR(s uint64, i *ie.IE) error {
	return d.do("remove", "PDR", s, pdrID(i), nil)
}
func (d *ModelDriver) CreateFAR(s uint64, i *ie.IE) error {
	return d.do("create", "FAR", s, farID(i), i)
}
func (d *ModelDriver) UpdateFAR(s uint64, i *ie.IE) error {
	return d.do("update", "FAR", s, farID(i), i)
}
func (d *ModelDriver) RemoveFAR(s uint64, i *ie.IE) error {
	return d.do("remove", "FAR", s, farID(i), nil)
}
func (d *ModelDriver) CreateQER(s uint64, i *ie.IE) error {
	return d.do("create", "QER", s, qerID(i), i)
}
func (d *ModelDriver) UpdateQER(s uint64, i *ie.IE) error {
	return d.do("update", "QER", s, qerID(i), i)
}
func (d *ModelDriver) RemoveQER(s uint64, i *ie.IE) error {
	return d.do("remove", "QER", s, qerID(i), nil)
}
func (d *ModelDriver) CreateBAR(s uint64, i *ie.IE) error {
	return d.do("create", "BAR", s, barID(i), i)
}
func (d *ModelDriver) UpdateBAR(s uint64, i *ie.IE) error {
	return d.do("update", "BAR", s, barID(i), i)
}
func (d *ModelDriver) RemoveBAR(s uint64, i *ie.IE) error {
	return d.do("remove", "BAR", s, barID(i), nil)
}
func (d *ModelDriver) CreateURR(s uint64, i *ie.IE) error {
	return d.do("create", "URR", s, urrID(i), i)
}

func (d *ModelDriver) UpdateURR(s uint64, i *ie.IE) ([]report.USAReport, error) {
	id := urrID(i)
	if err := d.do("update", "URR", s, id, i); err != nil {
		return nil, err
	}
	if d.UpdateReports {
		return d.reports("update", s, id), nil
	}
	return nil, nil
}

func (d *ModelDriver) RemoveURR(s uint64, i *ie.IE) ([]report.USAReport, error) {
	id := urrID(i)
	if err := d.do("remove", "URR", s, id, nil); err != nil {
		return nil, err
	}
	return d.reports("remove", s, id), nil
}

func (d *ModelDriver) QueryURR(s uint64, id uint32) ([]report.USAReport, error) {
	if err := d.do("query", "URR", s, id, nil); err != nil {
		return nil, err
	}
	return d.reports("query", s, id), nil
}
