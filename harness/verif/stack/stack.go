//go:build verif

// Package stack drives one real pfcp.PfcpServer through its real UDP socket:
// server life cycle, simulated peers, the heartbeat barrier, crash capture.
package stack

import (
	"fmt"
	"io"
	stdlog "log"
	"net"
	"os"
	"regexp"
	"runtime"
	"strconv"
	"strings"
	"sync"
	"sync/atomic"
	"syscall"
	"time"

	"github.com/sirupsen/logrus"
	"github.com/wmnsk/go-pfcp/ie"
	"github.com/wmnsk/go-pfcp/message"

	"github.com/free5gc/go-upf/internal/forwarder"
	"github.com/free5gc/go-upf/internal/logger"
	"github.com/free5gc/go-upf/internal/pfcp"
	"github.com/free5gc/go-upf/pkg/factory"
)

// ---------------------------------------------------------------- crash capture

type crashRec struct {
	mu    sync.Mutex
	fired int
	msgs  []string
}

var crash crashRec

type fatalHook struct{}

func (fatalHook) Levels() []logrus.Level { return []logrus.Level{logrus.FatalLevel, logrus.PanicLevel} }
func (fatalHook) Fire(e *logrus.Entry) error {
	crash.mu.Lock()
	crash.msgs = append(crash.msgs, e.Message)
	crash.mu.Unlock()
	return nil
}

var initOnce sync.Once

// InitProcess silences logging and installs the fatal-exit recorder.
func InitProcess() {
	initOnce.Do(func() {
		logger.Log.SetOutput(io.Discard)
		if os.Getenv("VERIF_UPF_LOG") != "" {
			logger.Log.SetOutput(os.Stderr)
			logger.Log.SetLevel(logrus.TraceLevel)
		} else {
			logger.Log.SetLevel(logrus.FatalLevel)
		}
		logger.Log.AddHook(fatalHook{})
		logger.Log.ExitFunc = func(int) {
			crash.mu.Lock()
			crash.fired++
			crash.mu.Unlock()
		}
		stdlog.SetOutput(io.Discard)
		logrus.SetOutput(io.Discard)
	})
}

// CrashInfo describes a fatal exit of the UPF observed during a case.
type CrashInfo struct {
	Key string // first frame inside go-upf / go-pfcp below the panic
	Msg string
}

var frameRe = regexp.MustCompile(`(?m)^(github\.com/(?:free5gc/go-upf|wmnsk/go-pfcp|free5gc/go-gtp5gnl|khirono/go-nl)[^\s(]*(?:\([^)]*\))?[^\s(]*)\(`)

func classify(msg string) string {
	// skip everything up to the panic() frame
	i := strings.Index(msg, "\npanic(")
	rest := msg
	if i >= 0 {
		rest = msg[i:]
	}
	for _, m := range frameRe.FindAllStringSubmatch(rest, -1) {
		fn := m[1]
		if strings.Contains(fn, ".main.func") || strings.Contains(fn, ".receiver.func") {
			continue // the deferred recover itself
		}
		return fn
	}
	first := strings.SplitN(msg, "\n", 2)[0]
	return first
}

func takeCrash() *CrashInfo {
	crash.mu.Lock()
	defer crash.mu.Unlock()
	if crash.fired == 0 {
		return nil
	}
	msg := ""
	if len(crash.msgs) > 0 {
		msg = crash.msgs[0]
	}
	crash.fired = 0
	crash.msgs = nil
	key := classify(msg)
	if len(msg) > 3000 {
		msg = msg[:3000]
	}
	return &CrashInfo{Key: "crash:" + key, Msg: msg}
}

// ---------------------------------------------------------------- sockets

// Sock is a harness UDP socket read without goroutines.
type Sock struct {
	Conn *net.UDPConn
	Addr *net.UDPAddr
	rc   syscall.RawConn
}

func newSock(ip string, port int) (*Sock, error) {
	a := &net.UDPAddr{IP: net.ParseIP(ip).To4(), Port: port}
	c, err := net.ListenUDP("udp4", a)
	if err != nil {
		return nil, err
	}
	rc, err := c.SyscallConn()
	if err != nil {
		c.Close()
		return nil, err
	}
	_ = rc.Control(func(fd uintptr) {
		// SO_RCVBUFFORCE (33) = 32 MiB
		_ = syscall.SetsockoptInt(int(fd), syscall.SOL_SOCKET, 33, 32<<20)
	})
	return &Sock{Conn: c, Addr: c.LocalAddr().(*net.UDPAddr), rc: rc}, nil
}

// Datagram is one received UDP payload.
type Datagram struct {
	From string
	B    []byte
}

// Drain returns everything queued on the socket without blocking.
func (s *Sock) Drain() []Datagram {
	var out []Datagram
	buf := make([]byte, 65536)
	for {
		var n int
		var from syscall.Sockaddr
		var err error
		_ = s.rc.Read(func(fd uintptr) bool {
			n, from, err = syscall.Recvfrom(int(fd), buf, syscall.MSG_DONTWAIT)
			return true
		})
		if err != nil {
			return out
		}
		d := Datagram{B: append([]byte(nil), buf[:n]...)}
		if sa, ok := from.(*syscall.SockaddrInet4); ok {
			d.From = fmt.Sprintf("%d.%d.%d.%d:%d", sa.Addr[0], sa.Addr[1], sa.Addr[2], sa.Addr[3], sa.Port)
		}
		out = append(out, d)
	}
}

// RecvTimeout blocks for one datagram.
func (s *Sock) RecvTimeout(d time.Duration) ([]byte, error) {
	buf := make([]byte, 65536)
	_ = s.Conn.SetReadDeadline(time.Now().Add(d))
	n, _, err := s.Conn.ReadFrom(buf)
	_ = s.Conn.SetReadDeadline(time.Time{})
	if err != nil {
		return nil, err
	}
	return buf[:n], nil
}

func (s *Sock) SendTo(b []byte, to *net.UDPAddr) error {
	_, err := s.Conn.WriteToUDP(b, to)
	return err
}

// ---------------------------------------------------------------- stack

type Opts struct {
	Net2       int           // second octet of the loopback subnet
	MaxRetrans uint8         // cfg.Pfcp.MaxRetrans
	Retrans    time.Duration // cfg.Pfcp.RetransTimeout (default 1h: no real timer fires)
	Driver     forwarder.Driver
	NoHandle   bool // do not call driver.HandleReport(server)
	Nodes      int  // number of SMF node sockets (default 3)
	Extra      int  // extra sockets per node on another port (default 1 on node 0)
	// NodeIDs overrides the Node ID a node names itself by (default: the address of its socket); the UPF sends its own
	// requests to port 8805 of the Node ID, so a node naming an address that cannot be reached never sees them
	NodeIDs map[int]string
	// NodeAddrs overrides the address a node's socket is bound to (default: 127.<net>.<2+i>); with "127.0.0.1" and the Node ID
	// "localhost" a node can name itself by a host name the UPF resolves
	NodeAddrs map[int]string
}

// Net is the per-process loopback subnet 127.<net2>.<net3>.x, reserved by
// holding a bound lock socket.
type Net struct {
	A, B int
	lock *net.UDPConn
}

var (
	procNet   *Net
	procNetMu sync.Mutex
)

// ReserveNet picks a free third octet under 127.<net2>.
func ReserveNet(net2 int) (*Net, error) {
	procNetMu.Lock()
	defer procNetMu.Unlock()
	if procNet != nil && procNet.A == net2 {
		return procNet, nil
	}
	start := os.Getpid() % 250
	for i := 0; i < 250; i++ {
		b := 1 + (start+i)%250
		c, err := net.ListenUDP("udp4", &net.UDPAddr{IP: net.IPv4(127, byte(net2), byte(b), 251), Port: 8805})
		if err != nil {
			continue
		}
		procNet = &Net{A: net2, B: b, lock: c}
		return procNet, nil
	}
	return nil, fmt.Errorf("no free loopback subnet under 127.%d", net2)
}

func (n *Net) IP(host int) string { return fmt.Sprintf("127.%d.%d.%d", n.A, n.B, host) }

type Stack struct {
	Opts   Opts
	Net    *Net
	Srv    *pfcp.PfcpServer
	Cfg    *factory.Config
	wg     sync.WaitGroup
	UPF    *net.UDPAddr
	Probe  *Sock
	Nodes  []*Sock // node i: 127.a.b.(2+i):8805
	Extras []*Sock // second source port on node 0's address
	hbSeq  uint32
	closed bool
	Dead   *CrashInfo
}

func Net2FromEnv(def int) int {
	if v, err := strconv.Atoi(os.Getenv("VERIF_NET2")); err == nil && v > 0 && v < 255 {
		return v
	}
	return def
}

var stackCount atomic.Int64

// New starts a fresh server and waits until it answers a heartbeat.
func New(o Opts) (*Stack, error) {
	InitProcess()
	if o.Nodes == 0 {
		o.Nodes = 3
	}
	if o.Retrans == 0 {
		o.Retrans = time.Hour
	}
	if o.Net2 == 0 {
		o.Net2 = Net2FromEnv(100)
	}
	n, err := ReserveNet(o.Net2)
	if err != nil {
		return nil, err
	}
	takeCrash()
	s := &Stack{Opts: o, Net: n}
	upfIP := n.IP(1)
	s.Cfg = &factory.Config{
		Version: "1.0.3",
		Pfcp:    &factory.Pfcp{Addr: upfIP, NodeID: upfIP, RetransTimeout: o.Retrans, MaxRetrans: o.MaxRetrans},
		Gtpu:    &factory.Gtpu{Forwarder: "gtp5g"},
		Logger:  &factory.Logger{Level: "fatal"},
	}
	s.UPF = &net.UDPAddr{IP: net.ParseIP(upfIP).To4(), Port: 8805}
	drv := o.Driver
	if drv == nil {
		drv = forwarder.Empty{}
	}
	fail := func(err error) (*Stack, error) {
		s.closeSocks()
		return nil, err
	}
	if s.Probe, err = newSock(n.IP(250), 0); err != nil {
		return fail(err)
	}
	for i := 0; i < o.Nodes; i++ {
		ip := n.IP(2 + i)
		if a, ok := o.NodeAddrs[i]; ok {
			ip = a
		}
		sk, err := newSock(ip, 8805)
		if err != nil {
			return fail(err)
		}
		s.Nodes = append(s.Nodes, sk)
	}
	extra := o.Extra
	if extra == 0 {
		extra = 1
	}
	for i := 0; i < extra; i++ {
		sk, err := newSock(n.IP(2), 9000+i)
		if err != nil {
			return fail(err)
		}
		s.Extras = append(s.Extras, sk)
	}
	s.Srv = pfcp.NewPfcpServer(s.Cfg, drv)
	if !o.NoHandle {
		drv.HandleReport(s.Srv)
	}
	s.Srv.Start(&s.wg)
	stackCount.Add(1)
	// readiness: repeat a heartbeat until the first answer
	deadline := time.Now().Add(10 * time.Second)
	for {
		if time.Now().After(deadline) {
			s.Close()
			return nil, fmt.Errorf("UPF did not come up on %s", s.UPF)
		}
		s.hbSeq++
		hb := message.NewHeartbeatRequest(0x800000|s.hbSeq&0x7fffff, ie.NewRecoveryTimeStamp(time.Unix(0, 0)), nil)
		b := make([]byte, hb.MarshalLen())
		_ = hb.MarshalTo(b)
		_ = s.Probe.SendTo(b, s.UPF)
		if _, err := s.Probe.RecvTimeout(2 * time.Millisecond); err == nil {
			break
		}
	}
	// discard answers to surplus readiness heartbeats
	time.Sleep(200 * time.Microsecond)
	s.Probe.Drain()
	return s, nil
}

func (s *Stack) closeSocks() {
	if s.Probe != nil {
		s.Probe.Conn.Close()
	}
	for _, k := range s.Nodes {
		k.Conn.Close()
	}
	for _, k := range s.Extras {
		k.Conn.Close()
	}
}

// ErrDead is returned by Barrier when the UPF exited.
type ErrDead struct{ Info *CrashInfo }

func (e *ErrDead) Error() string { return "UPF died: " + e.Info.Key }

// ErrStuck is returned when the barrier heartbeat stays unanswered although
// no fatal exit was observed.
type ErrStuck struct{ Waited time.Duration }

func (e *ErrStuck) Error() string { return fmt.Sprintf("no heartbeat answer within %v", e.Waited) }

// BarrierTimeout is how long a heartbeat may stay unanswered.
var BarrierTimeout = 20 * time.Second

// Barrier returns once every datagram, report and timeout event submitted
// before the call has been handled completely.
func (s *Stack) Barrier() error {
	if s.Dead != nil {
		return &ErrDead{s.Dead}
	}
	start := time.Now()
	for !s.Srv.VerifIdle() {
		if c := takeCrash(); c != nil {
			s.Dead = c
			return &ErrDead{c}
		}
		if time.Since(start) > BarrierTimeout {
			return &ErrStuck{time.Since(start)}
		}
		time.Sleep(20 * time.Microsecond)
	}
	// the probe heartbeat; sent again every 500 ms, because a burst the case itself has just sent can overflow the UPF's
	// socket buffer and take the probe with it (datagrams queued before it are still served first)
	sent := map[uint32]bool{}
	probe := func() error {
		s.hbSeq++
		seq := 0x800000 | s.hbSeq&0x7fffff
		sent[seq] = true
		hb := message.NewHeartbeatRequest(seq, ie.NewRecoveryTimeStamp(time.Unix(0, 0)), nil)
		b := make([]byte, hb.MarshalLen())
		_ = hb.MarshalTo(b)
		return s.Probe.SendTo(b, s.UPF)
	}
	if err := probe(); err != nil {
		return err
	}
	last := time.Now()
	for {
		left := BarrierTimeout - time.Since(start)
		step := 50 * time.Millisecond
		if left < step {
			step = left
		}
		if step <= 0 {
			if c := takeCrash(); c != nil {
				s.Dead = c
				return &ErrDead{c}
			}
			return &ErrStuck{time.Since(start)}
		}
		r, err := s.Probe.RecvTimeout(step)
		if err != nil {
			if c := takeCrash(); c != nil {
				s.Dead = c
				return &ErrDead{c}
			}
			if time.Since(last) > 500*time.Millisecond {
				last = time.Now()
				if err := probe(); err != nil {
					return err
				}
			}
			continue
		}
		m, perr := message.Parse(r)
		if perr != nil {
			continue
		}
		if m.MessageType() == message.MsgTypeHeartbeatResponse && sent[m.Sequence()] {
			// later probes of this barrier may still be answered: leave nothing behind for the next one
			if len(sent) > 1 {
				time.Sleep(2 * time.Millisecond)
				for {
					if _, err := s.Probe.RecvTimeout(time.Millisecond); err != nil {
						break
					}
				}
			}
			return nil
		}
	}
}

// Close stops the server and waits for its goroutines.
func (s *Stack) Close() error {
	if s.closed {
		return nil
	}
	s.closed = true
	s.Srv.Stop()
	done := make(chan struct{})
	go func() { s.wg.Wait(); close(done) }()
	var err error
	select {
	case <-done:
	case <-time.After(15 * time.Second):
		err = fmt.Errorf("server goroutines did not finish within 15s after Stop")
	}
	s.closeSocks()
	if c := takeCrash(); c != nil && s.Dead == nil {
		// a fatal exit during shutdown
		s.Dead = c
	}
	return err
}

// WaitGroup exposes the wait group the server (and a real driver) run under.
func (s *Stack) WaitGroup() *sync.WaitGroup { return &s.wg }

// Sock returns the socket for a peer reference: 0..Nodes-1 = node main
// sockets, 100+i = extra sockets, -1 = probe.
func (s *Stack) Sock(ref int) *Sock {
	switch {
	case ref == -1:
		return s.Probe
	case ref >= 100:
		return s.Extras[ref-100]
	default:
		return s.Nodes[ref]
	}
}

func (s *Stack) NodeID(i int) string {
	if id, ok := s.Opts.NodeIDs[i]; ok {
		return id
	}
	return s.Net.IP(2 + i)
}

// Send transmits raw bytes from a peer socket to the UPF.
func (s *Stack) Send(ref int, b []byte) error {
	return s.Sock(ref).SendTo(b, s.UPF)
}

// AllSocks lists every peer reference.
func (s *Stack) AllSocks() []int {
	var out []int
	for i := range s.Nodes {
		out = append(out, i)
	}
	for i := range s.Extras {
		out = append(out, 100+i)
	}
	return out
}

// Marshal serialises a PFCP message.
func Marshal(m message.Message) []byte {
	b := make([]byte, m.MarshalLen())
	if err := m.MarshalTo(b); err != nil {
		panic(err)
	}
	return b
}

// NewSock opens an additional harness socket (e.g. a simulated gNB).
func NewSock(ip string, port int) (*Sock, error) { return newSock(ip, port) }

// LoopState inspects a goroutine dump for the server's event loop: it returns
// the goroutine's scheduler state ("running", "chan send", "IO wait", ...)
// and the innermost go-upf / go-pfcp frame.  Used to tell a loop that is
// blocked or spinning inside the code under test from one that waits on the
// operating system.
func LoopState() (state, frame, dump string) {
	buf := make([]byte, 1<<22)
	n := runtime.Stack(buf, true)
	dump = string(buf[:n])
	for _, g := range strings.Split(dump, "\n\n") {
		if !strings.Contains(g, "pfcp.(*PfcpServer).main(") {
			continue
		}
		lines := strings.Split(g, "\n")
		if len(lines) == 0 {
			continue
		}
		// "goroutine 12 [chan send, 2 minutes]:"
		if i := strings.Index(lines[0], "["); i >= 0 {
			if j := strings.Index(lines[0][i:], "]"); j > 0 {
				state = strings.SplitN(lines[0][i+1:i+j], ",", 2)[0]
			}
		}
		for _, l := range lines[1:] {
			if strings.HasPrefix(l, "github.com/free5gc/go-upf/") || strings.HasPrefix(l, "github.com/wmnsk/go-pfcp/") ||
				strings.HasPrefix(l, "github.com/free5gc/go-gtp5gnl") || strings.HasPrefix(l, "github.com/khirono/") {
				if k := strings.LastIndex(l, "("); k > 0 {
					l = l[:k]
				}
				frame = l
				break
			}
		}
		return
	}
	return "gone", "", dump
}

// TakeCrash returns (and clears) a fatal exit recorded since the last call.
func TakeCrash() *CrashInfo { return takeCrash() }
