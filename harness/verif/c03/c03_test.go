//go:build verif

package c03

import (
	"fmt"
	"reflect"
	"syscall"
	"testing"
	"time"

	"github.com/wmnsk/go-pfcp/ie"
	"pgregory.net/rapid"

	"github.com/free5gc/go-gtp5gnl"
	"github.com/free5gc/go-upf/internal/report"
	"github.com/free5gc/go-upf/internal/verif/fullstack"
	"github.com/free5gc/go-upf/internal/verif/rulepath"
	"github.com/free5gc/go-upf/internal/verif/simkernel"
	"github.com/free5gc/go-upf/internal/verif/stack"
	"github.com/free5gc/go-upf/internal/verif/vcore"
)

func TestMain(m *testing.M) {
	vcore.Init("C03", "exploration",
		"Create/Update QER, URR and BAR drawn as semantic records - QER: id, gate octet, 40-bit MBR/GBR UL and DL (boundaries around 2^8, 2^32, 2^40-1, UL != DL), QFI 0..63, RQI, PPI, correlation id; "+
			"URR: id, measurement method / information octets, reporting triggers in 2- and 3-octet form over all bit patterns, measurement period, volume threshold and quota with every flag subset and 64-bit volumes; BAR: id, notification-delay octet, suggested packet count - "+
			"rendered with a drawn child order and passed to the real Gtp5g driver on a simulated netlink endpoint. Oracle: strict decode of the captured ADD request (widths, no surplus / duplicate attributes) compared field by field with the record "+
			"(bit rates: high32<<8|low8 per direction; trigger word = little-endian widening of the IE octets; BAR delay = the IE's octet), cross-checked with gtp5gnl.DecodeQER/DecodeURR/DecodeBAR; metamorphic over child order. "+
			"Periodic registration is observed black-box: after each URR create/update/remove the harness injects ticks for the IE's period and a neighbouring period and reads the (SEID, URR) set of the resulting GET_MULTI_REPORTS requests: present iff the URR's current trigger word has PERIO. "+
			"non-trivial = QER with UL != DL and a rate >= 2^32; URR with a non-empty threshold/quota flag subset and a 3-octet trigger; any periodic-registration check; distinct by record",
		"not asserted: the netlink value of the measurement-period attribute (unit marked TODO in the code; the statement does not list it) and the width of the measurement-information attribute",
		"real tickers never fire: periods are >= 600 s and cases last milliseconds",
		"volume threshold / quota IEs with an empty flag set carry no volume and are rejected by go-pfcp's decoder: not well-formed, not generated")
	vcore.Main(m)
}

// ---------------------------------------------------------------- records

type QER struct {
	Update bool       `json:"update"`
	SEID   uint64     `json:"seid"`
	ID     uint32     `json:"id"`
	Gate   *uint8     `json:"gate,omitempty"`
	MBR    *[2]uint64 `json:"mbr,omitempty"` // UL, DL
	GBR    *[2]uint64 `json:"gbr,omitempty"`
	QFI    *uint8     `json:"qfi,omitempty"`
	RQI    *uint8     `json:"rqi,omitempty"`
	PPI    *uint8     `json:"ppi,omitempty"`
	Corr   *uint32    `json:"corr,omitempty"`
	Order  []int      `json:"order"`
}

type Vol struct {
	Flags      uint8 `json:"flags"`
	To, Ul, Dl uint64
}

type URR struct {
	Lost   bool   `json:"lost,omitempty"` // remove: the data plane has lost the rule before (its removal fails with ENOENT)
	Verb   string `json:"verb"`           // create update remove
	SEID   uint64 `json:"seid"`
	ID     uint32 `json:"id"`
	Method *uint8 `json:"method,omitempty"`
	Info   *uint8 `json:"info,omitempty"`
	Trig   []byte `json:"trig,omitempty"`   // 2 or 3 octets
	Period uint32 `json:"period,omitempty"` // seconds, 0 = absent
	Thresh *Vol   `json:"thresh,omitempty"`
	Quota  *Vol   `json:"quota,omitempty"`
	Order  []int  `json:"order"`
}

type BAR struct {
	Update bool   `json:"update"`
	SEID   uint64 `json:"seid"`
	ID     uint8  `json:"id"`
	Delay  *uint8 `json:"delay,omitempty"`
	Count  *uint8 `json:"count,omitempty"`
	Order  []int  `json:"order"`
}

type Case struct {
	QER  *QER  `json:"qer,omitempty"`
	BAR  *BAR  `json:"bar,omitempty"`
	URRs []URR `json:"urrs,omitempty"` // a short history on one driver (registration is stateful)
}

func permute(ies []*ie.IE, seed []int) ([]*ie.IE, bool) {
	out := append([]*ie.IE(nil), ies...)
	ident := true
	for i := len(out) - 1; i > 0; i-- {
		j := i
		if len(seed) > 0 {
			j = seed[i%len(seed)] % (i + 1)
		}
		if i != j {
			ident = false
		}
		out[i], out[j] = out[j], out[i]
	}
	return out, ident
}

func (q *QER) IE(order []int) *ie.IE {
	cs := []*ie.IE{ie.NewQERID(q.ID)}
	if q.Gate != nil {
		cs = append(cs, ie.New(ie.GateStatus, []byte{*q.Gate}))
	}
	if q.MBR != nil {
		cs = append(cs, ie.NewMBR(q.MBR[0], q.MBR[1]))
	}
	if q.GBR != nil {
		cs = append(cs, ie.NewGBR(q.GBR[0], q.GBR[1]))
	}
	if q.QFI != nil {
		cs = append(cs, ie.NewQFI(*q.QFI))
	}
	if q.RQI != nil {
		cs = append(cs, ie.NewRQI(*q.RQI))
	}
	if q.PPI != nil {
		cs = append(cs, ie.NewPagingPolicyIndicator(*q.PPI))
	}
	if q.Corr != nil {
		cs = append(cs, ie.NewQERCorrelationID(*q.Corr))
	}
	cs, _ = permute(cs, order)
	if q.Update {
		return ie.NewUpdateQER(cs...)
	}
	return ie.NewCreateQER(cs...)
}

func (u *URR) IE(order []int) *ie.IE {
	if u.Verb == "remove" {
		return ie.NewRemoveURR(ie.NewURRID(u.ID))
	}
	cs := []*ie.IE{ie.NewURRID(u.ID)}
	if u.Method != nil {
		cs = append(cs, ie.New(ie.MeasurementMethod, []byte{*u.Method}))
	}
	if u.Info != nil {
		cs = append(cs, ie.NewMeasurementInformation(*u.Info))
	}
	if u.Trig != nil {
		cs = append(cs, ie.NewReportingTriggers(u.Trig...))
	}
	if u.Period != 0 {
		cs = append(cs, ie.NewMeasurementPeriod(time.Duration(u.Period)*time.Second))
	}
	if u.Thresh != nil {
		cs = append(cs, ie.NewVolumeThreshold(u.Thresh.Flags, u.Thresh.To, u.Thresh.Ul, u.Thresh.Dl))
	}
	if u.Quota != nil {
		cs = append(cs, ie.NewVolumeQuota(u.Quota.Flags, u.Quota.To, u.Quota.Ul, u.Quota.Dl))
	}
	cs, _ = permute(cs, order)
	if u.Verb == "update" {
		return ie.NewUpdateURR(cs...)
	}
	return ie.NewCreateURR(cs...)
}

func (b *BAR) IE(order []int) *ie.IE {
	cs := []*ie.IE{ie.NewBARID(b.ID)}
	if b.Delay != nil {
		cs = append(cs, ie.New(ie.DownlinkDataNotificationDelay, []byte{*b.Delay}))
	}
	if b.Count != nil {
		cs = append(cs, ie.NewSuggestedBufferingPacketsCount(*b.Count))
	}
	cs, _ = permute(cs, order)
	if b.Update {
		return ie.NewUpdateBARWithinSessionModificationRequest(cs...)
	}
	return ie.NewCreateBAR(cs...)
}

// ---------------------------------------------------------------- canonical form

type cRate struct{ UL, DL uint64 }
type cVol struct {
	Flags      uint8
	To, Ul, Dl *uint64
}

type canon struct {
	Cmd       int
	Create    bool
	Link      uint32
	SEID      uint64
	ID        uint64
	Gate      *uint8
	MBR       *cRate
	GBR       *cRate
	QFI       *uint8
	RQI       *uint8
	PPI       *uint8
	Corr      *uint32
	Method    *uint8
	Info      *uint64
	Trig      *uint32
	HasPeriod bool
	Thresh    *cVol
	Quota     *cVol
	Delay     *uint8
	Count     *uint16
}

type decErr struct{ msg string }

func (e decErr) Error() string { return e.msg }

func need(a simkernel.Attr, n int, what string) {
	if len(a.Value) != n {
		panic(decErr{fmt.Sprintf("attribute %s has %d value octets, want %d", what, len(a.Value), n)})
	}
}
func once(seen map[int]bool, t int, what string) {
	if seen[t] {
		panic(decErr{"duplicate attribute " + what})
	}
	seen[t] = true
}
func walk(b []byte, what string) []simkernel.Attr {
	as, err := simkernel.Walk(b)
	if err != nil {
		panic(decErr{what + ": " + err.Error()})
	}
	return as
}
func ptr[T any](v T) *T { return &v }

func decRate(b []byte, what string, hiUL, loUL, hiDL, loDL int) *cRate {
	seen := map[int]bool{}
	var hu, hd uint32
	var lu, ld uint8
	for _, x := range walk(b, what) {
		once(seen, x.Type, fmt.Sprintf("%s/%d", what, x.Type))
		switch x.Type {
		case hiUL:
			need(x, 4, what+"_UL_HIGH32")
			hu = x.U32()
		case loUL:
			need(x, 1, what+"_UL_LOW8")
			lu = x.U8()
		case hiDL:
			need(x, 4, what+"_DL_HIGH32")
			hd = x.U32()
		case loDL:
			need(x, 1, what+"_DL_LOW8")
			ld = x.U8()
		default:
			panic(decErr{fmt.Sprintf("unknown %s attribute %d", what, x.Type)})
		}
	}
	if len(seen) != 4 {
		panic(decErr{what + ": not all four parts present"})
	}
	return &cRate{UL: uint64(hu)<<8 | uint64(lu), DL: uint64(hd)<<8 | uint64(ld)}
}

func decVol(b []byte, what string, fl, to, ul, dl int) *cVol {
	v := &cVol{}
	seen := map[int]bool{}
	for _, x := range walk(b, what) {
		once(seen, x.Type, fmt.Sprintf("%s/%d", what, x.Type))
		switch x.Type {
		case fl:
			need(x, 1, what+"_FLAG")
			v.Flags = x.U8()
		case to:
			need(x, 8, what+"_TOVOL")
			v.To = ptr(x.U64())
		case ul:
			need(x, 8, what+"_UVOL")
			v.Ul = ptr(x.U64())
		case dl:
			need(x, 8, what+"_DVOL")
			v.Dl = ptr(x.U64())
		default:
			panic(decErr{fmt.Sprintf("unknown %s attribute %d", what, x.Type)})
		}
	}
	if !seen[fl] {
		panic(decErr{what + ": flag attribute missing"})
	}
	return v
}

func decode(r simkernel.Request) (c canon, err error) {
	defer func() {
		if p := recover(); p != nil {
			if de, ok := p.(decErr); ok {
				err = de
				return
			}
			panic(p)
		}
	}()
	c.Cmd = r.Cmd
	base := uint16(syscall.NLM_F_REQUEST | syscall.NLM_F_ACK)
	switch r.Flags {
	case base | syscall.NLM_F_EXCL:
		c.Create = true
	case base | syscall.NLM_F_REPLACE:
	default:
		panic(decErr{fmt.Sprintf("netlink flags %#x", r.Flags)})
	}
	seen := map[int]bool{}
	for _, a := range r.Attrs {
		if a.Type == gtp5gnl.LINK {
			once(seen, -1, "LINK")
			need(a, 4, "LINK")
			c.Link = a.U32()
			continue
		}
		once(seen, a.Type, fmt.Sprintf("top-level/%d", a.Type))
		switch r.Cmd {
		case gtp5gnl.CMD_ADD_QER:
			switch a.Type {
			case gtp5gnl.QER_ID:
				need(a, 4, "QER_ID")
				c.ID = uint64(a.U32())
			case gtp5gnl.QER_SEID:
				need(a, 8, "QER_SEID")
				c.SEID = a.U64()
			case gtp5gnl.QER_GATE:
				need(a, 1, "QER_GATE")
				c.Gate = ptr(a.U8())
			case gtp5gnl.QER_MBR:
				c.MBR = decRate(a.Value, "QER_MBR", gtp5gnl.QER_MBR_UL_HIGH32, gtp5gnl.QER_MBR_UL_LOW8, gtp5gnl.QER_MBR_DL_HIGH32, gtp5gnl.QER_MBR_DL_LOW8)
			case gtp5gnl.QER_GBR:
				c.GBR = decRate(a.Value, "QER_GBR", gtp5gnl.QER_GBR_UL_HIGH32, gtp5gnl.QER_GBR_UL_LOW8, gtp5gnl.QER_GBR_DL_HIGH32, gtp5gnl.QER_GBR_DL_LOW8)
			case gtp5gnl.QER_CORR_ID:
				need(a, 4, "QER_CORR_ID")
				c.Corr = ptr(a.U32())
			case gtp5gnl.QER_RQI:
				need(a, 1, "QER_RQI")
				c.RQI = ptr(a.U8())
			case gtp5gnl.QER_QFI:
				need(a, 1, "QER_QFI")
				c.QFI = ptr(a.U8())
			case gtp5gnl.QER_PPI:
				need(a, 1, "QER_PPI")
				c.PPI = ptr(a.U8())
			default:
				panic(decErr{fmt.Sprintf("unknown QER attribute %d", a.Type)})
			}
		case gtp5gnl.CMD_ADD_URR:
			switch a.Type {
			case gtp5gnl.URR_ID:
				need(a, 4, "URR_ID")
				c.ID = uint64(a.U32())
			case gtp5gnl.URR_SEID:
				need(a, 8, "URR_SEID")
				c.SEID = a.U64()
			case gtp5gnl.URR_MEASUREMENT_METHOD:
				need(a, 1, "URR_MEASUREMENT_METHOD")
				c.Method = ptr(a.U8())
			case gtp5gnl.URR_REPORTING_TRIGGER:
				need(a, 4, "URR_REPORTING_TRIGGER")
				c.Trig = ptr(a.U32())
			case gtp5gnl.URR_MEASUREMENT_PERIOD:
				c.HasPeriod = true // value not asserted
			case gtp5gnl.URR_MEASUREMENT_INFO:
				// width not asserted; value read as native-endian integer of the given width
				var v uint64
				for i := len(a.Value) - 1; i >= 0; i-- {
					v = v<<8 | uint64(a.Value[i])
				}
				c.Info = &v
			case gtp5gnl.URR_VOLUME_THRESHOLD:
				c.Thresh = decVol(a.Value, "URR_VOLUME_THRESHOLD", gtp5gnl.URR_VOLUME_THRESHOLD_FLAG, gtp5gnl.URR_VOLUME_THRESHOLD_TOVOL, gtp5gnl.URR_VOLUME_THRESHOLD_UVOL, gtp5gnl.URR_VOLUME_THRESHOLD_DVOL)
			case gtp5gnl.URR_VOLUME_QUOTA:
				c.Quota = decVol(a.Value, "URR_VOLUME_QUOTA", gtp5gnl.URR_VOLUME_QUOTA_FLAG, gtp5gnl.URR_VOLUME_QUOTA_TOVOL, gtp5gnl.URR_VOLUME_QUOTA_UVOL, gtp5gnl.URR_VOLUME_QUOTA_DVOL)
			default:
				panic(decErr{fmt.Sprintf("unknown URR attribute %d", a.Type)})
			}
		case gtp5gnl.CMD_ADD_BAR:
			switch a.Type {
			case gtp5gnl.BAR_ID:
				need(a, 1, "BAR_ID")
				c.ID = uint64(a.U8())
			case gtp5gnl.BAR_SEID:
				need(a, 8, "BAR_SEID")
				c.SEID = a.U64()
			case gtp5gnl.BAR_DOWNLINK_DATA_NOTIFICATION_DELAY:
				need(a, 1, "BAR_DOWNLINK_DATA_NOTIFICATION_DELAY")
				c.Delay = ptr(a.U8())
			case gtp5gnl.BAR_BUFFERING_PACKETS_COUNT:
				need(a, 2, "BAR_BUFFERING_PACKETS_COUNT")
				c.Count = ptr(a.U16())
			default:
				panic(decErr{fmt.Sprintf("unknown BAR attribute %d", a.Type)})
			}
		default:
			panic(decErr{fmt.Sprintf("unexpected command %d", r.Cmd)})
		}
	}
	return c, nil
}

func wantVol(v *Vol) *cVol {
	if v == nil {
		return nil
	}
	c := &cVol{Flags: v.Flags}
	if v.Flags&1 != 0 {
		c.To = ptr(v.To)
	}
	if v.Flags&2 != 0 {
		c.Ul = ptr(v.Ul)
	}
	if v.Flags&4 != 0 {
		c.Dl = ptr(v.Dl)
	}
	return c
}

func (q *QER) want() canon {
	c := canon{Cmd: gtp5gnl.CMD_ADD_QER, Create: !q.Update, Link: simkernel.LinkIdx, SEID: q.SEID, ID: uint64(q.ID),
		Gate: q.Gate, QFI: q.QFI, RQI: q.RQI, PPI: q.PPI, Corr: q.Corr}
	if q.MBR != nil {
		c.MBR = &cRate{q.MBR[0], q.MBR[1]}
	}
	if q.GBR != nil {
		c.GBR = &cRate{q.GBR[0], q.GBR[1]}
	}
	return c
}

func trigWord(b []byte) uint32 {
	var w uint32
	for i, o := range b {
		if i < 4 {
			w |= uint32(o) << (8 * i)
		}
	}
	return w
}

func (u *URR) want() canon {
	c := canon{Cmd: gtp5gnl.CMD_ADD_URR, Create: u.Verb == "create", Link: simkernel.LinkIdx, SEID: u.SEID, ID: uint64(u.ID), Method: u.Method}
	if u.Info != nil {
		c.Info = ptr(uint64(*u.Info))
	}
	if u.Trig != nil {
		c.Trig = ptr(trigWord(u.Trig))
	}
	c.HasPeriod = u.Period != 0
	c.Thresh = wantVol(u.Thresh)
	c.Quota = wantVol(u.Quota)
	return c
}

func (b *BAR) want() canon {
	c := canon{Cmd: gtp5gnl.CMD_ADD_BAR, Create: !b.Update, Link: simkernel.LinkIdx, SEID: b.SEID, ID: uint64(b.ID), Delay: b.Delay}
	if b.Count != nil {
		c.Count = ptr(uint16(*b.Count))
	}
	return c
}

func diffKey(got, want canon) string {
	gv, wv := reflect.ValueOf(got), reflect.ValueOf(want)
	for i := 0; i < gv.NumField(); i++ {
		if !reflect.DeepEqual(gv.Field(i).Interface(), wv.Field(i).Interface()) {
			return "field-" + gv.Type().Field(i).Name
		}
	}
	return "field"
}

// ---------------------------------------------------------------- run

type nopHandler struct{}

func (nopHandler) NotifySessReport(report.SessReport)      {}
func (nopHandler) PopBufPkt(uint64, uint16) ([]byte, bool) { return nil, false }

var drv *fullstack.Driver

func driver() *fullstack.Driver {
	if drv == nil {
		var err error
		drv, err = fullstack.NewDriver(fullstack.Opts{})
		if err != nil {
			panic(err)
		}
		drv.G.HandleReport(nopHandler{})
	}
	return drv
}

func theAdd(d *fullstack.Driver, cmd int) (simkernel.Request, *vcore.Violation) {
	var adds []simkernel.Request
	for _, r := range d.K.TakeLog() {
		if r.Conn == "ps" {
			continue
		}
		if r.Cmd == cmd {
			adds = append(adds, r)
		} else {
			return r, vcore.Violatef("unexpected-command", "request with command %d while translating a rule", r.Cmd)
		}
	}
	if len(adds) != 1 {
		return simkernel.Request{}, vcore.Violatef("request-count", "%d ADD requests, want 1", len(adds))
	}
	return adds[0], nil
}

func compare(req simkernel.Request, want canon) *vcore.Violation {
	got, err := decode(req)
	if err != nil {
		return vcore.Violatef("malformed-request", "netlink request does not decode strictly: %v", err)
	}
	if !reflect.DeepEqual(got, want) {
		return vcore.Violatef(diffKey(got, want), "rule handed to the data plane differs from the IE:\n got  %s\n want %s", vcore.JSON(got), vcore.JSON(want))
	}
	return nil
}

func rev(a []int) []int {
	out := make([]int, 0, len(a)+1)
	for i := len(a) - 1; i >= 0; i-- {
		out = append(out, a[i]+1)
	}
	return append(out, 3)
}

func checkQER(q *QER) *vcore.Violation {
	d := driver()
	for k, ord := range [][]int{q.Order, rev(q.Order)} {
		d.K.Reset()
		if q.Update {
			_ = d.G.UpdateQER(q.SEID, stack.OffWire(q.IE(ord)))
		} else {
			_ = d.G.CreateQER(q.SEID, stack.OffWire(q.IE(ord)))
		}
		req, v := theAdd(d, gtp5gnl.CMD_ADD_QER)
		if v != nil {
			return v
		}
		if v := compare(req, q.want()); v != nil {
			if k == 1 {
				v.Key = "order-dependence/" + v.Key
			}
			return v
		}
		lq, err := gtp5gnl.DecodeQER(req.Raw[20:])
		if err != nil {
			return vcore.Violatef("decodeqer", "%v", err)
		}
		if lq.ID != q.ID || lq.SEID == nil || *lq.SEID != q.SEID {
			return vcore.Violatef("oid", "DecodeQER id %d seid %v", lq.ID, lq.SEID)
		}
		if q.MBR != nil && (lq.MBR.UL_Kbps != q.MBR[0] || lq.MBR.DL_Kbps != q.MBR[1]) {
			return vcore.Violatef("mbr", "DecodeQER MBR %d/%d want %d/%d", lq.MBR.UL_Kbps, lq.MBR.DL_Kbps, q.MBR[0], q.MBR[1])
		}
		if q.GBR != nil && (lq.GBR.UL_Kbps != q.GBR[0] || lq.GBR.DL_Kbps != q.GBR[1]) {
			return vcore.Violatef("gbr", "DecodeQER GBR %d/%d want %d/%d", lq.GBR.UL_Kbps, lq.GBR.DL_Kbps, q.GBR[0], q.GBR[1])
		}
		if q.QFI != nil && lq.QFI != *q.QFI {
			return vcore.Violatef("qfi", "DecodeQER QFI %d want %d", lq.QFI, *q.QFI)
		}
	}
	return nil
}

func checkBAR(b *BAR) *vcore.Violation {
	d := driver()
	for k, ord := range [][]int{b.Order, rev(b.Order)} {
		d.K.Reset()
		if b.Update {
			_ = d.G.UpdateBAR(b.SEID, stack.OffWire(b.IE(ord)))
		} else {
			_ = d.G.CreateBAR(b.SEID, stack.OffWire(b.IE(ord)))
		}
		req, v := theAdd(d, gtp5gnl.CMD_ADD_BAR)
		if v != nil {
			return v
		}
		if v := compare(req, b.want()); v != nil {
			if k == 1 {
				v.Key = "order-dependence/" + v.Key
			}
			return v
		}
		lb, err := gtp5gnl.DecodeBAR(req.Raw[20:])
		if err != nil || lb.ID != b.ID {
			return vcore.Violatef("decodebar", "DecodeBAR: %v id %d", err, lb.ID)
		}
	}
	return nil
}

const sentinelSEID = 0xfeedfeedfeedfeed

// ticked injects a tick for period p and returns the (seid, urr) pairs queried.
func ticked(d *fullstack.Driver, p time.Duration) (map[[2]uint64]int, error) {
	ps := d.G.VerifPerio()
	d.K.TakeLog()
	ps.VerifTick(p)
	// barrier: a sentinel registration with its own period, then a tick for it;
	// the periodic server handles events in order, so once the sentinel's query
	// is seen every earlier event has been handled completely
	sp := 1000000 * time.Hour
	ps.AddPeriodReportTimer(sentinelSEID, 1, sp)
	ps.VerifTick(sp)
	out := map[[2]uint64]int{}
	deadline := time.Now().Add(15 * time.Second)
	var log []simkernel.Request
	for {
		log = append(log, d.K.TakeLog()...)
		done := false
		for _, r := range log {
			if r.Cmd != gtp5gnl.CMD_GET_MULTI_REPORTS {
				continue
			}
			for _, m := range simkernel.Find(r.Attrs, gtp5gnl.URR_MULTI_SEID_URRID) {
				sub, _ := simkernel.Walk(m.Value)
				sa, _ := simkernel.First(sub, gtp5gnl.URR_SEID)
				if len(sa.Value) == 8 && sa.U64() == sentinelSEID {
					done = true
				}
			}
		}
		if done {
			break
		}
		if time.Now().After(deadline) {
			return nil, fmt.Errorf("periodic server did not process the sentinel tick")
		}
		time.Sleep(50 * time.Microsecond)
	}
	ps.DelPeriodReportTimer(sentinelSEID, 1)
	for _, r := range log {
		if r.Cmd != gtp5gnl.CMD_GET_MULTI_REPORTS {
			continue
		}
		for _, m := range simkernel.Find(r.Attrs, gtp5gnl.URR_MULTI_SEID_URRID) {
			sub, _ := simkernel.Walk(m.Value)
			ida, ok1 := simkernel.First(sub, gtp5gnl.URR_ID)
			sa, ok2 := simkernel.First(sub, gtp5gnl.URR_SEID)
			if ok1 && ok2 && len(sa.Value) == 8 && len(ida.Value) == 4 && sa.U64() != sentinelSEID {
				out[[2]uint64{sa.U64(), uint64(ida.U32())}]++
			}
		}
	}
	return out, nil
}

type reg struct {
	perio  bool
	period uint32
	exists bool
	// registration as made at creation time; differs from the above once an
	// Update URR changed trigger or period
	cPerio   bool
	cPeriod  uint32
	byUpdate bool
}

// checkURRs runs a short URR history on a fresh kernel state and checks each
// translation plus the periodic registration after every step.
func checkURRs(us []URR) (v *vcore.Violation, perioChecks int) {
	// registration is stateful: every history gets its own driver and periodic server
	d, err := fullstack.NewDriver(fullstack.Opts{})
	if err != nil {
		panic("infrastructure: " + err.Error())
	}
	d.G.HandleReport(nopHandler{})
	defer func() {
		if cerr := d.Close(); cerr != nil && v == nil {
			v = vcore.Violatef("perio-close-hang", "%v", cerr)
		}
	}()
	state := map[[2]uint64]*reg{}
	for i := range us {
		u := &us[i]
		key := [2]uint64{u.SEID, uint64(u.ID)}
		d.K.TakeLog()
		switch u.Verb {
		case "create":
			_ = d.G.CreateURR(u.SEID, stack.OffWire(u.IE(u.Order)))
		case "update":
			_, _ = d.G.UpdateURR(u.SEID, stack.OffWire(u.IE(u.Order)))
		case "remove":
			if u.Lost {
				// the data plane no longer has the rule: its removal fails there - the URR is gone all the same, and with it
				// whatever was arranged for it on this side
				d.K.Forget(simkernel.RuleKey{Kind: "URR", SEID: u.SEID, ID: uint64(u.ID)})
			}
			_, _ = d.G.RemoveURR(u.SEID, u.IE(nil))
		}
		if u.Verb != "remove" {
			req, x := theAdd(d, gtp5gnl.CMD_ADD_URR)
			if x != nil {
				return x, perioChecks
			}
			if x := compare(req, u.want()); x != nil {
				x.Msg = fmt.Sprintf("step %d (%s URR): %s", i, u.Verb, x.Msg)
				return x, perioChecks
			}
			lu, err := gtp5gnl.DecodeURR(req.Raw[20:])
			if err != nil || lu.ID != u.ID || lu.SEID == nil || *lu.SEID != u.SEID {
				return vcore.Violatef("oid", "step %d: DecodeURR: %v id %d", i, err, lu.ID), perioChecks
			}
			if u.Trig != nil && lu.Trigger != trigWord(u.Trig) {
				return vcore.Violatef("trigger", "step %d: DecodeURR trigger %#x want %#x", i, lu.Trigger, trigWord(u.Trig)), perioChecks
			}
			// metamorphic rendering on a scratch id that is removed again - on the shared driver, not on this history's:
			// the scratch URR's registration and removal would otherwise stand between the history's own step and the
			// tick that observes it (it hid seed C03-o, whose stale query set any removal in the group refreshes)
			alt := *u
			alt.ID ^= 0x40000000
			sd := driver()
			sd.K.TakeLog()
			if u.Verb == "create" {
				_ = sd.G.CreateURR(alt.SEID, stack.OffWire(alt.IE(rev(u.Order))))
			} else {
				_ = sd.G.CreateURR(alt.SEID, stack.OffWire(ie.NewCreateURR(ie.NewURRID(alt.ID), ie.NewMeasurementMethod(0, 1, 0), ie.NewReportingTriggers(0x02, 0x00))))
				sd.K.TakeLog()
				_, _ = sd.G.UpdateURR(alt.SEID, stack.OffWire(alt.IE(rev(u.Order))))
			}
			req2, x := theAdd(sd, gtp5gnl.CMD_ADD_URR)
			if x != nil {
				return x, perioChecks
			}
			if x := compare(req2, alt.want()); x != nil {
				x.Key = "order-dependence/" + x.Key
				return x, perioChecks
			}
			_, _ = sd.G.RemoveURR(alt.SEID, ie.NewRemoveURR(ie.NewURRID(alt.ID)))
		}
		// model of the registration
		st := state[key]
		switch u.Verb {
		case "create":
			// a create of an existing URR fails in the kernel; the model follows the kernel's table
			if st == nil || !st.exists {
				w := trigWord(u.Trig)
				// creation fails without effect if PERIO is requested without a period
				if !(w&1 != 0 && u.Period == 0) {
					state[key] = &reg{exists: true, perio: w&1 != 0, period: u.Period, cPerio: w&1 != 0, cPeriod: u.Period}
				}
			}
		case "update":
			if st != nil && st.exists {
				if u.Trig != nil {
					st.perio = trigWord(u.Trig)&1 != 0
				}
				if u.Period != 0 {
					st.period = u.Period
				}
				if st.perio != st.cPerio || (st.perio && st.period != st.cPeriod) {
					st.byUpdate = true
				}
			}
		case "remove":
			delete(state, key)
		}
		// observe: tick for every period in play and one neighbour
		periods := map[uint32]bool{}
		for _, s := range state {
			if s.period != 0 {
				periods[s.period] = true
			}
		}
		if u.Period != 0 {
			periods[u.Period] = true
			periods[u.Period+1] = true
		}
		for p := range periods {
			got, err := ticked(d, time.Duration(p)*time.Second)
			if err != nil {
				panic("infrastructure: " + err.Error())
			}
			perioChecks++
			for k, s := range state {
				want := 0
				if s.exists && s.perio && s.period == p {
					want = 1
				}
				if got[k] != want {
					kk := "perio-registration-missing"
					if got[k] > want {
						kk = "perio-registration-surplus"
					}
					if s.byUpdate {
						// known finding: Gtp5g.UpdateURR never (un)registers periodic reporting.
						// Tolerated only if the registration is still exactly the one made at creation.
						asCreated := 0
						if s.cPerio && s.cPeriod == p {
							asCreated = 1
						}
						if got[k] == asCreated && vcore.IsKnown("perio-update-urr-not-applied") {
							s.perio, s.period, s.byUpdate = s.cPerio, s.cPeriod, false
							continue
						}
						kk = "perio-update-urr-not-applied"
					}
					return vcore.Violatef(kk, "step %d (%s URR %d of session %#x): a tick of period %ds queried it %d time(s), expected %d (trigger PERIO=%v, period=%ds)", i, u.Verb, k[1], k[0], p, got[k], want, s.perio, s.period), perioChecks
				}
			}
			for k, n := range got {
				if state[k] == nil && n > 0 {
					return vcore.Violatef("perio-registration-stale", "step %d: a tick of period %ds queried URR %d of session %#x which does not exist (any more)", i, p, k[1], k[0]), perioChecks
				}
			}
		}
	}
	return nil, perioChecks
}

// ---------------------------------------------------------------- generators

var u32gen = rapid.OneOf(rapid.Uint32(), rapid.SampledFrom([]uint32{0, 1, 255, 256, 65535, 65536, 1 << 24, 1<<31 - 1, 1 << 31, 1<<32 - 1}))
var u64gen = rapid.OneOf(rapid.Uint64(), rapid.SampledFrom([]uint64{0, 1, 255, 256, 65536, 1<<32 - 1, 1 << 32, 1<<40 - 1, 1 << 40, 1<<63 - 1, 1 << 63, 1<<64 - 1}))
var rate40 = rapid.OneOf(rapid.Uint64Range(0, 1<<40-1), rapid.SampledFrom([]uint64{0, 1, 255, 256, 257, 65535, 65536, 1<<32 - 1, 1 << 32, 1<<32 + 1, 1<<40 - 256, 1<<40 - 2, 1<<40 - 1}))

func genQER(t *rapid.T) *QER {
	q := &QER{Update: rapid.Bool().Draw(t, "update"), SEID: u64gen.Draw(t, "seid"), ID: u32gen.Draw(t, "id")}
	if rapid.Bool().Draw(t, "hasgate") {
		q.Gate = ptr(rapid.OneOf(rapid.Uint8Range(0, 15), rapid.Uint8()).Draw(t, "gate"))
	}
	if rapid.Bool().Draw(t, "hasmbr") {
		q.MBR = &[2]uint64{rate40.Draw(t, "mbrul"), rate40.Draw(t, "mbrdl")}
	}
	if rapid.Bool().Draw(t, "hasgbr") {
		q.GBR = &[2]uint64{rate40.Draw(t, "gbrul"), rate40.Draw(t, "gbrdl")}
	}
	if rapid.Bool().Draw(t, "hasqfi") {
		q.QFI = ptr(rapid.Uint8Range(0, 63).Draw(t, "qfi"))
	}
	if rapid.Bool().Draw(t, "hasrqi") {
		q.RQI = ptr(rapid.Uint8Range(0, 1).Draw(t, "rqi"))
	}
	if rapid.Bool().Draw(t, "hasppi") {
		q.PPI = ptr(rapid.Uint8Range(0, 7).Draw(t, "ppi"))
	}
	if rapid.Bool().Draw(t, "hascorr") {
		q.Corr = ptr(u32gen.Draw(t, "corr"))
	}
	q.Order = rapid.SliceOfN(rapid.IntRange(0, 20), 0, 6).Draw(t, "order")
	return q
}

func genVol(t *rapid.T, l string) *Vol {
	return &Vol{Flags: rapid.Uint8Range(1, 7).Draw(t, l+"flags"), To: u64gen.Draw(t, l+"to"), Ul: u64gen.Draw(t, l+"ul"), Dl: u64gen.Draw(t, l+"dl")}
}

func genURRs(t *rapid.T) []URR {
	n := rapid.IntRange(1, 5).Draw(t, "n")
	seids := []uint64{u64gen.Draw(t, "seid1"), u64gen.Draw(t, "seid2")}
	periods := []uint32{rapid.Uint32Range(600, 1<<32-2).Draw(t, "p1"), rapid.SampledFrom([]uint32{600, 3600, 86400, 1<<32 - 2}).Draw(t, "p2")}
	var out []URR
	exists := map[[2]uint64]bool{}
	for i := 0; i < n; i++ {
		u := URR{SEID: rapid.SampledFrom(seids).Draw(t, "seid"), ID: rapid.SampledFrom([]uint32{1, 2, 1<<31 - 1}).Draw(t, "id")}
		k := [2]uint64{u.SEID, uint64(u.ID)}
		if !exists[k] {
			u.Verb = "create"
		} else {
			// now and then a Create for a URR that is already there (the data plane refuses it and keeps the installed rule): its
			// periodic registration must stay what it was
			u.Verb = rapid.SampledFrom([]string{"update", "update", "update", "update", "remove", "remove", "create"}).Draw(t, "verb")
		}
		if u.Verb != "remove" {
			if u.Verb == "create" || rapid.Bool().Draw(t, "hasmethod") {
				u.Method = ptr(rapid.OneOf(rapid.Uint8Range(0, 7), rapid.Uint8()).Draw(t, "method"))
			}
			if rapid.Bool().Draw(t, "hasinfo") {
				u.Info = ptr(rapid.Uint8().Draw(t, "info"))
			}
			if u.Verb == "create" || rapid.Bool().Draw(t, "hastrig") {
				nt := rapid.IntRange(2, 3).Draw(t, "ntrig")
				u.Trig = rapid.SliceOfN(rapid.Byte(), nt, nt).Draw(t, "trig")
				// make PERIO (bit 1 of the first octet) a fair coin
				if rapid.Bool().Draw(t, "perio") {
					u.Trig[0] |= 1
				} else {
					u.Trig[0] &^= 1
				}
			}
			if (u.Trig != nil && u.Trig[0]&1 != 0 && u.Verb == "create") || rapid.Bool().Draw(t, "hasperiod") {
				u.Period = rapid.SampledFrom(periods).Draw(t, "period")
			}
			if rapid.Bool().Draw(t, "hasth") {
				u.Thresh = genVol(t, "th")
			}
			if rapid.Bool().Draw(t, "hasqu") {
				u.Quota = genVol(t, "qu")
			}
			u.Order = rapid.SliceOfN(rapid.IntRange(0, 20), 0, 6).Draw(t, "order")
		}
		if u.Verb == "create" {
			exists[k] = true
		}
		if u.Verb == "remove" {
			delete(exists, k)
			u.Lost = rapid.IntRange(0, 3).Draw(t, "lost") == 0
		}
		out = append(out, u)
	}
	return out
}

func genBAR(t *rapid.T) *BAR {
	b := &BAR{Update: rapid.Bool().Draw(t, "update"), SEID: u64gen.Draw(t, "seid"), ID: rapid.Uint8().Draw(t, "id")}
	if rapid.Bool().Draw(t, "hasdelay") {
		b.Delay = ptr(rapid.Uint8().Draw(t, "delay"))
	}
	if rapid.Bool().Draw(t, "hascount") {
		b.Count = ptr(rapid.Uint8().Draw(t, "count"))
	}
	b.Order = rapid.SliceOfN(rapid.IntRange(0, 20), 0, 4).Draw(t, "order")
	return b
}

func run(c Case) (*vcore.Violation, int) {
	vcore.Journal(c)
	switch {
	case c.QER != nil:
		return checkQER(c.QER), 0
	case c.BAR != nil:
		return checkBAR(c.BAR), 0
	default:
		return checkURRs(c.URRs)
	}
}

func account(c Case, perio int) {
	vcore.E.Eval()
	switch {
	case c.QER != nil:
		vcore.E.Class("qer")
		q := c.QER
		nt := false
		for _, r := range []*[2]uint64{q.MBR, q.GBR} {
			if r != nil && r[0] != r[1] && (r[0] >= 1<<32 || r[1] >= 1<<32) {
				nt = true
			}
		}
		if nt {
			vcore.E.NonTrivial(vcore.JSON(c))
			vcore.E.Sample("qer", c)
		}
	case c.BAR != nil:
		vcore.E.Class("bar")
		if c.BAR.Delay != nil && *c.BAR.Delay > 5 {
			vcore.E.NonTrivial(vcore.JSON(c))
			vcore.E.Sample("bar", c)
		}
	default:
		vcore.E.Class("urr_history")
		vcore.E.ClassN("perio_registration_checks", int64(perio))
		nt := perio > 0
		for _, u := range c.URRs {
			if len(u.Trig) == 3 && ((u.Thresh != nil && u.Thresh.Flags != 0) || (u.Quota != nil && u.Quota.Flags != 0)) {
				nt = true
			}
			if u.Verb == "update" && u.Trig != nil {
				vcore.E.Class("update_urr_with_triggers")
			}
		}
		if nt {
			vcore.E.NonTrivial(vcore.JSON(c))
			vcore.E.Sample("urr", c)
		}
	}
}

// runPath follows the IEs of generated session messages through the PFCP session layer down to the netlink requests
// (package rulepath): an IE of an accepted message must not be lost on the way.
func runPath(t vcore.Failer, c rulepath.Case) {
	v, st := rulepath.Run(c, map[string]bool{"QER": true, "URR": true, "BAR": true})
	vcore.E.Eval()
	vcore.E.Class("through_pfcp_layer")
	if st.Retried {
		vcore.E.Class("rule_path:create_retried_after_a_refusal_by_the_data_plane")
	}
	if st.Rejected {
		vcore.E.Exclude("message_with_a_duplicate_create_rejected_as_a_whole")
	}
	if st.SameNumber {
		vcore.E.Class("through_pfcp_layer:equal_ids_across_kinds")
		vcore.E.NonTrivial(vcore.JSON(c))
		vcore.E.Sample("through-pfcp-layer", rulepath.Brief(c))
	}
	vcore.Report(t, v, map[string]any{"path": c})
}

func TestC03(t *testing.T) {
	defer func() {
		if drv != nil {
			drv.Close()
		}
	}()
	files, explicit := vcore.ReplayFiles()
	for _, f := range files {
		var w struct {
			Case
			Path *rulepath.Case `json:"path"`
			Busy int            `json:"busy"`
		}
		if err := vcore.LoadReplayCase(f, &w); err != nil {
			t.Fatalf("replay %s: %v", f, err)
		}
		if w.Path != nil {
			vcore.E.Class("replayed")
			runPath(t, *w.Path)
			continue
		}
		if w.Busy > 0 {
			vcore.E.Class("replayed")
			vcore.E.Eval()
			vcore.Report(t, runBusy(w.Busy), map[string]any{"busy": w.Busy})
			continue
		}
		c := w.Case
		v, n := run(c)
		account(c, n)
		vcore.E.Class("replayed")
		vcore.Report(t, v, c)
	}
	if explicit {
		return
	}
	busyPart(t)
	vcore.Check(t, vcore.N(300, 3000), func(rt *rapid.T) {
		runPath(rt, rulepath.Gen(rt))
	})
	vcore.Check(t, vcore.N(3000, 100000), func(rt *rapid.T) {
		c := Case{QER: genQER(rt)}
		v, n := run(c)
		account(c, n)
		vcore.Report(rt, v, c)
	})
	vcore.Check(t, vcore.N(2000, 50000), func(rt *rapid.T) {
		c := Case{BAR: genBAR(rt)}
		v, n := run(c)
		account(c, n)
		vcore.Report(rt, v, c)
	})
	vcore.Check(t, vcore.N(1500, 30000), func(rt *rapid.T) {
		c := Case{URRs: genURRs(rt)}
		v, n := run(c)
		account(c, n)
		vcore.Report(rt, v, c)
	})
}
