//go:build verif

package c03

import (
	"fmt"
	"sync/atomic"
	"time"

	"github.com/wmnsk/go-pfcp/ie"

	"github.com/free5gc/go-gtp5gnl"
	"github.com/free5gc/go-upf/internal/verif/fullstack"
	"github.com/free5gc/go-upf/internal/verif/simkernel"
	"github.com/free5gc/go-upf/internal/verif/stack"
	"github.com/free5gc/go-upf/internal/verif/vcore"
)

// "A URR whose triggers include periodic reporting is in addition registered for periodic querying" - also when the
// periodic server is busy at the moment the URR is created (same scenario as C15's part (f)).

type bpair struct {
	seid uint64
	urr  uint32
}

// ---------------------------------------------------------------- registrations while the server is busy
//
// The periodic server is inside a tick's usage query (held by the simulated
// kernel) while the driver creates n periodic URRs - more than the server's
// event queue holds (512): the creations wait, none may be lost.  The next
// tick must query every one of them.

func runBusy(n int) *vcore.Violation {
	d, err := fullstack.NewDriver(fullstack.Opts{})
	if err != nil {
		panic(err)
	}
	d.G.HandleReport(nopHandler{})
	defer func() {
		d.K.PsHold.Store(false)
		d.Close()
	}()
	full := &fullstack.Full{D: d}
	const period = 3600
	mk := func(id uint32) *ie.IE {
		return stack.OffWire(stack.RuleOp{Verb: "create", Kind: "URR", ID: id, Method: 2, Trig: 0x03, Period: period}.IE())
	}
	if err := d.G.CreateURR(1, mk(1)); err != nil {
		return vcore.Violatef("harness", "first CreateURR: %v", err)
	}
	if err := full.PerioBarrier(); err != nil {
		return vcore.Violatef("perio-stuck", "%v", err)
	}
	d.K.PsHold.Store(true)
	d.G.VerifPerio().VerifTick(period * time.Second)
	for i := 0; i < 100000 && d.K.PsHeld.Load() == 0; i++ {
		time.Sleep(100 * time.Microsecond)
	}
	if d.K.PsHeld.Load() == 0 {
		return vcore.Violatef("harness", "the tick's query never reached the data plane")
	}
	have := map[bpair]bool{{1, 1}: true}
	done := make(chan error, 1)
	var created atomic.Int64
	go func() {
		for i := 0; i < n; i++ {
			seid, id := uint64(100+i/4), uint32(1+i%4)
			if err := d.G.CreateURR(seid, mk(id)); err != nil {
				done <- err
				return
			}
			created.Add(1)
		}
		done <- nil
	}()
	for i := 0; i < n; i++ {
		have[bpair{uint64(100 + i/4), uint32(1 + i%4)}] = true
	}
	// the creations either all get through (the queue took them) or wait for the server once its queue is full; only then
	// is the query let go (the harness owns this schedule: a fixed delay let the query return before the queue had filled
	// on a busy machine)
	finished := false
	for i, last, same := 0, int64(-1), 0; i < 3000 && !finished; i++ {
		select {
		case err := <-done:
			done <- err
			finished = true
			continue
		case <-time.After(10 * time.Millisecond):
		}
		if c := created.Load(); c == last && d.G.VerifPerio().VerifQueueLen() >= 512 {
			if same++; same >= 10 {
				break
			}
		} else {
			last, same = c, 0
		}
	}
	vcore.E.SetExtra(fmt.Sprintf("busy_%d_queue", n), fmt.Sprintf("event queue length %d when the held query was let go", d.G.VerifPerio().VerifQueueLen()))
	d.K.PsHold.Store(false)
	select {
	case err := <-done:
		if err != nil {
			return vcore.Violatef("harness", "CreateURR: %v", err)
		}
	case <-time.After(30 * time.Second):
		return vcore.Violatef("create-stuck", "%d periodic URRs created while the periodic server was inside a usage query: the creations did not finish within 30 s of the query's return", n)
	}
	if err := full.PerioBarrier(); err != nil {
		return vcore.Violatef("perio-stuck", "%v", err)
	}
	d.K.TakeLog()
	d.G.VerifPerio().VerifTick(period * time.Second)
	if err := full.PerioBarrier(); err != nil {
		return vcore.Violatef("perio-stuck", "%v", err)
	}
	got := map[bpair]int{}
	for _, r := range d.K.TakeLog() {
		if r.Cmd != gtp5gnl.CMD_GET_MULTI_REPORTS || r.Conn != "ps" {
			continue
		}
		for _, m := range simkernel.Find(r.Attrs, gtp5gnl.URR_MULTI_SEID_URRID) {
			sub, _ := simkernel.Walk(m.Value)
			ida, ok1 := simkernel.First(sub, gtp5gnl.URR_ID)
			sa, ok2 := simkernel.First(sub, gtp5gnl.URR_SEID)
			if ok1 && ok2 && len(sa.Value) == 8 && sa.U64() != fullstack.SentinelSEID {
				got[bpair{sa.U64(), ida.U32()}]++
			}
		}
	}
	missing := 0
	for p := range have {
		if got[p] != 1 {
			missing++
		}
	}
	if missing > 0 {
		return vcore.Violatef("query-missing", "%d periodic URRs were created while the periodic server was inside a usage query (its event queue holds 512): the next tick queried %d of the %d URRs that exist, %d are missing or queried twice", n, len(got), len(have), missing)
	}
	return nil
}

func busyPart(t vcore.Failer) {
	for _, n := range []int{100, 600} {
		vcore.E.Eval()
		vcore.E.Class("registrations_while_the_server_is_busy")
		vcore.E.NonTrivial(vcore.FP("busy", n))
		vcore.Report(t, runBusy(n), map[string]any{"busy": n})
	}
}
