//go:build verif

package sessmodel

import (
	"fmt"

	"pgregory.net/rapid"

	"github.com/free5gc/go-upf/internal/verif/stack"
)

type GenCfg struct {
	MaxOps   int
	Probes   bool // SEID-class probes (C04)
	SharedCP bool // peers choose equal CP SEIDs (unique per peer)
	Takeover bool // Modification carrying a Node ID (C05)
	Negative bool // missing Node ID / F-SEID, unknown nodes, unassociated sockets (C08)
	Reports  bool
	Weights  []string
	Rules    stack.GenCfg
}

var classes = []string{"zero", "released", "beyond1", "beyond1000", "max63m1", "pow63", "pow63p1", "max64", "random"}

// Gen draws a history.
func Gen(t *rapid.T, g GenCfg) []Op {
	n := rapid.IntRange(3, g.MaxOps).Draw(t, "len")
	ops := []Op{{Op: stack.Op{Kind: "assoc", Peer: 0, Node: 0, Sess: -1}}}
	associated := []int{0}
	if g.SharedCP && rapid.IntRange(0, 3).Draw(t, "two") != 0 {
		ops = append(ops, Op{Op: stack.Op{Kind: "assoc", Peer: 1, Node: 1, Sess: -1}})
		associated = append(associated, 1)
	}
	nsess := 0
	cpNext := map[int]uint64{}
	kinds := g.Weights
	if kinds == nil {
		kinds = []string{"assoc", "est", "est", "est", "mod", "mod", "mod", "del", "del", "hb"}
		if g.Probes {
			kinds = append(kinds, "probe", "probe", "probe", "probe")
		}
		if g.Reports {
			kinds = append(kinds, "report", "report", "dldr", "rsp0", "rsp")
		}
		if g.Takeover {
			kinds = append(kinds, "takeover")
		}
		if g.Negative {
			kinds = append(kinds, "neg", "neg", "dup")
		}
	}
	sessRef := func() int {
		return rapid.IntRange(0, nsess-1).Draw(t, "sess")
	}
	// scripted core (1 in 3): a SEID is released by one node, re-issued to another, then the
	// first node is hit by a bulk event - the shape in which stale ownership shows
	if rapid.IntRange(0, 2).Draw(t, "core") == 0 {
		a, b := 0, 1
		if rapid.Bool().Draw(t, "swap") {
			a, b = 1, 0
		}
		if !(g.SharedCP && len(associated) == 2) {
			ops = append(ops, Op{Op: stack.Op{Kind: "assoc", Peer: 1, Node: 1, Sess: -1}})
			associated = append(associated, 1)
		}
		cpNext[a]++
		ops = append(ops, Op{Op: stack.Op{Kind: "est", Peer: a, Node: a, Sess: -1, CP: 0x2000 + cpNext[a], Rules: g.Rules.GenRules(t, true)}})
		first := nsess
		nsess++
		switch rapid.SampledFrom([]string{"del", "rsp0", "rsp0"}).Draw(t, "release") {
		case "del":
			ops = append(ops, Op{Op: stack.Op{Kind: "del", Peer: a, Sess: first}})
		default:
			ops = append(ops, Op{Op: stack.Op{Kind: "report", Sess: first, URRs: []uint32{1}, Trig: 2}},
				Op{Op: stack.Op{Kind: "rsp", Peer: a, Sess: -1, SEID0: true}})
		}
		cpNext[b]++
		ops = append(ops, Op{Op: stack.Op{Kind: "est", Peer: b, Node: b, Sess: -1, CP: 0x3000 + cpNext[b], Rules: g.Rules.GenRules(t, true)}})
		second := nsess
		nsess++
		ops = append(ops, Op{Op: stack.Op{Kind: "assoc", Peer: a, Node: a, Sess: -1}},
			Op{Op: stack.Op{Kind: "mod", Peer: b, Sess: second}})
	}
	// second scripted core (1 in 5, with reports): one node has two sessions, both raise a downlink data notification, the SMF
	// answers the first one with SEID 0 (or normally) while the second is still unanswered - several of the UPF's own requests
	// outstanding at once, answered out of step
	if g.Reports && rapid.IntRange(0, 4).Draw(t, "core2") == 0 {
		a := 0
		var two []int
		for k := 0; k < 2; k++ {
			cpNext[a]++
			ops = append(ops, Op{Op: stack.Op{Kind: "est", Peer: a, Node: a, Sess: -1, CP: 0x4000 + cpNext[a], Rules: g.Rules.GenRules(t, true)}})
			two = append(two, nsess)
			nsess++
		}
		for _, sx := range two {
			ops = append(ops, Op{Op: stack.Op{Kind: "report", Sess: sx, DLDR: true, PDR: 1, Action: 0x0c, Payload: []byte("pkt-core2")}})
		}
		ops = append(ops, Op{Op: stack.Op{Kind: "rsp", Peer: a, Sess: -1, SEID0: rapid.IntRange(0, 3).Draw(t, "core2_seid0") != 0}},
			Op{Op: stack.Op{Kind: "mod", Peer: a, Sess: two[1]}}, Op{Op: stack.Op{Kind: "mod", Peer: a, Sess: two[0]}})
	}
	// third scripted core (1 in 4, with reports and equal CP SEIDs across peers): a report for one node's session is outstanding
	// and another node - which has a session with the same CP SEID - answers it, with the request's sequence number, SEID 0 or
	// not; then the node the report was sent to answers.  Only the latter answer is an answer.
	if g.Reports && g.SharedCP && rapid.IntRange(0, 3).Draw(t, "core3") == 0 {
		a, b := 0, 1
		if rapid.Bool().Draw(t, "swap3") {
			a, b = 1, 0
		}
		if len(associated) < 2 {
			ops = append(ops, Op{Op: stack.Op{Kind: "assoc", Peer: 1, Node: 1, Sess: -1}})
			associated = append(associated, 1)
		}
		var pair []int
		for _, nd := range []int{a, b} {
			for cpNext[nd] < max(cpNext[a], cpNext[b]) {
				cpNext[nd]++ // both nodes use the same number next
			}
		}
		for _, nd := range []int{a, b} {
			cpNext[nd]++
			ops = append(ops, Op{Op: stack.Op{Kind: "est", Peer: nd, Node: nd, Sess: -1, CP: 0x10 + cpNext[nd], Rules: g.Rules.GenRules(t, true)}})
			pair = append(pair, nsess)
			nsess++
		}
		ops = append(ops, Op{Op: stack.Op{Kind: "report", Sess: pair[0], URRs: []uint32{1}, Trig: 2}},
			Op{Op: stack.Op{Kind: "rsp", Peer: a, Sess: -1, SEID0: rapid.IntRange(0, 3).Draw(t, "core3_seid0") != 0, UseFrom: true, From: b, Dup: true}},
			Op{Op: stack.Op{Kind: "mod", Peer: b, Sess: pair[1]}}, Op{Op: stack.Op{Kind: "mod", Peer: a, Sess: pair[0]}},
			Op{Op: stack.Op{Kind: "rsp", Peer: a, Sess: -1, SEID0: rapid.IntRange(0, 3).Draw(t, "core3_seid0b") != 0}},
			Op{Op: stack.Op{Kind: "mod", Peer: b, Sess: pair[1]}}, Op{Op: stack.Op{Kind: "mod", Peer: a, Sess: pair[0]}})
	}
	for i := 0; i < n; i++ {
		switch rapid.SampledFrom(kinds).Draw(t, "op") {
		case "assoc":
			nd := rapid.IntRange(0, 2).Draw(t, "node")
			ops = append(ops, Op{Op: stack.Op{Kind: "assoc", Peer: nd, Node: nd, Sess: -1}})
			associated = append(associated, nd)
		case "est":
			nd := rapid.SampledFrom(associated).Draw(t, "node")
			var cp uint64
			if g.SharedCP {
				// unique per peer, deliberately equal across peers
				cpNext[nd]++
				cp = 0x10 + cpNext[nd]
			} else {
				cpNext[0]++
				cp = 0x1000 + cpNext[0]
			}
			ops = append(ops, Op{Op: stack.Op{Kind: "est", Peer: nd, Node: nd, Sess: -1, CP: cp, Rules: g.Rules.GenRules(t, true)}})
			nsess++
		case "mod":
			if nsess == 0 {
				continue
			}
			ops = append(ops, Op{Op: stack.Op{Kind: "mod", Peer: rapid.IntRange(0, 2).Draw(t, "peer"), Sess: sessRef(), Rules: g.Rules.GenRules(t, false)}})
		case "del":
			if nsess == 0 {
				continue
			}
			ops = append(ops, Op{Op: stack.Op{Kind: "del", Peer: rapid.IntRange(0, 2).Draw(t, "peer"), Sess: sessRef()}})
		case "hb":
			ops = append(ops, Op{Op: stack.Op{Kind: "hb", Peer: rapid.SampledFrom([]int{0, 1, 2, 100, 101}).Draw(t, "peer"), Sess: -1}})
		case "probe":
			cl := rapid.SampledFrom(classes).Draw(t, "class")
			kind := rapid.SampledFrom([]string{"mod", "mod", "del", "report"}).Draw(t, "pk")
			op := Op{Op: stack.Op{Kind: kind, Peer: rapid.IntRange(0, 2).Draw(t, "peer"), Sess: -1}, Target: cl, Rand: rapid.Uint64().Draw(t, "rand")}
			if kind == "mod" {
				op.Rules = g.Rules.GenRules(t, false)
			}
			if kind == "report" {
				op.URRs = []uint32{1}
				op.Trig = 2
				if rapid.Bool().Draw(t, "dldr") {
					op.DLDR, op.PDR, op.Action, op.Payload = true, 1, 0x0c, []byte("probe")
				}
			}
			ops = append(ops, op)
		case "report":
			if nsess == 0 {
				continue
			}
			ops = append(ops, Op{Op: stack.Op{Kind: "report", Sess: sessRef(), URRs: []uint32{uint32(rapid.IntRange(1, g.Rules.URRs).Draw(t, "urr"))}, Trig: 2}})
		case "dldr":
			if nsess == 0 {
				continue
			}
			act := rapid.SampledFrom([]uint16{0x04, 0x0c}).Draw(t, "act")
			ops = append(ops, Op{Op: stack.Op{Kind: "report", Sess: sessRef(), DLDR: true, PDR: uint16(rapid.IntRange(1, g.Rules.PDRs).Draw(t, "pdr")), Action: act,
				Payload: []byte(fmt.Sprintf("pkt-%d", i))}})
		case "rsp0", "rsp":
			sock := rapid.IntRange(0, 2).Draw(t, "sock")
			op := Op{Op: stack.Op{Kind: "rsp", Peer: sock, Sess: -1, SEID0: true}}
			if rapid.IntRange(0, 3).Draw(t, "normal") == 0 {
				op.SEID0 = false
			}
			if rapid.IntRange(0, 5).Draw(t, "wrongpeer") == 0 {
				op.UseFrom, op.From = true, rapid.SampledFrom([]int{0, 1, 2, 100}).Draw(t, "from")
			}
			ops = append(ops, op)
		case "takeover":
			if nsess == 0 {
				continue
			}
			ops = append(ops, Op{Op: stack.Op{Kind: "mod", Peer: rapid.IntRange(0, 2).Draw(t, "peer"), Sess: sessRef(), Takeover: true, Node: rapid.IntRange(0, 2).Draw(t, "newnode")}})
		case "dup":
			ops = append(ops, Op{Op: stack.Op{Kind: "dup", Peer: rapid.SampledFrom([]int{0, 1, 2, 100}).Draw(t, "peer"), Sess: -1}})
		case "neg":
			switch rapid.IntRange(0, 5).Draw(t, "negkind") {
			case 0:
				ops = append(ops, Op{Op: stack.Op{Kind: "est", Peer: 0, Node: 0, Sess: -1, CP: 0x999, NoNodeID: true, Rules: g.Rules.GenRules(t, true)}})
				nsess++
			case 1:
				ops = append(ops, Op{Op: stack.Op{Kind: "est", Peer: 0, Node: 0, Sess: -1, CP: 0x998, NoFSEID: true, Rules: g.Rules.GenRules(t, true)}})
				nsess++
			case 2:
				// a node id that may never have associated
				nd := rapid.IntRange(0, 2).Draw(t, "node")
				ops = append(ops, Op{Op: stack.Op{Kind: "est", Peer: rapid.SampledFrom([]int{0, 1, 2, 100, 101}).Draw(t, "peer"), Node: nd, Sess: -1, CP: 0x997, Rules: g.Rules.GenRules(t, true)}})
				nsess++
			case 3:
				ops = append(ops, Op{Op: stack.Op{Kind: "assoc", Peer: rapid.SampledFrom([]int{0, 1, 2, 100}).Draw(t, "peer"), Node: 0, Sess: -1, NoNodeID: true}})
			case 4:
				// request from a socket that never associated
				if nsess == 0 {
					continue
				}
				ops = append(ops, Op{Op: stack.Op{Kind: rapid.SampledFrom([]string{"mod", "del"}).Draw(t, "k"), Peer: rapid.SampledFrom([]int{100, 101}).Draw(t, "peer"), Sess: sessRef()}})
			case 5:
				ops = append(ops, Op{Op: stack.Op{Kind: rapid.SampledFrom([]string{"mod", "del"}).Draw(t, "k"), Peer: rapid.IntRange(0, 2).Draw(t, "peer"), Sess: -1}, Target: rapid.SampledFrom(classes).Draw(t, "class"), Rand: rapid.Uint64().Draw(t, "rand")})
			}
		}
	}
	return ops
}

// Brief renders a history for evidence samples.
func Brief(c Case) []string {
	var out []string
	for _, op := range c.Ops {
		x := op.Kind
		switch op.Kind {
		case "assoc":
			x += fmt.Sprintf("(node%d)", op.Node)
			if op.NoNodeID {
				x = "assoc(no-node-id)"
			}
		case "est":
			x += fmt.Sprintf("(node%d cp=%#x rules=%d)", op.Node, op.CP, len(op.Rules))
			if op.NoNodeID {
				x += "[no-node-id]"
			}
			if op.NoFSEID {
				x += "[no-fseid]"
			}
		case "mod", "del", "report":
			if op.Target != "" && op.Target != "sess" {
				x += "(seid:" + op.Target + ")"
			} else {
				x += fmt.Sprintf("(#%d)", op.Sess)
			}
			if op.Takeover {
				x += fmt.Sprintf("[takeover->node%d]", op.Node)
			}
			if op.DLDR {
				x += "[dldr]"
			}
			if len(op.Rules) > 0 {
				x += fmt.Sprintf("[%d rules]", len(op.Rules))
			}
		case "rsp":
			x += fmt.Sprintf("(sock%d seid0=%v)", op.Peer, op.SEID0)
		case "dup":
			x += fmt.Sprintf("(sock%d)", op.Peer)
		}
		out = append(out, x)
	}
	return out
}

// GenRefuse draws (in one case of four) one or two rules whose creation the data plane turns down.
func GenRefuse(t *rapid.T) []Refused {
	if rapid.IntRange(0, 3).Draw(t, "refuse") != 0 {
		return nil
	}
	var out []Refused
	n := rapid.IntRange(1, 2).Draw(t, "nrefuse")
	for i := 0; i < n; i++ {
		out = append(out, Refused{Kind: rapid.SampledFrom([]string{"FAR", "QER", "URR", "BAR"}).Draw(t, "rkind"), ID: uint32(rapid.IntRange(1, 3).Draw(t, "rid"))})
	}
	return out
}
