//go:build verif

// Package sessmodel is the reference model of go-upf's PFCP session handling
// used by the C04 (SEID space), C05 (isolation) and C08 (response
// correlation) checks: it executes a symbolic history against the real server
// with a model data plane and evaluates the oracles selected by the caller.
package sessmodel

import (
	"bytes"
	"fmt"
	"reflect"
	"sort"
	"time"

	"github.com/wmnsk/go-pfcp/ie"
	"github.com/wmnsk/go-pfcp/message"

	"github.com/free5gc/go-upf/internal/pfcp"
	"github.com/free5gc/go-upf/internal/verif/stack"
	"github.com/free5gc/go-upf/internal/verif/vcore"
)

// Op extends stack.Op with a symbolic SEID class resolved at run time.
type Op struct {
	stack.Op
	// Target selects the SEID of mod/del/report ops:
	//  "" or "sess": the session reference Sess;
	//  zero, released, beyond1, beyond1000, max63m1, pow63, pow63p1, max64, random
	Target string `json:"target,omitempty"`
	Rand   uint64 `json:"rand,omitempty"`
	// SleepMs: kind "sleep" lets wall-clock time pass (recovery time stamps have 1 s resolution)
	SleepMs int `json:"sleep_ms,omitempty"`
}

type Case struct {
	Ops []Op `json:"ops"`
	// Refuse: rules (kind, id) whose creation the data plane turns down in every session, e.g. a URR with the periodic
	// trigger but no measurement period.  The session layer keeps such an id; removing it later fails in the data plane.
	Refuse []Refused `json:"refuse,omitempty"`
}

type Refused struct {
	Kind string `json:"kind"` // FAR QER URR BAR
	ID   uint32 `json:"id"`
}

// Oracles selects which groups of assertions are evaluated.
type Oracles struct {
	SEID  bool // C04
	Frame bool // C05
	Resp  bool // C08
}

type rk struct {
	kind string
	id   uint32
}

type nodeObj struct {
	id   int // current node id index (after takeovers)
	sock int // socket that associated (its address is the peer address)
	sess map[uint64]bool
}

type msess struct {
	up, cp  uint64
	estNode int // node id it was established under
	obj     *nodeObj
	rules   map[rk]bool
	taken   bool // subject of (or moved by) a takeover
}

// Stats feed the non-triviality rules.
type Stats struct {
	Reissued          int
	Classes           map[string]bool
	SharedAtMsg       int // messages processed while >= 2 live sessions shared a rule id or CP SEID
	Unanswered        int
	ErrorAnswered     int
	ErrorAfterRefusal int // requests answered with an error cause after the data plane refused one of their rules (not asserted either way; must leave no trace)
	EqualCP           bool
	Ambiguous         int
	Takeovers         int
	Steps             int
	Ended             int
	Desync            bool
	Dups              int
}

var errDesync = &vcore.Violation{Key: "desync"}

type Result struct {
	V     *vcore.Violation
	Stats Stats
}

const causeAccepted = 1
const causeNotFound = 65

type exec struct {
	or       Oracles
	st       *stack.Stack
	d        *stack.ModelDriver
	r        *stack.Runner
	live     map[uint64]*msess
	released map[uint64]bool
	maxUP    uint64
	nodes    map[int]*nodeObj
	recovery []byte
	stats    *Stats
	last     map[int]*sentReq // per socket: the latest request and the datagram that answered it
}

type sentReq struct {
	req, rsp []byte
	step     int
	kind     string
}

func (e *exec) resolve(op *Op) (class string) {
	switch op.Target {
	case "", "sess":
		if op.Sess >= 0 {
			seid, ok := e.r.SEID(op.Op)
			if !ok {
				op.Sess, op.Raw = -1, e.maxUP+7
				return "unestablished"
			}
			op.Sess, op.Raw = -1, seid
			if e.live[seid] != nil {
				return "live"
			}
			return "released"
		}
		if e.live[op.Raw] != nil {
			return "live"
		}
		return "raw"
	case "zero":
		op.Raw = 0
	case "released":
		var rs []uint64
		for u := range e.released {
			if e.live[u] == nil {
				rs = append(rs, u)
			}
		}
		if len(rs) == 0 {
			op.Raw = e.maxUP + 1
			op.Sess = -1
			return "beyond1"
		}
		sort.Slice(rs, func(i, j int) bool { return rs[i] < rs[j] })
		op.Raw = rs[int(op.Rand%uint64(len(rs)))]
	case "beyond1":
		op.Raw = e.maxUP + 1
	case "beyond1000":
		op.Raw = e.maxUP + 1000
	case "max63m1":
		op.Raw = 1<<63 - 1
	case "pow63":
		op.Raw = 1 << 63
	case "pow63p1":
		op.Raw = 1<<63 + 1
	case "max64":
		op.Raw = 1<<64 - 1
	case "random":
		op.Raw = op.Rand
		if e.live[op.Raw] != nil {
			op.Sess = -1
			return "live"
		}
	default:
		panic("unknown target " + op.Target)
	}
	op.Sess = -1
	return op.Target
}

func sessOf(snap pfcp.VerifSnapshot, up uint64) (pfcp.VerifSess, bool) {
	s, ok := snap.Sess[up]
	return s, ok
}

func dpOf(dp map[stack.RuleKey]string, up uint64) map[stack.RuleKey]string {
	out := map[stack.RuleKey]string{}
	for k, v := range dp {
		if k.SEID == up {
			out[k] = v
		}
	}
	return out
}

func recoveryIE(m message.Message) []byte {
	var r *ie.IE
	switch v := m.(type) {
	case *message.HeartbeatResponse:
		r = v.RecoveryTimeStamp
	case *message.AssociationSetupResponse:
		r = v.RecoveryTimeStamp
	}
	if r == nil {
		return nil
	}
	b, _ := r.Marshal()
	return b
}

// Run executes the case.
func Run(c Case, or Oracles) (res Result) {
	d := stack.NewModelDriver()
	st, err := stack.New(stack.Opts{Driver: d, Extra: 2})
	if err != nil {
		panic(fmt.Sprintf("infrastructure: %v", err))
	}
	res.Stats.Classes = map[string]bool{}
	if len(c.Refuse) > 0 {
		d.Refuse = func(kind string, seid uint64, id uint32) bool {
			for _, r := range c.Refuse {
				if r.Kind == kind && r.ID == id {
					return true
				}
			}
			return false
		}
	}
	e := &exec{or: or, st: st, d: d, r: stack.NewRunner(st, d),
		live: map[uint64]*msess{}, released: map[uint64]bool{}, nodes: map[int]*nodeObj{}, stats: &res.Stats}
	defer func() {
		if cerr := st.Close(); cerr != nil && res.V == nil {
			res.V = vcore.Violatef("stop-hang", "%v", cerr)
		}
		if st.Dead != nil && res.V == nil {
			res.V = vcore.Violatef(st.Dead.Key, "UPF fatal exit: %.600s", st.Dead.Msg)
		}
	}()
	for i, op := range c.Ops {
		if v := e.step(i, op); v != nil {
			if v == errDesync {
				return
			}
			res.V = v
			return
		}
	}
	return
}

// dup sends the socket's latest request once more, byte for byte (the retention timers sit an hour ahead): the answer
// must be the datagram that answered the first copy - same sequence number, same SEID, same content - or none if none
// was produced, at that socket only, and nothing may change.
func (e *exec) dup(i int, op Op) *vcore.Violation {
	l := e.last[op.Peer]
	if l == nil {
		return nil
	}
	e.stats.Dups++
	snapBefore := e.st.Srv.VerifSnapshot()
	dpBefore := e.d.Snapshot()
	o := e.r.SendRaw(op.Peer, l.req)
	if o.Dead != nil {
		return vcore.Violatef(o.Dead.Key, "step %d (dup of step %d): UPF fatal exit: %.600s", i, l.step, o.Dead.Msg)
	}
	if o.Stuck {
		return vcore.Violatef("stuck", "step %d (dup): no heartbeat answer", i)
	}
	if !e.or.Resp {
		return nil
	}
	for sock, ds := range o.Rx {
		for _, dg := range ds {
			if sock != op.Peer {
				return vcore.Violatef("stray-datagram", "step %d: retransmitted %s request of step %d from socket %d caused a datagram at socket %d", i, l.kind, l.step, op.Peer, sock)
			}
			if l.rsp == nil {
				return vcore.Violatef("dup-answered", "step %d: retransmitted %s request of step %d had not been answered, its copy was: %x", i, l.kind, l.step, dg.B)
			}
			if !bytes.Equal(dg.B, l.rsp) {
				return vcore.Violatef("dup-answer-differs", "step %d: retransmitted %s request of step %d answered %x, the first copy was answered %x", i, l.kind, l.step, dg.B, l.rsp)
			}
		}
	}
	if len(o.Calls) > 0 {
		return vcore.Violatef("dup-executed", "step %d: retransmitted %s request of step %d caused data-plane calls %s", i, l.kind, l.step, vcore.JSON(o.Calls))
	}
	if !reflect.DeepEqual(snapBefore, e.st.Srv.VerifSnapshot()) || !reflect.DeepEqual(dpBefore, e.d.Snapshot()) {
		return vcore.Violatef("dup-executed", "step %d: retransmitted %s request of step %d changed session or data-plane state", i, l.kind, l.step)
	}
	return nil
}

func (e *exec) sharing() bool {
	ids := map[rk]int{}
	cps := map[uint64]int{}
	for _, s := range e.live {
		for k := range s.rules {
			ids[k]++
		}
		cps[s.cp]++
	}
	for _, n := range ids {
		if n >= 2 {
			return true
		}
	}
	for _, n := range cps {
		if n >= 2 {
			e.stats.EqualCP = true
			return true
		}
	}
	return false
}

func (e *exec) step(i int, op Op) *vcore.Violation {
	e.stats.Steps++
	if op.Kind == "sleep" {
		time.Sleep(time.Duration(op.SleepMs) * time.Millisecond)
		return nil
	}
	if op.Kind == "dup" {
		return e.dup(i, op)
	}
	class := ""
	switch op.Kind {
	case "mod", "del", "report":
		class = e.resolve(&op)
		e.stats.Classes[op.Kind+":"+class] = true
	}
	if len(e.live) >= 2 && e.sharing() {
		e.stats.SharedAtMsg++
	}
	// --- what may this op touch? (addressed set A)
	A := map[uint64]*msess{}
	var ambiguous map[uint64]*msess
	var mustEnd []uint64
	switch op.Kind {
	case "mod", "del", "report":
		if s := e.live[op.Raw]; s != nil {
			A[s.up] = s
			if op.Kind == "mod" && op.Takeover {
				// the node object is re-keyed: every session of it changes owner id
				for up := range s.obj.sess {
					A[up] = e.live[up]
				}
			}
		}
	case "assoc":
		if !op.NoNodeID {
			ambiguous = map[uint64]*msess{}
			for _, s := range e.live {
				mech := s.obj != nil && s.obj.id == op.Node && e.nodes[op.Node] == s.obj
				est := s.estNode == op.Node
				switch {
				case mech && est && !s.taken:
					A[s.up] = s
					mustEnd = append(mustEnd, s.up)
				case mech || est:
					A[s.up] = s
					ambiguous[s.up] = s
				}
			}
		}
	case "rsp":
		p := e.r.Pending[op.Peer]
		if op.Which < len(p) && op.SEID0 && op.SeqDelta == 0 {
			from := op.Peer
			if op.UseFrom {
				from = op.From
			}
			srr := p[op.Which]
			if from == srr.Sock {
				// candidates: live sessions with that CP SEID whose peer address is the answering socket
				var cands []*msess
				for _, s := range e.live {
					if s.cp == srr.SEID && s.obj != nil && s.obj.sock == from {
						cands = append(cands, s)
					}
				}
				sort.Slice(cands, func(a, b int) bool { return cands[a].up < cands[b].up })
				if len(cands) > 0 {
					// the table is searched in SEID order; with CP SEIDs unique per peer there is one candidate
					A[cands[0].up] = cands[0]
					if !cands[0].taken && len(cands) == 1 {
						mustEnd = append(mustEnd, cands[0].up)
					} else {
						ambiguous = map[uint64]*msess{}
						for _, c := range cands {
							A[c.up] = c
							ambiguous[c.up] = c
						}
					}
				}
			}
		}
	}
	snapBefore := e.st.Srv.VerifSnapshot()
	dpBefore := e.d.Snapshot()
	rxBefore := len(e.st.Srv.VerifRxTable())

	o := e.r.Step(op.Op)
	if o.Dead != nil {
		return vcore.Violatef(o.Dead.Key, "step %d (%s %s): UPF fatal exit: %.600s", i, op.Kind, class, o.Dead.Msg)
	}
	if o.Stuck {
		return vcore.Violatef("stuck", "step %d (%s): no heartbeat answer", i, op.Kind)
	}
	if o.Skipped != "" {
		return nil
	}
	snapAfter := e.st.Srv.VerifSnapshot()
	dpAfter := e.d.Snapshot()
	_ = rxBefore

	// --- responses: where did datagrams arrive?
	var rsp message.Message
	isReq := op.Kind == "hb" || op.Kind == "assoc" || op.Kind == "est" || op.Kind == "mod" || op.Kind == "del"
	for sock, msgs := range o.Msgs {
		for _, m := range msgs {
			if _, isSRR := m.(*message.SessionReportRequest); isSRR {
				continue
			}
			if isReq && sock == op.Peer && rsp == nil {
				rsp = m
				continue
			}
			if e.or.Resp {
				return vcore.Violatef("stray-datagram", "step %d (%s): unexpected %s at socket %d (request sent from socket %d)", i, op.Kind, m.MessageTypeName(), sock, op.Peer)
			}
		}
	}
	for sock, ds := range o.Rx {
		if len(ds) != len(o.Msgs[sock]) && e.or.Resp {
			return vcore.Violatef("undecodable-datagram", "step %d (%s): socket %d received a datagram go-pfcp cannot parse", i, op.Kind, sock)
		}
	}

	if isReq {
		l := &sentReq{req: o.Sent, step: i, kind: op.Kind}
		for _, dg := range o.Rx[op.Peer] {
			if m, err := message.Parse(dg.B); err == nil {
				if _, isSRR := m.(*message.SessionReportRequest); !isSRR && l.rsp == nil {
					l.rsp = dg.B
				}
			}
		}
		if e.last == nil {
			e.last = map[int]*sentReq{}
		}
		e.last[op.Peer] = l
	}

	// --- expected answer and effect
	expectAnswer := false
	var wantType uint8
	var wantSEID uint64
	var wantCause uint8
	ended := map[uint64]bool{}
	var created *msess
	rolledBack := false // an Establishment answered with an error cause after the data plane refused one of its rules
	switch op.Kind {
	case "hb":
		expectAnswer, wantType = true, message.MsgTypeHeartbeatResponse
	case "assoc":
		if !op.NoNodeID {
			expectAnswer, wantType, wantCause = true, message.MsgTypeAssociationSetupResponse, causeAccepted
		}
	case "est":
		_, nodeKnown := e.nodes[op.Node]
		if !op.NoNodeID && nodeKnown && !op.NoFSEID {
			expectAnswer, wantType, wantSEID, wantCause = true, message.MsgTypeSessionEstablishmentResponse, op.CP, causeAccepted
		}
	case "mod":
		expectAnswer, wantType = true, message.MsgTypeSessionModificationResponse
		if s := e.live[op.Raw]; s != nil {
			wantSEID, wantCause = s.cp, causeAccepted
		} else {
			wantSEID, wantCause = 0, causeNotFound
		}
	case "del":
		expectAnswer, wantType = true, message.MsgTypeSessionDeletionResponse
		if s := e.live[op.Raw]; s != nil {
			wantSEID, wantCause = s.cp, causeAccepted
		} else {
			wantSEID, wantCause = 0, causeNotFound
		}
	}
	if isReq {
		if rsp == nil {
			e.stats.Unanswered++
		} else if c := stack.Cause(rsp); c != 0 && c != causeAccepted {
			e.stats.ErrorAnswered++
		}
	}
	if isReq {
		if expectAnswer && rsp == nil {
			return vcore.Violatef("no-answer", "step %d (%s %s): request was not answered", i, op.Kind, class)
		}
		if !expectAnswer && rsp != nil {
			if e.or.Resp {
				return vcore.Violatef("unexpected-answer", "step %d (%s): request lacking a mandatory IE / unknown node was answered with %s", i, op.Kind, rsp.MessageTypeName())
			}
			// not this check's concern; the model cannot follow, end the case here
			e.stats.Desync = true
			return errDesync
		}
	}
	errorAfterRefusal := false
	if isReq && rsp != nil && wantCause == causeAccepted && stack.Cause(rsp) != causeAccepted && stack.Cause(rsp) != 0 && (op.Kind == "est" || op.Kind == "mod") {
		for _, cl := range o.Calls {
			if cl.Err != "" {
				errorAfterRefusal = true
			}
		}
		rolledBack = errorAfterRefusal && op.Kind == "est"
	}
	if isReq && (e.or.Resp || e.or.SEID) {
		if rsp != nil {
			if rsp.MessageType() != wantType {
				return vcore.Violatef("answer-type", "step %d (%s): answered with %s", i, op.Kind, rsp.MessageTypeName())
			}
			if rsp.Sequence() != o.SentSeq && e.or.Resp {
				return vcore.Violatef("answer-seq", "step %d (%s): response sequence %d, request %d", i, op.Kind, rsp.Sequence(), o.SentSeq)
			}
			if errorAfterRefusal {
				// the data plane refused one of the message's rules: answering with an error cause is as good as go-upf's
				// "accepted" - the request must then have left no trace, which the frame condition below looks at
				e.stats.ErrorAfterRefusal++
			} else if wantCause != 0 && stack.Cause(rsp) != wantCause {
				return vcore.Violatef("answer-cause", "step %d (%s %s seid=%#x): cause %d want %d", i, op.Kind, class, op.Raw, stack.Cause(rsp), wantCause)
			}
			switch op.Kind {
			case "est", "mod", "del":
				if rsp.SEID() != wantSEID {
					return vcore.Violatef("answer-seid", "step %d (%s %s): response header SEID %#x want %#x", i, op.Kind, class, rsp.SEID(), wantSEID)
				}
			}
		}
	}
	if rsp != nil && e.or.Resp {
		if b := recoveryIE(rsp); b != nil {
			if e.recovery == nil {
				e.recovery = b
			} else if !bytes.Equal(e.recovery, b) {
				return vcore.Violatef("recovery-ts", "step %d (%s): recovery time stamp %x differs from earlier %x", i, op.Kind, b, e.recovery)
			}
		} else if op.Kind == "hb" || op.Kind == "assoc" {
			return vcore.Violatef("recovery-missing", "step %d (%s): response carries no recovery time stamp", i, op.Kind)
		}
	}

	// --- state effects according to the model
	switch op.Kind {
	case "assoc":
		if rsp != nil {
			if e.or.Resp {
				ar := rsp.(*message.AssociationSetupResponse)
				if ar.NodeID == nil {
					return vcore.Violatef("assoc-nodeid", "step %d: Association Setup Response without Node ID", i)
				}
				if id, _ := ar.NodeID.NodeID(); id != e.st.Net.IP(1) {
					return vcore.Violatef("assoc-nodeid", "step %d: Association Setup Response Node ID %q want %q", i, id, e.st.Net.IP(1))
				}
			}
			// which sessions disappeared?  (observed; checked against must / may below)
			for up := range e.live {
				if _, still := snapAfter.Sess[up]; !still {
					ended[up] = true
				}
			}
			for _, up := range mustEnd {
				if !ended[up] && (e.or.Frame || e.or.SEID) {
					return vcore.Violatef("reassoc-survivor", "step %d: node %d re-associated but its session %#x survived", i, op.Node, up)
				}
			}
			for up := range ended {
				if _, ok := A[up]; !ok && (e.or.Frame || e.or.SEID) {
					return vcore.Violatef("reassoc-foreign", "step %d: re-association of node %d removed session %#x of another node", i, op.Node, up)
				}
				if _, amb := ambiguous[up]; amb {
					e.stats.Ambiguous++
				}
			}
			for up := range ambiguous {
				if !ended[up] {
					e.stats.Ambiguous++
				}
			}
			if old := e.nodes[op.Node]; old != nil {
				old.sess = map[uint64]bool{}
			}
			e.nodes[op.Node] = &nodeObj{id: op.Node, sock: op.Peer, sess: map[uint64]bool{}}
		}
	case "est":
		if rsp != nil && stack.Cause(rsp) == causeAccepted {
			er := rsp.(*message.SessionEstablishmentResponse)
			if er.UPFSEID == nil {
				return vcore.Violatef("est-no-fseid", "step %d: accepted Establishment Response without UP F-SEID", i)
			}
			f, ferr := er.UPFSEID.FSEID()
			if ferr != nil {
				return vcore.Violatef("est-no-fseid", "step %d: UP F-SEID undecodable: %v", i, ferr)
			}
			up := f.SEID
			if up == 0 {
				return vcore.Violatef("est-seid-zero", "step %d: UP SEID 0 issued", i)
			}
			if e.live[up] != nil {
				return vcore.Violatef("est-seid-live", "step %d: UP SEID %#x issued although a live session holds it", i, up)
			}
			if e.or.Resp {
				if er.NodeID == nil {
					return vcore.Violatef("est-nodeid", "step %d: Establishment Response without Node ID", i)
				}
				if id, _ := er.NodeID.NodeID(); id != e.st.Net.IP(1) {
					return vcore.Violatef("est-nodeid", "step %d: Establishment Response Node ID %q want %q", i, id, e.st.Net.IP(1))
				}
				if f.IPv4Address == nil || f.IPv4Address.String() != e.st.Net.IP(1) {
					return vcore.Violatef("est-fseid-addr", "step %d: UP F-SEID address %v want %s", i, f.IPv4Address, e.st.Net.IP(1))
				}
				// created PDR list: one per Create PDR carrying a UE IP address
				want := map[uint16]int{}
				for _, ru := range op.Rules {
					if ru.Kind == "PDR" && ru.Verb == "create" && ru.UEIP != "" {
						want[uint16(ru.ID)]++
					}
				}
				got := map[uint16]int{}
				for _, cp := range er.CreatedPDR {
					id, _ := cp.PDRID()
					got[id]++
				}
				if !reflect.DeepEqual(want, got) {
					return vcore.Violatef("est-created-pdr", "step %d: Created PDR ids %v want %v", i, got, want)
				}
			}
			if e.released[up] {
				e.stats.Reissued++
			}
			if up > e.maxUP {
				e.maxUP = up
			}
			obj := e.nodes[op.Node]
			created = &msess{up: up, cp: op.CP, estNode: op.Node, obj: obj, rules: map[rk]bool{}}
			obj.sess[up] = true
			e.live[up] = created
			A[up] = created
			for _, ru := range op.Rules {
				if ru.Verb == "create" {
					created.rules[rk{ru.Kind, ru.ID}] = true
				}
			}
			if e.or.SEID {
				// nothing of a previous owner may be visible under the re-issued SEID
				for k := range dpOf(dpAfter, up) {
					if !created.rules[rk{k.Kind, k.ID}] {
						return vcore.Violatef("reissue-leftover-dp", "step %d: SEID %#x (re)issued but the data plane holds %v not requested by this establishment", i, up, k)
					}
				}
				if vs, ok := sessOf(snapAfter, up); ok {
					if len(vs.Queues) != 0 {
						return vcore.Violatef("reissue-leftover-queue", "step %d: SEID %#x issued with non-empty packet queues", i, up)
					}
					for id, u := range vs.URRs {
						if u.SEQN != 0 {
							return vcore.Violatef("reissue-leftover-seqn", "step %d: SEID %#x issued with URR %d at sequence %d", i, up, id, u.SEQN)
						}
					}
					if vs.RemoteID != op.CP {
						return vcore.Violatef("est-cp", "step %d: new session records CP SEID %#x want %#x", i, vs.RemoteID, op.CP)
					}
				} else {
					return vcore.Violatef("est-not-in-table", "step %d: SEID %#x issued but no such session exists", i, up)
				}
			}
		}
	case "mod":
		if s := e.live[op.Raw]; s != nil && rsp != nil {
			for _, ru := range op.Rules {
				if ru.Verb == "create" {
					s.rules[rk{ru.Kind, ru.ID}] = true
				}
			}
			if op.Takeover {
				e.stats.Takeovers++
				obj := s.obj
				// mirrors UpdateNodeID: the map entry of the old id goes, whoever holds it
				delete(e.nodes, obj.id)
				if other := e.nodes[op.Node]; other != nil && other != obj {
					for up := range other.sess {
						if x := e.live[up]; x != nil {
							x.taken = true
						}
					}
				}
				obj.id = op.Node
				e.nodes[op.Node] = obj
				for up := range obj.sess {
					if x := e.live[up]; x != nil {
						x.taken = true
					}
				}
			}
		}
	case "del":
		if s := e.live[op.Raw]; s != nil && rsp != nil && stack.Cause(rsp) == causeAccepted {
			ended[s.up] = true
		}
	case "rsp":
		for up := range e.live {
			if _, still := snapAfter.Sess[up]; !still {
				ended[up] = true
			}
		}
		for _, up := range mustEnd {
			if !ended[up] && (e.or.Frame || e.or.SEID) {
				return vcore.Violatef("seid0-survivor", "step %d: report answered with SEID 0 by the owning peer but session %#x survived", i, up)
			}
		}
		for up := range ended {
			if _, ok := A[up]; !ok && (e.or.Frame || e.or.SEID) {
				return vcore.Violatef("seid0-foreign", "step %d: SEID-0 answer removed session %#x which does not match the answered report", i, up)
			}
		}
		if len(ended) > 1 && (e.or.Frame || e.or.SEID) {
			return vcore.Violatef("seid0-many", "step %d: SEID-0 answer removed %d sessions", i, len(ended))
		}
	}

	// --- calls: tagged with the addressed session's own SEID
	if rolledBack {
		// an Establishment given up after the data plane refused a rule: what was installed had to be taken out again; all of it
		// under one SEID that no live session holds (that nothing stays behind is the frame condition's business)
		var tmp uint64
		for _, cl := range o.Calls {
			if tmp == 0 {
				tmp = cl.SEID
			}
			if cl.SEID != tmp || e.live[cl.SEID] != nil {
				return vcore.Violatef("call-foreign-seid", "step %d (est, given up): data-plane call %s carries the SEID of a live session or differs from the other calls of the request (%#x)", i, vcore.JSON(cl), tmp)
			}
		}
	}
	for _, cl := range o.Calls {
		if rolledBack {
			break
		}
		if _, ok := A[cl.SEID]; !ok {
			if e.or.Frame || e.or.SEID {
				return vcore.Violatef("call-foreign-seid", "step %d (%s %s seid=%#x): data-plane call %s carries a SEID the message does not address", i, op.Kind, class, op.Raw, vcore.JSON(cl))
			}
		}
		if (op.Kind == "mod" || op.Kind == "del" || op.Kind == "est") && !op.Takeover {
			// session-level message: exactly the addressed session
			want := op.Raw
			if created != nil {
				want = created.up
			}
			if cl.SEID != want && (e.or.Frame || e.or.SEID) {
				return vcore.Violatef("call-wrong-seid", "step %d (%s): data-plane call %s but the message addresses %#x", i, op.Kind, vcore.JSON(cl), want)
			}
		}
		if cl.Op == "remove" && cl.Err == "" {
			if s := e.live[cl.SEID]; s != nil {
				delete(s.rules, rk{cl.Kind, cl.ID})
			}
		}
	}
	if len(A) == 0 && len(o.Calls) > 0 && (e.or.SEID || e.or.Resp) && !rolledBack {
		return vcore.Violatef("calls-without-target", "step %d (%s %s seid=%#x): not addressed to a live session but caused data-plane calls %s", i, op.Kind, class, op.Raw, vcore.JSON(o.Calls))
	}

	// --- frame condition: everything not addressed is unchanged
	if e.or.Frame || e.or.SEID || e.or.Resp {
		noTrace := isReq && (rsp == nil || (stack.Cause(rsp) != causeAccepted && stack.Cause(rsp) != 0))
		if op.Kind == "report" && e.live[op.Raw] == nil {
			noTrace = true
		}
		for up, before := range snapBefore.Sess {
			if _, addressed := A[up]; addressed && !noTrace {
				continue
			}
			after, ok := snapAfter.Sess[up]
			if !ok {
				return vcore.Violatef("frame-session-gone", "step %d (%s %s seid=%#x): session %#x, not addressed by this message, disappeared", i, op.Kind, class, op.Raw, up)
			}
			if !reflect.DeepEqual(before, after) {
				return vcore.Violatef("frame-session-changed", "step %d (%s %s seid=%#x): session %#x, not addressed by this message, changed: %s -> %s", i, op.Kind, class, op.Raw, up, vcore.JSON(before), vcore.JSON(after))
			}
			if !reflect.DeepEqual(dpOf(dpBefore, up), dpOf(dpAfter, up)) {
				return vcore.Violatef("frame-dp-changed", "step %d (%s %s seid=%#x): data plane of session %#x, not addressed by this message, changed", i, op.Kind, class, op.Raw, up)
			}
		}
		if noTrace {
			if !reflect.DeepEqual(snapBefore, snapAfter) {
				return vcore.Violatef("trace-after-error", "step %d (%s %s seid=%#x): request was rejected / not answered but server state changed: %s -> %s", i, op.Kind, class, op.Raw, vcore.JSON(snapBefore), vcore.JSON(snapAfter))
			}
			if !reflect.DeepEqual(dpBefore, dpAfter) {
				return vcore.Violatef("dp-trace-after-error", "step %d (%s %s seid=%#x): request was rejected / not answered but the data plane changed", i, op.Kind, class, op.Raw)
			}
			if op.Kind == "report" && len(o.SRRs) > 0 {
				return vcore.Violatef("report-for-dead-session", "step %d: report for SEID %#x (%s) produced a Session Report Request", i, op.Raw, class)
			}
		}
	}

	// --- a packet handed up for one PDR of a session adds one packet to that PDR's queue (or none: no such PDR, queue full)
	// and leaves what was held before, for this and every other PDR of the session, where it was
	if e.or.Frame && op.Kind == "report" && op.DLDR {
		if before, ok := snapBefore.Sess[op.Raw]; ok {
			if after, ok2 := snapAfter.Sess[op.Raw]; ok2 && len(ended) == 0 {
				for pdr, qa := range after.Queues {
					qb := before.Queues[pdr]
					grown := len(qa) - len(qb)
					samePrefix := len(qa) >= len(qb)
					for j := 0; samePrefix && j < len(qb); j++ {
						samePrefix = qa[j] == qb[j]
					}
					if pdr != op.PDR && (grown != 0 || !samePrefix) {
						return vcore.Violatef("queue-of-other-pdr", "step %d: a packet handed up for PDR %d of session %#x changed what is held for PDR %d: %d -> %d packets", i, op.PDR, op.Raw, pdr, len(qb), len(qa))
					}
					if pdr == op.PDR && (grown < 0 || grown > 1 || !samePrefix) {
						return vcore.Violatef("queue-foreign-packets", "step %d: one packet handed up for PDR %d of session %#x: its queue went from %d to %d packets (held before: %v, held now: %v)", i, op.PDR, op.Raw, len(qb), len(qa), qb, qa)
					}
				}
			}
		}
	}

	// --- ended sessions leave nothing behind
	for up := range ended {
		s := e.live[up]
		if s == nil {
			continue
		}
		e.stats.Ended++
		delete(e.live, up)
		e.released[up] = true
		if s.obj != nil {
			delete(s.obj.sess, up)
		}
		if len(dpOf(dpAfter, up)) > 0 && (e.or.SEID || e.or.Frame) {
			return vcore.Violatef("orphan-after-end", "step %d (%s): session %#x ended but the data plane still holds %v", i, op.Kind, up, dpOf(dpAfter, up))
		}
		if _, still := snapAfter.Sess[up]; still && e.or.SEID {
			return vcore.Violatef("ended-still-in-table", "step %d (%s): session %#x ended but is still in the session table", i, op.Kind, up)
		}
	}
	// the session table holds exactly the model's live sessions
	if e.or.SEID {
		for up := range snapAfter.Sess {
			if e.live[up] == nil {
				return vcore.Violatef("table-extra", "step %d (%s): session table holds %#x which the model considers released", i, op.Kind, up)
			}
		}
		for up := range e.live {
			if _, ok := snapAfter.Sess[up]; !ok {
				return vcore.Violatef("table-missing", "step %d (%s %s): live session %#x vanished from the session table", i, op.Kind, class, up)
			}
		}
	}
	// a session just established must be addressable by its UP F-SEID (C08)
	if created != nil && e.or.Resp {
		probe := Op{Op: stack.Op{Kind: "mod", Peer: op.Peer, Sess: -1, Raw: created.up}}
		o2 := e.r.Step(probe.Op)
		if o2.Dead != nil {
			return vcore.Violatef(o2.Dead.Key, "step %d: probe after establishment: UPF fatal exit", i)
		}
		ok := false
		for _, m := range o2.Msgs[op.Peer] {
			if mr, is := m.(*message.SessionModificationResponse); is && stack.Cause(mr) == causeAccepted && mr.SEID() == created.cp {
				ok = true
			}
		}
		if !ok {
			return vcore.Violatef("fseid-not-addressable", "step %d: the UP F-SEID %#x returned by the Establishment Response does not address the new session", i, created.up)
		}
	}
	return nil
}
