//go:build verif

package c12

import (
	"fmt"
	"sort"
	"sync"
	"testing"
	"time"

	"github.com/wmnsk/go-pfcp/ie"
	"github.com/wmnsk/go-pfcp/message"
	"pgregory.net/rapid"

	upfreport "github.com/free5gc/go-upf/internal/report"

	"github.com/free5gc/go-upf/internal/verif/stack"
	"github.com/free5gc/go-upf/internal/verif/vcore"
)

func TestMain(m *testing.M) {
	vcore.Init("C12", "exploration",
		"rapid single-session histories (<= 20 messages, then deletion) of Create/Update/Remove PDR with arbitrary URR lists over 4 URRs and 5 PDRs (ids 0-4), Create/Remove/Query URR; URRs shared by several PDRs; associations created at PDR creation and added or moved by Update PDR; Update PDRs the session cannot apply (PDR never created, removed earlier, or removed by the same message) next to IEs that cause reports; Create PDRs for PDRs that exist (refused by the data plane, the installed rule and its URR list stay). "+
			"Oracle: reference model = current URR list per PDR, reference count = number of PDRs whose list names the URR; expected usage-report multiset in the response to the very request: Remove URR -> one TERMR report; Remove PDR / Update PDR dropping the last reference -> one TERMR report for that URR; "+
			"Query URR -> one IMMER report (and not TERMR); Deletion -> one TERMR report per existing URR; nothing else, nothing twice - whatever cause the response carries. "+
			"non-trivial = the history contains an association added by Update PDR that is later dissolved, or a URR shared by >= 2 PDRs whose last reference disappears; distinct by history",
		"model data plane returns one usage report per query/remove of an existing URR",
		"not generated (ambiguous or protocol violations, counted as excluded): Update PDR without URR IEs on a PDR that has URRs; PDRs naming URRs that do not exist; touching the same URR by two report-causing PDR IEs in one message (a PDR IE and a Query URR IE may meet); re-creating a URR id while a PDR still names it")
	vcore.Main(m)
}

type Ev struct {
	Kind  string         `json:"kind"` // mod del
	Rules []stack.RuleOp `json:"rules,omitempty"`
	// FailRm: URR ids whose removal by this message the data plane turns down once (a transient error): the URR stays,
	// there is no final usage yet, and whatever ends the URR later returns it
	FailRm []uint32 `json:"fail_rm,omitempty"`
	// FailRmPDR: PDR ids whose removal by this message the data plane turns down once: the PDR stays, with its URR list
	FailRmPDR []uint32 `json:"fail_rm_pdr,omitempty"`
}

type Case struct {
	Est []stack.RuleOp `json:"est"`
	Evs []Ev           `json:"evs"`
	// Quiet lists URR ids for which the data plane answers a removal without a usage report
	// (the no-op driver never returns one): then there is no final usage to hand on.
	Quiet []uint32 `json:"quiet,omitempty"`
}

// perm draws an order for the child IEs of a Create / Update PDR (0 = as built: PDR ID first, URR IDs last).
func perm(t *rapid.T) uint32 {
	if rapid.IntRange(0, 2).Draw(t, "permute") != 0 {
		return 0
	}
	return rapid.Uint32Range(1, 1<<32-1).Draw(t, "perm")
}

type model struct {
	quiet map[uint32]bool
	urr   map[uint32]bool
	pdr   map[uint32]map[uint32]bool
	// via[pdr][urr] = "create" | "update": how the association came about
	via        map[uint32]map[uint32]string
	sharedOnce map[uint32]bool
	failPDR    map[uint32]bool // set by the caller for the next apply
}

func (m *model) refs(u uint32) int {
	n := 0
	for _, l := range m.pdr {
		if l[u] {
			n++
		}
	}
	return n
}

func setOf(ids []uint32) map[uint32]bool {
	s := map[uint32]bool{}
	for _, i := range ids {
		s[i] = true
	}
	return s
}

type stats struct {
	updAssocDissolved bool
	sharedLastGone    bool
	failedRemove      bool // a Remove URR the data plane turned down
	refusedCreate     bool // a Create PDR for a PDR the session has
	unknownUpdWithEnd bool // a message with an Update PDR the session cannot apply and a report due from another IE
	excluded          map[string]int
}

// apply computes the expected reports of one message and updates the model.
// Processing order of the UPF: create URR, create PDR, remove URR, remove PDR, update PDR, query URR.
func (m *model) apply(rules []stack.RuleOp, stt *stats, failRm ...uint32) (termr, immer map[uint32]int) {
	failing := setOf(failRm)
	failingPDR := m.failPDR
	m.failPDR = nil
	termr, immer = map[uint32]int{}, map[uint32]int{}
	detach := func(p, u uint32) {
		if !m.pdr[p][u] {
			return
		}
		before := m.refs(u)
		via := m.via[p][u]
		delete(m.pdr[p], u)
		delete(m.via[p], u)
		if !m.urr[u] {
			return
		}
		if via == "update" {
			stt.updAssocDissolved = true
		}
		if m.refs(u) == 0 {
			termr[u]++
			if before >= 2 || m.sharedOnce[u] {
				stt.sharedLastGone = true
			}
		}
	}
	_ = detach
	for _, ru := range rules {
		if ru.Kind == "URR" && ru.Verb == "create" {
			m.urr[ru.ID] = true
		}
	}
	for _, ru := range rules {
		if ru.Kind == "PDR" && ru.Verb == "create" {
			if _, exists := m.pdr[ru.ID]; exists {
				stt.refusedCreate = true
				continue // refused by the data plane: the installed PDR keeps its list
			}
			m.pdr[ru.ID] = setOf(ru.URRs)
			m.via[ru.ID] = map[uint32]string{}
			for _, u := range ru.URRs {
				m.via[ru.ID][u] = "create"
			}
		}
	}
	m.noteShared()
	for _, ru := range rules {
		if ru.Kind == "URR" && ru.Verb == "remove" && m.urr[ru.ID] {
			if failing[ru.ID] {
				stt.failedRemove = true
				continue // turned down by the data plane: the URR is still there
			}
			if !m.quiet[ru.ID] {
				termr[ru.ID]++
			}
			delete(m.urr, ru.ID)
		}
	}
	for _, ru := range rules {
		if ru.Kind == "PDR" && ru.Verb == "remove" {
			if failingPDR[ru.ID] {
				if _, ok := m.pdr[ru.ID]; ok {
					stt.failedRemove = true
					continue // turned down by the data plane: the PDR is still there and still names its URRs
				}
			}
			if l, ok := m.pdr[ru.ID]; ok {
				var us []uint32
				for u := range l {
					us = append(us, u)
				}
				for _, u := range us {
					detach(ru.ID, u)
				}
				delete(m.pdr, ru.ID)
				delete(m.via, ru.ID)
			}
		}
	}
	for _, ru := range rules {
		if ru.Kind == "PDR" && ru.Verb == "update" {
			if l, ok := m.pdr[ru.ID]; ok {
				nw := setOf(ru.URRs)
				var us []uint32
				for u := range l {
					if !nw[u] {
						us = append(us, u)
					}
				}
				// additions first: re-pointing within one update must not look like a last-reference loss of another PDR's URR
				for u := range nw {
					if !l[u] {
						l[u] = true
						m.via[ru.ID][u] = "update"
					}
				}
				for _, u := range us {
					detach(ru.ID, u)
				}
			}
		}
	}
	m.noteShared()
	for _, ru := range rules {
		if ru.Kind == "URR" && ru.Verb == "query" && m.urr[ru.ID] {
			immer[ru.ID]++
		}
	}
	return
}

func (m *model) noteShared() {
	for u := range m.urr {
		if m.refs(u) >= 2 {
			m.sharedOnce[u] = true
		}
	}
}

// sharedOnce: the URR was at some time referenced by >= 2 PDRs
func newModel() *model {
	return &model{quiet: map[uint32]bool{}, urr: map[uint32]bool{}, pdr: map[uint32]map[uint32]bool{}, via: map[uint32]map[uint32]string{}, sharedOnce: map[uint32]bool{}}
}

func gen(t *rapid.T) Case {
	var c Case
	for u := uint32(1); u <= 4; u++ {
		if rapid.IntRange(0, 4).Draw(t, "quiet") == 0 {
			c.Quiet = append(c.Quiet, u)
		}
	}
	urr := map[uint32]bool{}
	pdr := map[uint32]map[uint32]bool{}
	named := func(u uint32) bool {
		for _, l := range pdr {
			if l[u] {
				return true
			}
		}
		return false
	}
	pickURRs := func(atLeastOne bool) []uint32 {
		var out []uint32
		var have []uint32
		for u := uint32(1); u <= 4; u++ {
			if urr[u] {
				have = append(have, u)
			}
		}
		for _, u := range have {
			if rapid.IntRange(0, 2).Draw(t, "ref") != 0 {
				out = append(out, u)
			}
		}
		if atLeastOne && len(out) == 0 && len(have) > 0 {
			out = append(out, have[rapid.IntRange(0, len(have)-1).Draw(t, "one")])
		}
		return out
	}
	for u := uint32(1); u <= 4; u++ {
		if rapid.IntRange(0, 3).Draw(t, "urr") != 0 {
			urr[u] = true
			c.Est = append(c.Est, stack.RuleOp{Verb: "create", Kind: "URR", ID: u, Method: 2, Trig: 2})
		}
	}
	for p := uint32(0); p <= 4; p++ { // PDR ID 0 is a rule id like any other
		if rapid.Bool().Draw(t, "pdr") {
			l := pickURRs(false)
			pdr[p] = setOf(l)
			c.Est = append(c.Est, stack.RuleOp{Verb: "create", Kind: "PDR", ID: p, Prec: 1, URRs: l, Perm: perm(t)})
		}
	}
	n := rapid.IntRange(1, 20).Draw(t, "n")
	for i := 0; i < n; i++ {
		var rules []stack.RuleOp
		var failRm, failRmPDR []uint32
		urrOp := map[uint32]bool{}   // URRs named by a Create/Remove/Query URR IE of this message
		touched := map[uint32]bool{} // URRs that may get a report through this message (at most one cause each)
		touchedP := map[uint32]bool{}
		nr := rapid.IntRange(1, 4).Draw(t, "nrules")
		for j := 0; j < nr; j++ {
			switch rapid.SampledFrom([]string{"createurr", "createurr+pdr", "removeurr", "query", "queryremove", "createpdr", "removepdr", "updatepdr", "updatepdr", "updatepdr", "updatepdr-unknown", "createpdr-again", "query-detached", "query-detached"}).Draw(t, "rule") {
			case "createurr", "createurr+pdr":
				u := uint32(rapid.IntRange(1, 4).Draw(t, "urr"))
				if urr[u] || urrOp[u] || touched[u] {
					continue
				}
				if named(u) {
					vcore.E.Exclude("recreate_urr_while_a_pdr_still_names_it")
					continue
				}
				urr[u] = true
				urrOp[u] = true
				rules = append(rules, stack.RuleOp{Verb: "create", Kind: "URR", ID: u, Method: 2, Trig: 2})
			case "removeurr":
				u := uint32(rapid.IntRange(1, 4).Draw(t, "urr"))
				if !urr[u] || urrOp[u] || touched[u] {
					continue
				}
				urrOp[u], touched[u] = true, true
				rules = append(rules, stack.RuleOp{Verb: "remove", Kind: "URR", ID: u})
				if rapid.IntRange(0, 4).Draw(t, "fail_rm") == 0 {
					failRm = append(failRm, u) // the data plane turns the removal down: the URR stays
				} else {
					delete(urr, u)
				}
			case "query":
				u := uint32(rapid.IntRange(1, 4).Draw(t, "urr"))
				if !urr[u] || urrOp[u] || touched[u] {
					continue
				}
				urrOp[u], touched[u] = true, true
				rules = append(rules, stack.RuleOp{Verb: "query", Kind: "URR", ID: u})
			case "query-detached":
				// one message takes a URR's last PDR away and queries the URR: two reports are due for it, the termination report
				// with what was measured up to the detach and the immediate report of the query
				u := uint32(rapid.IntRange(1, 4).Draw(t, "urr"))
				if !urr[u] || urrOp[u] || !touched[u] {
					continue
				}
				urrOp[u] = true
				rules = append(rules, stack.RuleOp{Verb: "query", Kind: "URR", ID: u})
			case "queryremove":
				// one message queries a URR and removes it: the removal's termination report is due once (whether an
				// immediate report comes as well is not asserted)
				u := uint32(rapid.IntRange(1, 4).Draw(t, "urr"))
				if !urr[u] || urrOp[u] || touched[u] {
					continue
				}
				delete(urr, u)
				urrOp[u], touched[u] = true, true
				q, rm := stack.RuleOp{Verb: "query", Kind: "URR", ID: u}, stack.RuleOp{Verb: "remove", Kind: "URR", ID: u}
				if rapid.Bool().Draw(t, "queryfirst") {
					rules = append(rules, q, rm)
				} else {
					rules = append(rules, rm, q)
				}
			case "createpdr":
				p := uint32(rapid.IntRange(0, 4).Draw(t, "pdr"))
				if _, ok := pdr[p]; ok || touchedP[p] {
					continue
				}
				inMsg := false
				for _, ru := range rules {
					if ru.Kind == "PDR" && ru.ID == p {
						inMsg = true // an Update PDR of this message already names it as unknown
					}
				}
				if inMsg {
					continue
				}
				// may name URRs created by this very message (the UPF creates URRs before PDRs)
				l := pickURRs(false)
				okl := true
				for _, u := range l {
					if touched[u] {
						okl = false
					}
				}
				if !okl {
					continue
				}
				pdr[p] = setOf(l)
				touchedP[p] = true
				rules = append(rules, stack.RuleOp{Verb: "create", Kind: "PDR", ID: p, Prec: 1, URRs: l, Perm: perm(t)})
			case "removepdr":
				p := uint32(rapid.IntRange(0, 4).Draw(t, "pdr"))
				l, ok := pdr[p]
				if !ok || touchedP[p] {
					continue
				}
				okl := true
				for u := range l {
					if touched[u] {
						okl = false
					}
				}
				if !okl {
					vcore.E.Exclude("two_report_causes_for_one_urr_in_one_message")
					continue
				}
				for u := range l {
					touched[u] = true
				}
				touchedP[p] = true
				rules = append(rules, stack.RuleOp{Verb: "remove", Kind: "PDR", ID: p})
				if rapid.IntRange(0, 5).Draw(t, "fail_rm_pdr") == 0 {
					failRmPDR = append(failRmPDR, p) // the data plane turns the removal down: the PDR stays, nothing is due
					continue
				}
				delete(pdr, p)
				for u := uint32(1); u <= 4; u++ {
					// ... and asks for an immediate report of a URR the PDR measured into
					if l[u] && urr[u] && !urrOp[u] && rapid.IntRange(0, 2).Draw(t, "query_detached") == 0 {
						urrOp[u] = true
						rules = append(rules, stack.RuleOp{Verb: "query", Kind: "URR", ID: u})
					}
				}
			case "createpdr-again":
				// a Create PDR for a PDR the session has: the data plane refuses it and keeps the installed rule, whose URR list
				// therefore stays the PDR's current list, whatever list the refused request named
				p := uint32(rapid.IntRange(0, 4).Draw(t, "pdr"))
				if _, ok := pdr[p]; !ok || touchedP[p] {
					continue
				}
				inMsg := false
				for _, ru := range rules {
					if ru.Kind == "PDR" && ru.ID == p {
						inMsg = true
					}
				}
				if inMsg {
					continue
				}
				touchedP[p] = true
				rules = append(rules, stack.RuleOp{Verb: "create", Kind: "PDR", ID: p, Prec: 4, URRs: pickURRs(false)})
			case "updatepdr-unknown":
				// an Update PDR the session cannot apply - the PDR was never created, was removed earlier, or is removed by this
				// very message (removals are applied first): whatever the answer's cause, the reports that the other IEs of
				// the message have caused belong into it
				p := uint32(rapid.IntRange(0, 5).Draw(t, "pdr"))
				if _, ok := pdr[p]; ok {
					continue
				}
				dupl := false
				for _, ru := range rules {
					if ru.Kind == "PDR" && ru.ID == p && ru.Verb != "remove" {
						dupl = true
					}
				}
				if dupl {
					continue
				}
				rules = append(rules, stack.RuleOp{Verb: "update", Kind: "PDR", ID: p, Prec: 3, URRs: pickURRs(false)})
			case "updatepdr":
				p := uint32(rapid.IntRange(0, 4).Draw(t, "pdr"))
				l, ok := pdr[p]
				if !ok || touchedP[p] {
					continue
				}
				nl := pickURRs(len(l) > 0)
				if len(nl) == 0 && len(l) > 0 {
					vcore.E.Exclude("update_pdr_without_urr_ies")
					continue
				}
				okl := true
				ns := setOf(nl)
				for u := range l {
					if touched[u] {
						okl = false
					}
				}
				for u := range ns {
					if touched[u] {
						okl = false
					}
				}
				if !okl {
					vcore.E.Exclude("two_report_causes_for_one_urr_in_one_message")
					continue
				}
				for u := range l {
					touched[u] = true
				}
				for u := range ns {
					touched[u] = true
				}
				pdr[p] = ns
				touchedP[p] = true
				rules = append(rules, stack.RuleOp{Verb: "update", Kind: "PDR", ID: p, Prec: 2, URRs: nl, Perm: perm(t)})
			}
		}
		if len(rules) > 0 {
			c.Evs = append(c.Evs, Ev{Kind: "mod", Rules: rules, FailRm: failRm, FailRmPDR: failRmPDR})
		}
	}
	c.Evs = append(c.Evs, Ev{Kind: "del"})
	return c
}

func multiset(urs []stack.UsageRep, flag uint32) map[uint32]int {
	out := map[uint32]int{}
	for _, u := range urs {
		if u.Trig&flag != 0 {
			out[u.URR]++
		}
	}
	return out
}

func eq(a, b map[uint32]int) bool {
	for k, v := range a {
		if v != 0 && b[k] != v {
			return false
		}
	}
	for k, v := range b {
		if v != 0 && a[k] != v {
			return false
		}
	}
	return true
}

func show(m map[uint32]int) string {
	var ks []int
	for k, v := range m {
		if v != 0 {
			ks = append(ks, int(k))
		}
	}
	sort.Ints(ks)
	s := "{"
	for _, k := range ks {
		s += fmt.Sprintf("URR%d:%d ", k, m[uint32(k)])
	}
	return s + "}"
}

func run(c Case) (v *vcore.Violation, stt stats) {
	vcore.Journal(c)
	d := stack.NewModelDriver()
	quiet := map[uint32]bool{}
	for _, q := range c.Quiet {
		quiet[q] = true
	}
	// every result the data plane hands out is marked (its start time, a second per result): a data plane's usage query reads
	// and resets the counters, so a result that is not passed on to the SMF is usage lost, and one passed on twice is usage
	// counted twice
	type handed struct {
		op  string
		urr uint32
	}
	var tokMu sync.Mutex
	tokens := map[int64]handed{}
	var nextTok int64
	d.ReportFor = func(op string, seid uint64, urrid uint32) []upfreport.USAReport {
		if op == "remove" && quiet[urrid] {
			return nil
		}
		tokMu.Lock()
		nextTok++
		tok := nextTok
		tokens[tok] = handed{op, urrid}
		tokMu.Unlock()
		return []upfreport.USAReport{{URRID: urrid, StartTime: time.Unix(1700000000+tok, 0), EndTime: time.Unix(1700100000, 0)}}
	}
	// delivered checks the usage reports of a response against what the data plane handed out while the request was handled
	delivered := func(what string, urs []stack.UsageRep) *vcore.Violation {
		tokMu.Lock()
		defer tokMu.Unlock()
		for _, u := range urs {
			tok := int64(-1)
			for _, ch := range stack.Children(u.IE) {
				if ch.Type == ie.StartTime {
					if t, err := ch.StartTime(); err == nil {
						tok = t.Unix() - 1700000000
					}
				}
			}
			h, ok := tokens[tok]
			if !ok {
				return vcore.Violatef("usage-twice", "%s: the usage report for URR %d carries a measurement (mark %d) that the data plane did not hand out for this request, or that was reported already", what, u.URR, tok)
			}
			if h.urr != u.URR {
				return vcore.Violatef("usage-other-urr", "%s: the usage report for URR %d carries the measurement the data plane handed out for URR %d", what, u.URR, h.urr)
			}
			delete(tokens, tok)
		}
		for tok, h := range tokens {
			return vcore.Violatef("usage-lost", "%s: the data plane was asked for the usage of URR %d (%s; reading resets the counters) and the result (mark %d) is in no usage report of the response: that usage is lost", what, h.urr, h.op, tok)
		}
		return nil
	}
	st, err := stack.New(stack.Opts{Driver: d, Nodes: 1})
	if err != nil {
		panic(fmt.Sprintf("infrastructure: %v", err))
	}
	defer func() {
		if cerr := st.Close(); cerr != nil && v == nil {
			v = vcore.Violatef("stop-hang", "%v", cerr)
		}
		if st.Dead != nil && v == nil {
			v = vcore.Violatef(st.Dead.Key, "UPF fatal exit: %.600s", st.Dead.Msg)
		}
	}()
	r := stack.NewRunner(st, d)
	m := newModel()
	m.quiet = quiet
	if o := r.Step(stack.Op{Kind: "assoc", Peer: 0, Node: 0, Sess: -1}); o.Dead != nil {
		return vcore.Violatef(o.Dead.Key, "prefix"), stt
	}
	o := r.Step(stack.Op{Kind: "est", Peer: 0, Node: 0, Sess: -1, CP: 0x41, Rules: c.Est})
	if o.Dead != nil {
		return vcore.Violatef(o.Dead.Key, "establishment: UPF fatal exit: %.400s", o.Dead.Msg), stt
	}
	if o.NewSess < 0 || !r.Sess[0].Known {
		return vcore.Violatef("est-failed", "establishment not accepted"), stt
	}
	m.apply(c.Est, &stt)
	for i, ev := range c.Evs {
		switch ev.Kind {
		case "mod":
			m.failPDR = setOf(ev.FailRmPDR)
			wantT, wantI := m.apply(ev.Rules, &stt, ev.FailRm...)
			failNow, failNowPDR := setOf(ev.FailRm), setOf(ev.FailRmPDR)
			d.FailRemove = func(kind string, seid uint64, id uint32) bool {
				if kind == "URR" && failNow[id] {
					delete(failNow, id)
					return true
				}
				if kind == "PDR" && failNowPDR[id] {
					delete(failNowPDR, id)
					return true
				}
				return false
			}
			if len(wantT)+len(wantI) > 0 {
				for _, ru := range ev.Rules {
					if ru.Kind == "PDR" && ru.Verb == "update" && ru.Prec == 3 {
						stt.unknownUpdWithEnd = true
					}
				}
			}
			o := r.Step(stack.Op{Kind: "mod", Peer: 0, Sess: 0, Rules: ev.Rules})
			if o.Dead != nil {
				return vcore.Violatef(o.Dead.Key, "message %d: UPF fatal exit: %.400s", i, o.Dead.Msg), stt
			}
			var urs []stack.UsageRep
			for _, mm := range o.Msgs[0] {
				if mr, ok := mm.(*message.SessionModificationResponse); ok {
					urs = stack.UsageReports(mr)
				}
			}
			gotT := multiset(urs, stack.TrigTERMR)
			gotI := multiset(urs, stack.TrigIMMER)
			lost := delivered(fmt.Sprintf("message %d %s", i, briefRules(ev.Rules)), urs)
			if lost != nil && eq(gotT, wantT) {
				return lost, stt
			}
			if !eq(gotT, wantT) {
				key := "termr-missing"
				for k, n := range gotT {
					if n > wantT[k] {
						key = "termr-surplus"
					}
				}
				return vcore.Violatef(key, "message %d %s: termination reports %s, expected %s", i, briefRules(ev.Rules), show(gotT), show(wantT)), stt
			}
			for _, ru := range ev.Rules {
				if ru.Kind == "URR" && ru.Verb == "remove" {
					// queried and removed by the same message: the immediate report is not asserted either way
					delete(gotI, ru.ID)
					delete(wantI, ru.ID)
				}
			}
			if !eq(gotI, wantI) {
				return vcore.Violatef("immer", "message %d %s: immediate reports %s, expected %s", i, briefRules(ev.Rules), show(gotI), show(wantI)), stt
			}
			for _, u := range urs {
				t, im := u.Trig&stack.TrigTERMR != 0, u.Trig&stack.TrigIMMER != 0
				if t == im {
					return vcore.Violatef("report-flags", "message %d: usage report for URR %d carries trigger %#x (exactly one of TERMR / IMMER expected)", i, u.URR, u.Trig), stt
				}
			}
		case "del":
			want := map[uint32]int{}
			for u := range m.urr {
				if !m.quiet[u] {
					want[u] = 1
				}
			}
			o := r.Step(stack.Op{Kind: "del", Peer: 0, Sess: 0})
			if o.Dead != nil {
				return vcore.Violatef(o.Dead.Key, "deletion: UPF fatal exit: %.400s", o.Dead.Msg), stt
			}
			var urs []stack.UsageRep
			for _, mm := range o.Msgs[0] {
				if dr, ok := mm.(*message.SessionDeletionResponse); ok {
					urs = stack.UsageReports(dr)
				}
			}
			got := multiset(urs, stack.TrigTERMR)
			all := multiset(urs, 0xffffff)
			if lost := delivered("deletion", urs); lost != nil && eq(got, want) && eq(all, want) {
				return lost, stt
			}
			if !eq(got, want) || !eq(all, want) {
				return vcore.Violatef("deletion-reports", "deletion: termination reports %s (all reports %s), expected %s", show(got), show(all), show(want)), stt
			}
			return nil, stt
		}
	}
	return nil, stt
}

func briefRules(rs []stack.RuleOp) string {
	s := "["
	for i, ru := range rs {
		if i > 0 {
			s += " "
		}
		s += fmt.Sprintf("%s-%s%d", ru.Verb, ru.Kind, ru.ID)
		if ru.Kind == "PDR" && ru.Verb != "remove" {
			s += fmt.Sprintf("%v", ru.URRs)
		}
	}
	return s + "]"
}

func brief(c Case) []string {
	out := []string{"est" + briefRules(c.Est)}
	for _, e := range c.Evs {
		out = append(out, e.Kind+briefRules(e.Rules))
	}
	return out
}

func account(c Case, s stats) {
	vcore.E.Eval()
	if s.updAssocDissolved {
		vcore.E.Class("association_added_by_update_pdr_later_dissolved")
	}
	if s.sharedLastGone {
		vcore.E.Class("shared_urr_last_reference_gone")
	}
	if s.failedRemove {
		vcore.E.Class("remove_urr_turned_down_by_the_data_plane")
	}
	if s.refusedCreate {
		vcore.E.Class("create_pdr_for_a_pdr_that_exists")
	}
	if s.unknownUpdWithEnd {
		vcore.E.Class("report_due_in_a_message_with_an_update_pdr_that_cannot_be_applied")
	}
	if s.updAssocDissolved || s.sharedLastGone {
		vcore.E.NonTrivial(vcore.JSON(c))
		vcore.E.Sample(fmt.Sprintf("upd%v-shared%v", s.updAssocDissolved, s.sharedLastGone), brief(c))
	}
}

func report(t vcore.Failer, c Case, v *vcore.Violation) {
	if v == nil || vcore.IsKnown(v.Key) {
		return
	}
	key := v.Key
	c.Evs = vcore.MinimizeSlice(c.Evs, func(evs []Ev) bool {
		x, _ := run(Case{Est: c.Est, Evs: evs, Quiet: c.Quiet})
		return x != nil && x.Key == key
	}, 300)
	if x, _ := run(c); x != nil {
		vcore.Report(t, x, c)
	}
	vcore.Report(t, v, c)
}

func TestC12(t *testing.T) {
	files, explicit := vcore.ReplayFiles()
	for _, f := range files {
		var c Case
		if err := vcore.LoadReplayCase(f, &c); err != nil {
			t.Fatalf("replay %s: %v", f, err)
		}
		v, s := run(c)
		account(c, s)
		vcore.E.Class("replayed")
		report(t, c, v)
	}
	if explicit {
		return
	}
	vcore.Check(t, vcore.N(1500, 15000), func(rt *rapid.T) {
		c := gen(rt)
		v, s := run(c)
		account(c, s)
		report(rt, c, v)
	})
}
