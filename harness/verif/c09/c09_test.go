//go:build verif

package c09

import (
	"bytes"
	"fmt"
	"reflect"
	"testing"

	"github.com/wmnsk/go-pfcp/ie"
	"github.com/wmnsk/go-pfcp/message"
	"pgregory.net/rapid"

	"github.com/free5gc/go-upf/internal/pfcp"
	"github.com/free5gc/go-upf/internal/verif/stack"
	"github.com/free5gc/go-upf/internal/verif/vcore"
)

func TestMain(m *testing.M) {
	vcore.Init("C09", "exploration",
		"configurations MaxRetrans 0..3 x start values of the request counter (0, 2^24-3..2^24+2, 2^31, 2^32-2, random) x rapid histories over 2 peers and 3 sessions of: usage / downlink-data report for a session (-> Session Report Request to its node), "+
			"ExpireTx of an outstanding or unknown transaction, Session Report Response matching / wrong sequence number / from the wrong peer / duplicated. "+
			"Oracle: reference model of outstanding requests keyed by (peer, wire sequence number): each request seen at an SMF socket has a 24-bit sequence number different from every other outstanding one to that peer; "+
			"each expiry of an outstanding request yields exactly one byte-identical retransmission until MaxRetrans is reached, then none and the entry disappears; a matching response from the right peer removes the entry and later expiries do nothing; "+
			"non-matching responses change nothing; a request from the peer carrying the sequence number of a request outstanding to it (receive transactions are keyed the same way, in their own table) is answered, and neither it nor the end of its retention window touches the outstanding request; at the end the transmit-transaction table is empty. Transactions are addressed by the key the server lists for the request whose cached bytes equal the datagram received. "+
			"non-trivial = the counter crossed 2^24 (or 2^32) with a request outstanding on each side of the boundary, or a request was retired by a response after >= 1 retry; distinct by (config, history)",
		"in the model-based histories timer expiry is injected through the public NotifyTransTimeout entry point; the counter is positioned by an in-package hook of the scratch build. "+
			"Part (b) uses real timers (30 / 60 ms, MaxRetrans 0..3): 1-5 requests outstanding, the event loop parked inside a data-plane call of an unrelated Establishment for 20-250 % of the timeout, responses for a drawn subset sent meanwhile, loop released - "+
			"responses and already-fired expiries are then served in the order the loop's select picks; oracle: copies byte-identical, never more than MaxRetrans, and no copy of an answered request once the loop has served its response (barrier), watched for MaxRetrans+2 timeouts",
		"responses carry a non-zero SEID (SEID 0 is C01/C04/C05's subject); a response of another message type with matching peer and sequence is not generated")
	vcore.Main(m)
}

type Ev struct {
	Kind    string `json:"kind"` // report dldr expire expire_unknown rsp peerreq
	Sess    int    `json:"sess,omitempty"`
	Which   int    `json:"which,omitempty"`   // index into the model's list of outstanding requests (mod len)
	Variant string `json:"variant,omitempty"` // rsp: match wrongseq wrongpeer
}

type Case struct {
	MaxRetrans uint8  `json:"max_retrans"`
	StartSeq   uint32 `json:"start_seq"`
	Evs        []Ev   `json:"evs"`
}

type out struct {
	sock    int
	seq     uint32
	b       []byte
	retries int
	side    int // 0: sent before the counter crossed a boundary, 1: after
	retired bool
	unreach bool // sent to the node whose Node ID cannot be reached: no datagram arrives anywhere
	sess    int  // the session the report was for
}

const unreachID = "203.0.113.9"

func reachable(l []*out) []*out {
	var o []*out
	for _, x := range l {
		if !x.unreach {
			o = append(o, x)
		}
	}
	return o
}

type stats struct {
	crossWithBoth                bool
	retiredAfterRetry            bool
	reports, expiries, responses int
	peerReqs                     int
	peerReqExpired               bool
	unreach                      int // requests whose first transmission failed locally
	deletions                    int // sessions deleted by their owner while requests for other sessions were outstanding or followed
}

func run(c Case) (v *vcore.Violation, stt stats) {
	d := stack.NewModelDriver()
	// node 2 names itself by an address the UPF cannot send to from its loopback socket (TEST-NET-3): the first transmission
	// of every request to it fails locally, the request is outstanding all the same
	st, err := stack.New(stack.Opts{Driver: d, Nodes: 3, MaxRetrans: c.MaxRetrans, NodeIDs: map[int]string{2: unreachID}})
	if err != nil {
		panic(fmt.Sprintf("infrastructure: %v", err))
	}
	defer func() {
		if cerr := st.Close(); cerr != nil && v == nil {
			v = vcore.Violatef("stop-hang", "%v", cerr)
		}
		if st.Dead != nil && v == nil {
			v = vcore.Violatef(st.Dead.Key, "UPF fatal exit: %.600s", st.Dead.Msg)
		}
	}()
	r := stack.NewRunner(st, d)
	// prefix: 2 nodes, 3 sessions (two on node 0, one on node 1), each with URR 1 and PDR 1
	urr := stack.RuleOp{Verb: "create", Kind: "URR", ID: 1, Method: 2, Trig: 2}
	pdr := stack.RuleOp{Verb: "create", Kind: "PDR", ID: 1, Prec: 1, URRs: []uint32{1}}
	for _, op := range []stack.Op{
		{Kind: "assoc", Peer: 0, Node: 0, Sess: -1}, {Kind: "assoc", Peer: 1, Node: 1, Sess: -1},
		{Kind: "est", Peer: 0, Node: 0, Sess: -1, CP: 0x21, Rules: []stack.RuleOp{urr, pdr}},
		{Kind: "est", Peer: 0, Node: 0, Sess: -1, CP: 0x22, Rules: []stack.RuleOp{urr, pdr}},
		{Kind: "est", Peer: 1, Node: 1, Sess: -1, CP: 0x21, Rules: []stack.RuleOp{urr, pdr}},
		{Kind: "assoc", Peer: 2, Node: 2, Sess: -1},
		{Kind: "est", Peer: 2, Node: 2, Sess: -1, CP: 0x21, Rules: []stack.RuleOp{urr, pdr}},
	} {
		if o := r.Step(op); o.Dead != nil {
			return vcore.Violatef(o.Dead.Key, "prefix: UPF fatal exit"), stt
		}
	}
	for _, s := range r.Sess {
		if !s.Known {
			return vcore.Violatef("prefix", "prefix session not established"), stt
		}
	}
	st.Srv.VerifSetTxSeq(c.StartSeq)

	var outstanding []*out
	live := func() []*out {
		var l []*out
		for _, o := range outstanding {
			if !o.retired {
				l = append(l, o)
			}
		}
		return l
	}
	// txKey finds the server's key for an outstanding request by its cached bytes
	addrOf := func(o *out) string {
		if o.unreach {
			return unreachID + ":8805"
		}
		return st.Sock(o.sock).Addr.String()
	}
	txKey := func(o *out) (string, bool) {
		for id, e := range st.Srv.VerifTxTable() {
			if bytes.Equal(e.Bytes, o.b) && e.Addr == addrOf(o) {
				return id, true
			}
		}
		return "", false
	}
	crossed := false
	sentCount := uint64(0)
	gone := map[int]bool{} // sessions deleted by their owners

	for i, ev := range c.Evs {
		switch ev.Kind {
		case "del":
			// a peer deletes a session of its own that has nothing outstanding; the requests outstanding for other sessions -
			// also for sessions of other peers that chose the same CP SEID - go on as before
			sess := ev.Sess % 3
			busy := gone[sess]
			for _, x := range live() {
				if x.sess == sess {
					busy = true
				}
			}
			if busy {
				continue
			}
			o := r.Step(stack.Op{Kind: "del", Peer: r.Sess[sess].Node, Sess: sess})
			if o.Dead != nil {
				return vcore.Violatef(o.Dead.Key, "event %d: UPF fatal exit: %.400s", i, o.Dead.Msg), stt
			}
			gone[sess] = true
			stt.deletions++
		case "report", "dldr":
			sess := ev.Sess % len(r.Sess)
			if gone[sess] {
				continue
			}
			stt.reports++
			op := stack.Op{Kind: "report", Sess: sess, URRs: []uint32{1}, Trig: 2}
			if ev.Kind == "dldr" {
				op = stack.Op{Kind: "report", Sess: sess, DLDR: true, PDR: 1, Action: 0x0c, Payload: []byte{byte(i)}}
			}
			o := r.Step(op)
			if o.Dead != nil {
				return vcore.Violatef(o.Dead.Key, "event %d: UPF fatal exit: %.400s", i, o.Dead.Msg), stt
			}
			node := r.Sess[sess].Node
			if node == 2 {
				// nothing can arrive anywhere; the request is outstanding all the same, under a number of its own
				if len(o.SRRs) != 0 {
					return vcore.Violatef("srr-misdirected", "event %d: a report for a session of the node named %s produced a Session Report Request at socket %d", i, unreachID, o.SRRs[0].Sock), stt
				}
				var fresh []pfcp.VerifTx
				for _, e := range st.Srv.VerifTxTable() {
					if e.Addr != unreachID+":8805" {
						continue
					}
					known := false
					for _, x := range live() {
						if x.unreach && bytes.Equal(x.b, e.Bytes) {
							known = true
						}
					}
					if !known {
						fresh = append(fresh, e)
					}
				}
				nUn := 0
				for _, x := range live() {
					if x.unreach {
						nUn++
					}
				}
				have := 0
				for _, e := range st.Srv.VerifTxTable() {
					if e.Addr == unreachID+":8805" {
						have++
					}
				}
				if len(fresh) != 1 || have != nUn+1 {
					return vcore.Violatef("lost-bookkeeping", "event %d: a request whose first transmission failed (peer %s): the transmit table holds %d request(s) to that peer, %d were outstanding before and one was added (new entries: %d)", i, unreachID, have, nUn, len(fresh)), stt
				}
				seq := fresh[0].Seq & 0xffffff
				for _, x := range live() {
					if x.seq == seq {
						return vcore.Violatef("seq-collision", "event %d: sequence number %d given to a request to %s while a request with it is still outstanding (to %s)", i, seq, unreachID, addrOf(x)), stt
					}
				}
				sentCount++
				outstanding = append(outstanding, &out{sock: 2, unreach: true, seq: seq, b: fresh[0].Bytes, sess: sess})
				stt.unreach++
				continue
			}
			if len(o.SRRs) != 1 || o.SRRs[0].Sock != node {
				return vcore.Violatef("srr-count", "event %d: report for session %d produced %d Session Report Requests (want 1 at node %d)", i, sess, len(o.SRRs), node), stt
			}
			srr := o.SRRs[0]
			if srr.SEID != r.Sess[sess].CP {
				return vcore.Violatef("srr-seid", "event %d: Session Report Request header SEID %#x want CP SEID %#x", i, srr.SEID, r.Sess[sess].CP), stt
			}
			for _, x := range live() {
				if x.seq == srr.Seq {
					return vcore.Violatef("seq-collision", "event %d: sequence number %d given to a request to sock %d while a request with it is still outstanding (to %s)", i, srr.Seq, srr.Sock, addrOf(x)), stt
				}
			}
			// position relative to a counter boundary
			pos := uint64(c.StartSeq) + sentCount
			side := 0
			if (uint64(c.StartSeq) < 1<<24 && pos >= 1<<24) || pos >= 1<<32 {
				side = 1
			}
			sentCount++
			n := &out{sock: srr.Sock, seq: srr.Seq, b: srr.B, side: side, sess: sess}
			if side == 1 {
				crossed = true
				for _, x := range live() {
					if x.side == 0 {
						stt.crossWithBoth = true
					}
				}
			}
			outstanding = append(outstanding, n)
			if _, ok := txKey(n); !ok {
				return vcore.Violatef("no-bookkeeping", "event %d: request sent but no transmit transaction holds its bytes", i), stt
			}
		case "expire":
			l := live()
			if len(l) == 0 {
				continue
			}
			stt.expiries++
			x := l[ev.Which%len(l)]
			id, ok := txKey(x)
			if !ok {
				for _, e := range st.Srv.VerifTxTable() {
					if e.Addr == addrOf(x) && e.Seq&0xffffff == x.seq {
						return vcore.Violatef("retrans-differs", "event %d: the bytes kept for retransmitting request seq %d (%x) differ from the datagram that was sent (%x)", i, x.seq, e.Bytes, x.b), stt
					}
				}
				return vcore.Violatef("lost-bookkeeping", "event %d: outstanding request (sock %d seq %d) vanished from the transmit table", i, x.sock, x.seq), stt
			}
			snapB := st.Srv.VerifSnapshot()
			o := r.Step(stack.Op{Kind: "expire_tx", TrID: id})
			if o.Dead != nil {
				return vcore.Violatef(o.Dead.Key, "event %d: UPF fatal exit: %.400s", i, o.Dead.Msg), stt
			}
			if !reflect.DeepEqual(snapB, st.Srv.VerifSnapshot()) {
				return vcore.Violatef("expire-changed-state", "event %d: expiry changed session state", i), stt
			}
			total := 0
			for _, ds := range o.Rx {
				total += len(ds)
			}
			if x.unreach && x.retries < int(c.MaxRetrans) {
				if total != 0 {
					return vcore.Violatef("retrans-count", "event %d: expiry of a request to %s produced %d datagram(s) at the peers' sockets", i, unreachID, total), stt
				}
				x.retries++
				if _, ok := txKey(x); !ok {
					return vcore.Violatef("lost-bookkeeping", "event %d: request dropped before the last retry", i), stt
				}
			} else if x.retries < int(c.MaxRetrans) {
				if total != 1 || len(o.Rx[x.sock]) != 1 {
					return vcore.Violatef("retrans-count", "event %d: expiry %d of request seq %d (max %d) produced %d datagrams, want one retransmission", i, x.retries+1, x.seq, c.MaxRetrans, total), stt
				}
				if !bytes.Equal(o.Rx[x.sock][0].B, x.b) {
					return vcore.Violatef("retrans-differs", "event %d: retransmission %x differs from the original %x", i, o.Rx[x.sock][0].B, x.b), stt
				}
				x.retries++
				// the retransmission is the same request: drop the duplicate the runner queued
				r.Pending[x.sock] = nil
				if _, ok := txKey(x); !ok {
					return vcore.Violatef("lost-bookkeeping", "event %d: request dropped before the last retry", i), stt
				}
			} else {
				if total != 0 {
					return vcore.Violatef("retrans-beyond-max", "event %d: request seq %d retransmitted more than %d times", i, x.seq, c.MaxRetrans), stt
				}
				if _, ok := txKey(x); ok {
					return vcore.Violatef("not-released", "event %d: abandoned request seq %d still in the transmit table", i, x.seq), stt
				}
				x.retired = true
			}
		case "peerreq":
			// the peer's own request with the sequence number of a request outstanding to it: receive transactions are kept
			// under the same "<address>-<sequence number>" form of key, in a table of their own.  Receiving it, and (variant
			// "expire") the end of its retention window, must leave the outstanding request alone.
			l := reachable(live())
			if len(l) == 0 {
				continue
			}
			x := l[ev.Which%len(l)]
			retained := false
			for _, e := range st.Srv.VerifRxTable() {
				if e.Addr == st.Sock(x.sock).Addr.String() && e.Seq == x.seq {
					retained = true // an earlier request of the peer with this number is still retained: this one would be its retransmission
				}
			}
			if retained {
				continue
			}
			stt.peerReqs++
			hb, err := r.Build(stack.Op{Kind: "hb", Peer: x.sock, Sess: -1}, x.seq)
			if err != nil {
				panic(err)
			}
			tb := st.Srv.VerifTxTable()
			o := r.SendRaw(x.sock, hb)
			if o.Dead != nil {
				return vcore.Violatef(o.Dead.Key, "event %d: UPF fatal exit: %.400s", i, o.Dead.Msg), stt
			}
			if len(o.Rx[x.sock]) != 1 || len(o.Rx) != 1 {
				return vcore.Violatef("peer-request-answer", "event %d: Heartbeat Request from sock %d with sequence %d (a request of the UPF's with that number is outstanding) got %d datagram(s)", i, x.sock, x.seq, len(o.Rx[x.sock])), stt
			}
			if m, perr := message.Parse(o.Rx[x.sock][0].B); perr != nil || m.MessageType() != message.MsgTypeHeartbeatResponse || m.Sequence() != x.seq {
				return vcore.Violatef("peer-request-answer", "event %d: Heartbeat Request seq %d answered with %x", i, x.seq, o.Rx[x.sock][0].B), stt
			}
			r.Pending[x.sock] = nil
			if !reflect.DeepEqual(tb, st.Srv.VerifTxTable()) {
				return vcore.Violatef("peer-request-effect", "event %d: a request from the peer with sequence number %d changed the transmit table", i, x.seq), stt
			}
			if ev.Variant == "expire" {
				id := ""
				for rid, e := range st.Srv.VerifRxTable() {
					if e.Addr == st.Sock(x.sock).Addr.String() && e.Seq == x.seq {
						id = rid
					}
				}
				if id == "" {
					return vcore.Violatef("no-bookkeeping", "event %d: the peer's request seq %d left no receive transaction", i, x.seq), stt
				}
				o := r.Step(stack.Op{Kind: "expire_rx", TrID: id})
				if o.Dead != nil {
					return vcore.Violatef(o.Dead.Key, "event %d: UPF fatal exit: %.400s", i, o.Dead.Msg), stt
				}
				if len(o.Rx) != 0 {
					return vcore.Violatef("expire-side-effect", "event %d: end of a retention window caused datagrams", i), stt
				}
				if _, ok := txKey(x); !ok {
					return vcore.Violatef("lost-bookkeeping", "event %d: the retention window of the peer's request (sock %d, sequence %d) ended and took the UPF's outstanding request with the same sequence number with it: it will neither be retransmitted nor matched with its response",
						i, x.sock, x.seq), stt
				}
				stt.peerReqExpired = true
			}
		case "expire_unknown":
			stt.expiries++
			tb := st.Srv.VerifTxTable()
			o := r.Step(stack.Op{Kind: "expire_tx", TrID: fmt.Sprintf("%s-%d", st.Sock(0).Addr, 0xabcdef)})
			if o.Dead != nil {
				return vcore.Violatef(o.Dead.Key, "event %d: UPF fatal exit", i), stt
			}
			if len(o.Rx) != 0 || !reflect.DeepEqual(tb, st.Srv.VerifTxTable()) {
				return vcore.Violatef("unknown-expiry-effect", "event %d: expiry of an unknown transaction had an effect", i), stt
			}
			// expiry of an already retired request
			for _, x := range outstanding {
				if x.retired {
					id := fmt.Sprintf("%s-%d", st.Sock(x.sock).Addr, x.seq)
					o := r.Step(stack.Op{Kind: "expire_tx", TrID: id})
					if o.Dead != nil {
						return vcore.Violatef(o.Dead.Key, "event %d: UPF fatal exit", i), stt
					}
					if len(o.Rx) != 0 {
						return vcore.Violatef("retired-retransmitted", "event %d: expiry after retirement of seq %d produced a datagram", i, x.seq), stt
					}
					break
				}
			}
		case "rsp":
			l := reachable(live())
			if len(l) == 0 {
				continue
			}
			stt.responses++
			x := l[ev.Which%len(l)]
			seq := x.seq
			from := x.sock
			switch ev.Variant {
			case "wrongseq":
				seq = (x.seq + 7) & 0xffffff
				for _, y := range l {
					if y.sock == from && y.seq == seq {
						seq = (seq + 1) & 0xffffff
					}
				}
			case "wrongpeer":
				from = 1 - x.sock
				for _, y := range l {
					if y.sock == from && y.seq == seq {
						ev.Variant = "match-other"
					}
				}
				if ev.Variant == "match-other" {
					continue
				}
			}
			rsp := message.NewSessionReportResponse(0, 0, 1, seq, 0, ie.NewCause(ie.CauseRequestAccepted))
			tb := st.Srv.VerifTxTable()
			snapB := st.Srv.VerifSnapshot()
			o := r.SendRaw(from, stack.Marshal(rsp))
			if o.Dead != nil {
				return vcore.Violatef(o.Dead.Key, "event %d: UPF fatal exit: %.400s", i, o.Dead.Msg), stt
			}
			if len(o.Rx) != 0 {
				return vcore.Violatef("response-answered", "event %d: a Session Report Response caused datagrams", i), stt
			}
			if !reflect.DeepEqual(snapB, st.Srv.VerifSnapshot()) {
				return vcore.Violatef("response-changed-state", "event %d: response (variant %s) changed session state", i, ev.Variant), stt
			}
			if ev.Variant == "match" || ev.Variant == "" {
				if _, ok := txKey(x); ok {
					return vcore.Violatef("not-retired", "event %d: response with sequence %d from the right peer did not retire the request (counter start %d)", i, seq, c.StartSeq), stt
				}
				x.retired = true
				if x.retries > 0 {
					stt.retiredAfterRetry = true
				}
				// expiry afterwards produces nothing
				o2 := r.Step(stack.Op{Kind: "expire_tx", TrID: fmt.Sprintf("%s-%d", st.Sock(x.sock).Addr, x.seq)})
				if o2.Dead != nil {
					return vcore.Violatef(o2.Dead.Key, "event %d: UPF fatal exit", i), stt
				}
				if len(o2.Rx) != 0 {
					return vcore.Violatef("retired-retransmitted", "event %d: request seq %d retransmitted after its response arrived", i, x.seq), stt
				}
				// a duplicate of the response changes nothing
				tb2 := st.Srv.VerifTxTable()
				o3 := r.SendRaw(from, stack.Marshal(rsp))
				if o3.Dead != nil {
					return vcore.Violatef(o3.Dead.Key, "event %d: UPF fatal exit", i), stt
				}
				if !reflect.DeepEqual(tb2, st.Srv.VerifTxTable()) || len(o3.Rx) != 0 {
					return vcore.Violatef("dup-response-effect", "event %d: duplicated response had an effect", i), stt
				}
			} else if !reflect.DeepEqual(tb, st.Srv.VerifTxTable()) {
				return vcore.Violatef("foreign-response-effect", "event %d: response (variant %s, seq %d from sock %d) changed the transmit table", i, ev.Variant, seq, from), stt
			}
		}
	}
	_ = crossed
	// retire everything: expire until abandoned
	for _, x := range live() {
		for k := 0; k <= int(c.MaxRetrans); k++ {
			id, ok := txKey(x)
			if !ok {
				for _, e := range st.Srv.VerifTxTable() {
					if e.Addr == addrOf(x) && e.Seq&0xffffff == x.seq {
						return vcore.Violatef("retrans-differs", "final: the bytes kept for retransmitting request seq %d (%x) differ from the datagram that was sent (%x)", x.seq, e.Bytes, x.b), stt
					}
				}
				return vcore.Violatef("lost-bookkeeping", "final: request seq %d vanished early", x.seq), stt
			}
			o := r.Step(stack.Op{Kind: "expire_tx", TrID: id})
			if o.Dead != nil {
				return vcore.Violatef(o.Dead.Key, "final: UPF fatal exit"), stt
			}
			if len(o.Rx[x.sock]) == 1 {
				x.retries++
			}
			r.Pending[x.sock] = nil
			if x.retries > int(c.MaxRetrans) {
				return vcore.Violatef("retrans-beyond-max", "final: request seq %d retransmitted %d times (max %d)", x.seq, x.retries, c.MaxRetrans), stt
			}
			if _, ok := txKey(x); !ok {
				break
			}
		}
	}
	if tb := st.Srv.VerifTxTable(); len(tb) != 0 {
		return vcore.Violatef("not-released", "all requests retired but the transmit table holds %d entries", len(tb)), stt
	}
	return nil, stt
}

func account(c Case, s stats) {
	if s.deletions > 0 {
		vcore.E.Class("session_deleted_by_its_owner_between_reports")
	}
	vcore.E.Eval()
	vcore.E.Class(fmt.Sprintf("max_retrans_%d", c.MaxRetrans))
	if s.crossWithBoth {
		vcore.E.Class("crossed_boundary_with_outstanding_on_both_sides")
	}
	if s.retiredAfterRetry {
		vcore.E.Class("retired_by_response_after_retry")
	}
	if s.unreach > 0 {
		vcore.E.Class("request_whose_first_transmission_failed")
	}
	if s.peerReqs > 0 {
		vcore.E.Class("peer_request_with_the_sequence_number_of_an_outstanding_request")
	}
	if s.peerReqExpired {
		vcore.E.Class("its_retention_window_ended_while_the_request_was_outstanding")
	}
	if s.crossWithBoth || s.retiredAfterRetry {
		vcore.E.NonTrivial(vcore.JSON(c))
		kind := "retired-after-retry"
		if s.crossWithBoth {
			kind = "boundary"
		}
		vcore.E.Sample(kind, c)
	}
}

func report(t vcore.Failer, c Case, v *vcore.Violation) {
	if v == nil || vcore.IsKnown(v.Key) {
		return
	}
	key := v.Key
	c.Evs = vcore.MinimizeSlice(c.Evs, func(evs []Ev) bool {
		x, _ := run(Case{MaxRetrans: c.MaxRetrans, StartSeq: c.StartSeq, Evs: evs})
		return x != nil && x.Key == key
	}, 300)
	if x, _ := run(c); x != nil {
		vcore.Report(t, x, c)
	}
	vcore.Report(t, v, c)
}

func TestC09(t *testing.T) {
	files, explicit := vcore.ReplayFiles()
	for _, f := range files {
		var w struct {
			Case
			Real *RCase `json:"real"`
		}
		if err := vcore.LoadReplayCase(f, &w); err != nil {
			t.Fatalf("replay %s: %v", f, err)
		}
		if w.Real != nil {
			v, s := runReal(*w.Real)
			accountReal(*w.Real, s)
			vcore.E.Class("replayed")
			vcore.Report(t, v, map[string]any{"real": w.Real})
			continue
		}
		c := w.Case
		v, s := run(c)
		account(c, s)
		vcore.E.Class("replayed")
		report(t, c, v)
	}
	if explicit {
		return
	}
	// (b) real timers, loop parked while timers fire and responses arrive
	for _, c := range []RCase{
		{RetransMs: 30, MaxRetrans: 3, Sess: []int{0, 2}, Answer: []bool{false, false}, BusyPct: 20, FailPct: 130},
		{RetransMs: 60, MaxRetrans: 2, Sess: []int{1}, Answer: []bool{false}, BusyPct: 20, FailPct: 250},
		// five requests out, the loop busy past their timers, three answered meanwhile: when the loop comes back it finds
		// responses and expiries side by side and serves them in an order of its choosing (six times: six orders)
		{RetransMs: 30, MaxRetrans: 1, Sess: []int{0, 1, 2, 0, 1}, Answer: []bool{true, false, true, false, true}, BusyPct: 150},
		{RetransMs: 30, MaxRetrans: 1, Sess: []int{0, 1, 2, 0, 1}, Answer: []bool{false, true, false, true, true}, BusyPct: 150},
		{RetransMs: 30, MaxRetrans: 2, Sess: []int{2, 1, 0, 2, 1}, Answer: []bool{true, true, false, false, true}, BusyPct: 250},
		{RetransMs: 30, MaxRetrans: 1, Sess: []int{0, 1, 2, 0, 1}, Answer: []bool{true, false, true, false, true}, BusyPct: 150},
		{RetransMs: 30, MaxRetrans: 1, Sess: []int{0, 1, 2, 0, 1}, Answer: []bool{false, true, false, true, true}, BusyPct: 150},
		{RetransMs: 30, MaxRetrans: 2, Sess: []int{2, 1, 0, 2, 1}, Answer: []bool{true, true, false, false, true}, BusyPct: 250},
		// more requests outstanding than the loop's timer queue holds (64), none answered, the loop busy until long after every
		// timer has fired: the expiries that did not fit must still be served - each request retransmitted and then abandoned
		manyOut(80, 200, 1, 400),
	} {
		v, s := runReal(c)
		accountReal(c, s)
		vcore.Report(t, v, map[string]any{"real": c})
	}
	vcore.Check(t, vcore.N(25, 250), func(rt *rapid.T) {
		c := genReal(rt)
		v, s := runReal(c)
		accountReal(c, s)
		vcore.Report(rt, v, map[string]any{"real": c})
	})
	starts := []uint32{0, 1<<24 - 3, 1<<24 - 2, 1<<24 - 1, 1 << 24, 1<<24 + 1, 1<<24 + 2, 1 << 31, 1<<32 - 2, 1<<32 - 1}
	vcore.Check(t, vcore.N(1200, 12000), func(rt *rapid.T) {
		c := Case{
			MaxRetrans: uint8(rapid.IntRange(0, 3).Draw(rt, "maxretrans")),
			StartSeq:   rapid.OneOf(rapid.SampledFrom(starts), rapid.Uint32()).Draw(rt, "start"),
		}
		n := rapid.IntRange(1, 25).Draw(rt, "n")
		for i := 0; i < n; i++ {
			k := rapid.SampledFrom([]string{"report", "report", "report", "dldr", "expire", "expire", "expire", "expire_unknown", "rsp", "rsp", "peerreq", "del"}).Draw(rt, "kind")
			ev := Ev{Kind: k, Sess: rapid.SampledFrom([]int{0, 1, 2, 3, 3}).Draw(rt, "sess"), Which: rapid.IntRange(0, 7).Draw(rt, "which")}
			if k == "peerreq" && rapid.Bool().Draw(rt, "expire") {
				ev.Variant = "expire"
			}
			if k == "rsp" {
				ev.Variant = rapid.SampledFrom([]string{"match", "match", "wrongseq", "wrongpeer"}).Draw(rt, "variant")
			}
			c.Evs = append(c.Evs, ev)
		}
		v, s := run(c)
		account(c, s)
		report(rt, c, v)
	})
}

// manyOut: k requests outstanding (over the three prefix sessions), none answered.
func manyOut(k, retransMs int, maxRetrans uint8, busyPct int) RCase {
	c := RCase{RetransMs: retransMs, MaxRetrans: maxRetrans, BusyPct: busyPct}
	for i := 0; i < k; i++ {
		c.Sess = append(c.Sess, i%3)
		c.Answer = append(c.Answer, false)
	}
	return c
}
