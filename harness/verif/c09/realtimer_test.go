//go:build verif

package c09

import (
	"bytes"
	"fmt"
	"sync/atomic"
	"time"

	"github.com/wmnsk/go-pfcp/ie"
	"github.com/wmnsk/go-pfcp/message"
	"pgregory.net/rapid"

	"github.com/free5gc/go-upf/internal/verif/stack"
	"github.com/free5gc/go-upf/internal/verif/vcore"
)

// ---------------------------------------------------------------- (b) real retransmission timers
//
// The histories above expire transactions through NotifyTransTimeout, which
// makes "the timer fired" and "the loop served the expiry" one atomic step.
// With real timers they are two: a timer can have fired while the loop is
// busy, and the peer's response can be served before the queued expiry.  The
// harness owns that schedule: k report requests are outstanding, the event
// loop is then parked inside a data-plane call of an unrelated Session
// Establishment (model driver hook) for longer than the retransmission
// timeout, responses for a drawn subset are sent meanwhile, and the loop is
// released, so that responses and expiries are served in whatever order the
// loop's select picks.
//
// Oracle (one-sided in time): every copy of a request is byte-identical to the
// first; never more than MaxRetrans retransmissions; and once the response has
// been sent and a barrier passed (the loop has served it), no further copy of
// that request arrives during the following (MaxRetrans+2) timeouts.

type RCase struct {
	RetransMs  int    `json:"retrans_ms"`
	MaxRetrans uint8  `json:"max_retrans"`
	Sess       []int  `json:"sess"`     // which of the 3 prefix sessions gets a report (one outstanding request each)
	Answer     []bool `json:"answer"`   // answered while the loop is parked
	BusyPct    int    `json:"busy_pct"` // how long the loop stays parked, in % of the timeout
	// FailPct > 0: once the requests are out, the socket refuses writes for FailPct % of the timeout (a full device queue, a
	// route flap): retransmissions attempted meanwhile fail; the timer goes on all the same, later copies go out, and after
	// the last expiry the request is abandoned
	FailPct int `json:"fail_pct,omitempty"`
}

type rstats struct {
	answeredAfterFired int
	failed             bool
}

func runReal(c RCase) (v *vcore.Violation, stt rstats) {
	d := stack.NewModelDriver()
	retrans := time.Duration(c.RetransMs) * time.Millisecond
	st, err := stack.New(stack.Opts{Driver: d, Nodes: 2, MaxRetrans: c.MaxRetrans, Retrans: retrans})
	if err != nil {
		panic(fmt.Sprintf("infrastructure: %v", err))
	}
	gate := make(chan struct{})
	entered := make(chan struct{}, 1)
	var armed atomic.Bool
	d.Hook = func(op, kind string, seid uint64, id uint32) {
		if armed.Load() && op == "create" && kind == "FAR" && id == 77 {
			select {
			case entered <- struct{}{}:
			default:
			}
			<-gate
		}
	}
	released := false
	release := func() {
		if !released {
			released = true
			close(gate)
		}
	}
	defer func() {
		release()
		if cerr := st.Close(); cerr != nil && v == nil {
			v = vcore.Violatef("stop-hang", "%v", cerr)
		}
		if st.Dead != nil && v == nil {
			v = vcore.Violatef(st.Dead.Key, "UPF fatal exit: %.600s", st.Dead.Msg)
		}
	}()
	r := stack.NewRunner(st, d)
	urr := stack.RuleOp{Verb: "create", Kind: "URR", ID: 1, Method: 2, Trig: 2}
	pdr := stack.RuleOp{Verb: "create", Kind: "PDR", ID: 1, Prec: 1, URRs: []uint32{1}}
	for _, op := range []stack.Op{
		{Kind: "assoc", Peer: 0, Node: 0, Sess: -1}, {Kind: "assoc", Peer: 1, Node: 1, Sess: -1},
		{Kind: "est", Peer: 0, Node: 0, Sess: -1, CP: 0x21, Rules: []stack.RuleOp{urr, pdr}},
		{Kind: "est", Peer: 0, Node: 0, Sess: -1, CP: 0x22, Rules: []stack.RuleOp{urr, pdr}},
		{Kind: "est", Peer: 1, Node: 1, Sess: -1, CP: 0x23, Rules: []stack.RuleOp{urr, pdr}},
	} {
		if o := r.Step(op); o.Dead != nil {
			return vcore.Violatef(o.Dead.Key, "prefix: UPF fatal exit"), stt
		}
	}
	for _, s := range r.Sess {
		if !s.Known {
			return vcore.Violatef("prefix", "prefix session not established"), stt
		}
	}
	type req struct {
		sock     int
		seq      uint32
		b        []byte
		up       uint64
		copies   int // including the first
		answered bool
		after    int // copies seen after the response had been served
	}
	var reqs []*req
	find := func(sock int, seq uint32) *req {
		for _, q := range reqs {
			if q.sock == sock && q.seq == seq {
				return q
			}
		}
		return nil
	}
	// absorb files every Session Report Request waiting at the SMF sockets
	absorb := func(afterResponse bool) *vcore.Violation {
		for _, sock := range []int{0, 1} {
			for _, dg := range st.Sock(sock).Drain() {
				m, err := message.Parse(dg.B)
				if err != nil {
					continue
				}
				srr, ok := m.(*message.SessionReportRequest)
				if !ok {
					continue
				}
				q := find(sock, srr.Sequence())
				if q == nil {
					reqs = append(reqs, &req{sock: sock, seq: srr.Sequence(), b: dg.B, copies: 1})
					continue
				}
				q.copies++
				if !bytes.Equal(q.b, dg.B) {
					return vcore.Violatef("retrans-differs", "real timers: copy %d of request seq %d differs from the first: %x vs %x", q.copies, q.seq, dg.B, q.b)
				}
				if q.copies-1 > int(c.MaxRetrans) {
					return vcore.Violatef("retrans-beyond-max", "real timers: request seq %d retransmitted %d times (max %d)", q.seq, q.copies-1, c.MaxRetrans)
				}
				if afterResponse && q.answered {
					q.after++
				}
			}
		}
		return nil
	}
	// k outstanding requests
	for i, s := range c.Sess {
		before := len(reqs)
		o := r.Step(stack.Op{Kind: "report", Sess: s, URRs: []uint32{1}, Trig: 2})
		if o.Dead != nil {
			return vcore.Violatef(o.Dead.Key, "report %d: UPF fatal exit", i), stt
		}
		// Step drained the sockets into o.Rx: file them
		for _, sock := range []int{0, 1} {
			for _, dg := range o.Rx[sock] {
				m, err := message.Parse(dg.B)
				if err != nil {
					continue
				}
				if srr, ok := m.(*message.SessionReportRequest); ok {
					if q := find(sock, srr.Sequence()); q != nil {
						q.copies++
						if !bytes.Equal(q.b, dg.B) {
							return vcore.Violatef("retrans-differs", "real timers: copy %d of request seq %d differs from the first", q.copies, q.seq), stt
						}
					} else {
						reqs = append(reqs, &req{sock: sock, seq: srr.Sequence(), b: dg.B, copies: 1, up: r.Sess[s].UP})
					}
				}
			}
		}
		r.Pending[0], r.Pending[1] = nil, nil
		if len(reqs) == before {
			return vcore.Violatef("no-report-request", "real timers: report %d for session #%d produced no Session Report Request", i, s), stt
		}
	}
	first := append([]*req(nil), reqs...)
	if c.FailPct > 0 {
		st.Srv.VerifFailSends(true)
		time.Sleep(retrans * time.Duration(c.FailPct) / 100)
		st.Srv.VerifFailSends(false)
		stt.failed = true
	}
	// park the loop inside the data plane
	armed.Store(true)
	b, err := r.Build(stack.Op{Kind: "est", Peer: 0, Node: 0, Sess: -1, CP: 0x99, Rules: []stack.RuleOp{{Verb: "create", Kind: "FAR", ID: 77, Action: 2, HasAction: true}}}, 0x7777)
	if err != nil {
		panic(err)
	}
	if err := st.Send(0, b); err != nil {
		panic(err)
	}
	select {
	case <-entered:
	case <-time.After(10 * time.Second):
		return vcore.Violatef("stuck", "real timers: the Establishment never reached the data plane"), stt
	}
	time.Sleep(retrans * time.Duration(c.BusyPct) / 100)
	for i, q := range first {
		if i < len(c.Answer) && c.Answer[i] {
			rsp := message.NewSessionReportResponse(0, 0, q.up, q.seq, 0, ie.NewCause(ie.CauseRequestAccepted))
			if err := st.Send(q.sock, stack.Marshal(rsp)); err != nil {
				panic(err)
			}
			q.answered = true
			if c.BusyPct >= 100 {
				stt.answeredAfterFired++
			}
		}
	}
	release()
	if err := st.Barrier(); err != nil {
		if e, ok := err.(*stack.ErrDead); ok {
			return vcore.Violatef(e.Info.Key, "real timers: UPF fatal exit"), stt
		}
		return vcore.Violatef("stuck", "real timers: %v", err), stt
	}
	// everything sent up to here may be a legitimate copy (the loop had not seen the response yet)
	if x := absorb(false); x != nil {
		return x, stt
	}
	// from now on an answered request must stay silent
	for round := 0; round < int(c.MaxRetrans)+2; round++ {
		time.Sleep(retrans)
		if err := st.Barrier(); err != nil {
			if e, ok := err.(*stack.ErrDead); ok {
				return vcore.Violatef(e.Info.Key, "real timers: UPF fatal exit"), stt
			}
			return vcore.Violatef("stuck", "real timers: %v", err), stt
		}
		if x := absorb(true); x != nil {
			return x, stt
		}
	}
	// every request that was not answered is retransmitted MaxRetrans times and then abandoned, whatever happened to the others
	// meanwhile: wait until the transmit table is empty (a few more timeouts at most), then count
	for extra := 0; extra < 40 && len(st.Srv.VerifTxTable()) > 0; extra++ {
		time.Sleep(retrans)
		if err := st.Barrier(); err != nil {
			if e, ok := err.(*stack.ErrDead); ok {
				return vcore.Violatef(e.Info.Key, "real timers: UPF fatal exit"), stt
			}
			return vcore.Violatef("stuck", "real timers: %v", err), stt
		}
		if x := absorb(true); x != nil {
			return x, stt
		}
	}
	if left := st.Srv.VerifTxTable(); len(left) > 0 {
		var ids []string
		for id := range left {
			ids = append(ids, id)
		}
		return vcore.Violatef("not-released", "real timers (timeout %v, max %d): %d request(s) still in the transmit table %d timeouts after the loop was released: %v (neither retransmitted further nor abandoned)",
			retrans, c.MaxRetrans, len(left), int(c.MaxRetrans)+2+40, ids), stt
	}
	for _, q := range reqs {
		if c.FailPct > 0 {
			continue // copies that could not be sent are not seen here; the bound above and the release below still hold
		}
		if !q.answered && q.copies != int(c.MaxRetrans)+1 {
			return vcore.Violatef("retrans-count", "real timers (timeout %v, max %d): request seq %d to sock %d was never answered and was transmitted %d time(s), want %d", retrans, c.MaxRetrans, q.seq, q.sock, q.copies, int(c.MaxRetrans)+1), stt
		}
	}
	for _, q := range reqs {
		if q.after > 0 {
			return vcore.Violatef("retired-retransmitted", "real timers (timeout %v, max %d): request seq %d to sock %d was answered while the loop was busy past its timer; after the loop had served the response it was retransmitted %d more time(s)",
				retrans, c.MaxRetrans, q.seq, q.sock, q.after), stt
		}
	}
	return nil, stt
}

func genReal(t *rapid.T) RCase {
	c := RCase{
		RetransMs:  rapid.SampledFrom([]int{30, 60}).Draw(t, "retrans_ms"),
		MaxRetrans: uint8(rapid.IntRange(0, 3).Draw(t, "max_retrans")),
		BusyPct:    rapid.SampledFrom([]int{20, 150, 150, 250}).Draw(t, "busy_pct"),
	}
	if rapid.IntRange(0, 2).Draw(t, "fail") == 0 {
		c.FailPct = rapid.SampledFrom([]int{60, 130, 250}).Draw(t, "fail_pct")
	}
	k := rapid.IntRange(1, 5).Draw(t, "k")
	for i := 0; i < k; i++ {
		c.Sess = append(c.Sess, rapid.IntRange(0, 2).Draw(t, "sess"))
		c.Answer = append(c.Answer, rapid.IntRange(0, 3).Draw(t, "answer") != 0)
	}
	return c
}

func accountReal(c RCase, s rstats) {
	vcore.E.Eval()
	vcore.E.Class("real_timers")
	if len(c.Sess) > 64 && c.BusyPct >= 100 {
		vcore.E.Class("real_timers:more_expiries_than_the_timer_queue_holds_while_the_loop_is_busy")
		vcore.E.NonTrivial(vcore.JSON(c))
	}
	if s.failed && c.MaxRetrans > 0 {
		vcore.E.Class("real_timers:retransmissions_attempted_while_the_socket_refused_writes")
		vcore.E.NonTrivial(vcore.JSON(c))
	}
	if s.answeredAfterFired > 0 && c.MaxRetrans > 0 {
		vcore.E.Class("real_timers:response_served_after_timer_fired")
		vcore.E.NonTrivial(vcore.JSON(c))
		vcore.E.Sample("real-timers", c)
	}
}
