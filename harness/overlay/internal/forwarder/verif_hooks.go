//go:build verif

package forwarder

import (
	"net"
	"sync"

	"github.com/khirono/go-nl"
	"github.com/wmnsk/go-pfcp/ie"

	"github.com/free5gc/go-gtp5gnl"
	"github.com/free5gc/go-upf/internal/forwarder/buffnetlink"
	"github.com/free5gc/go-upf/internal/forwarder/perio"
	"github.com/free5gc/go-upf/internal/logger"
	"github.com/free5gc/go-upf/internal/report"
	logger_util "github.com/free5gc/util/logger"
)

// Verification hooks (build tag verif only; add-only, never compiled into the
// product).  They build the real driver around harness-owned netlink
// connections and expose a few unexported entry points.

// VerifNewFlowDesc exposes newFlowDesc (it does not use the receiver).
func VerifNewFlowDesc(s string, swap bool) (nl.AttrList, error) {
	g := &Gtp5g{log: logger.FwderLog.WithField(logger_util.FieldCategory, "Gtp5g")}
	return g.newFlowDesc(s, swap)
}

// VerifNewPdi exposes newPdi, which decides from the PDI's Source Interface
// whether the flow descriptions of its SDF filters are packed exchanged.
func VerifNewPdi(i *ie.IE) (nl.AttrList, error) {
	g := &Gtp5g{log: logger.FwderLog.WithField(logger_util.FieldCategory, "Gtp5g")}
	return g.newPdi(i)
}

// VerifGtp5gOpts describes the simulated environment of a driver instance.
type VerifGtp5gOpts struct {
	Mux      *nl.Mux
	Conn     nl.Conner // request/response connection of the event loop
	PsConn   nl.Conner // request/response connection of the periodic server
	Mcast    nl.Conner // multicast (BUFFER / REPORT) connection; may be nil
	FamilyID int
	LinkIdx  int
	GtpuConn *net.UDPConn // socket re-injected packets are written to; may be nil
}

// VerifNewGtp5g builds a *Gtp5g exactly as OpenGtp5g does, except that the
// netlink sockets and the gtp5g link are supplied by the harness.
func VerifNewGtp5g(wg *sync.WaitGroup, o VerifGtp5gOpts) (*Gtp5g, error) {
	g := &Gtp5g{
		log: logger.FwderLog.WithField(logger_util.FieldCategory, "Gtp5g"),
		mux: o.Mux,
	}
	g.link = &Gtp5gLink{
		mux:  o.Mux,
		link: &gtp5gnl.Link{Name: "upfgtp", Index: o.LinkIdx},
		conn: o.GtpuConn,
		log:  g.log,
	}
	g.client = &gtp5gnl.Client{Client: nl.NewClient(o.Conn, o.Mux), ID: o.FamilyID}
	g.psClient = &gtp5gnl.Client{Client: nl.NewClient(o.PsConn, o.Mux), ID: o.FamilyID}
	if o.Mcast != nil {
		bsnl, err := buffnetlink.VerifNewServer(o.Mux, o.Mcast)
		if err != nil {
			return nil, err
		}
		g.bsnl = bsnl
	}
	ps, err := perio.OpenServer(wg)
	if err != nil {
		return nil, err
	}
	g.ps = ps
	return g, nil
}

// VerifCheckVersion runs the start-up version check against the simulated module.
func (g *Gtp5g) VerifCheckVersion() error { return g.checkVersion() }

// VerifPerio returns the periodic-report server of this driver.
func (g *Gtp5g) VerifPerio() *perio.Server { return g.ps }

// VerifBuff returns the buffering listener of this driver.
func (g *Gtp5g) VerifBuff() *buffnetlink.Server { return g.bsnl }

// VerifPsQueryURR exposes the batched multi-URR query used by the periodic server.
func (g *Gtp5g) VerifPsQueryURR(m map[uint64][]uint32) (map[uint64][]report.USAReport, error) {
	return g.psQueryURR(m)
}

// VerifClose releases what VerifNewGtp5g created: the production Close()
// cannot be used because it dereferences the real link and netlink sockets.
func (g *Gtp5g) VerifClose() {
	if g.bsnl != nil {
		g.bsnl.VerifDetach()
	}
	if g.ps != nil {
		g.ps.Close()
	}
}
