//go:build verif

package perio

import "time"

// VerifTick posts a timer expiry for the given period, as a ticker would.
func (s *Server) VerifTick(period time.Duration) {
	s.evtCh <- Event{eType: TYPE_PERIO_TIMEOUT, period: period}
}

// VerifQueueLen is the number of events not yet taken by the server goroutine.
func (s *Server) VerifQueueLen() int { return len(s.evtCh) }

// VerifQueueCap is the capacity of the event queue.
func (s *Server) VerifQueueCap() int { return cap(s.evtCh) }

// VerifGroups copies period -> seid -> urr ids.  Only meaningful while the
// server goroutine is idle (the harness provides the barrier).
func (s *Server) VerifGroups() map[time.Duration]map[uint64][]uint32 {
	out := map[time.Duration]map[uint64][]uint32{}
	for p, g := range s.perioList {
		m := map[uint64][]uint32{}
		for seid, ids := range g.urrids {
			for id := range ids {
				m[seid] = append(m[seid], id)
			}
		}
		out[p] = m
	}
	return out
}
