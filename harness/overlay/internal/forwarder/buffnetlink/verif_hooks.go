//go:build verif

package buffnetlink

import (
	"github.com/khirono/go-nl"
)

// verifConn remembers the harness connection (the production field is a
// concrete *nl.Conn).
var verifConns = map[*Server]nl.Conner{}

// VerifNewServer registers the real Server as mux handler of a harness-owned
// multicast connection, so notifications arrive on the mux goroutine exactly
// as in production.
func VerifNewServer(mux *nl.Mux, mcast nl.Conner) (*Server, error) {
	s := &Server{mux: mux}
	if err := mux.PushHandler(mcast, s); err != nil {
		return nil, err
	}
	verifConns[s] = mcast
	return s, nil
}

// VerifDetach pops the handler again (before the descriptor is closed).
func (s *Server) VerifDetach() {
	if c, ok := verifConns[s]; ok {
		s.mux.PopHandler(c)
		delete(verifConns, s)
	}
}
