//go:build verif

package pfcp

import (
	"crypto/sha256"
	"encoding/hex"
	"reflect"
	"sort"
	"time"
)

// Verification hooks (build tag verif only; add-only, never compiled into the
// product): read-mostly accessors to the event loop's private state.  They
// are only called while the loop is idle (the harness provides the barrier).

// VerifIdle reports whether no report and no timeout event is queued.
func (s *PfcpServer) VerifIdle() bool {
	return len(s.srCh) == 0 && len(s.trToCh) == 0
}

// VerifQueues returns the lengths of the three loop channels.
func (s *PfcpServer) VerifQueues() (rcv, sr, trTo int) {
	return len(s.rcvCh), len(s.srCh), len(s.trToCh)
}

// VerifFailSends makes every write on the server's UDP socket fail (an expired write deadline: the error path a full device
// queue, a filter or a route flap takes) until it is switched off again.
func (s *PfcpServer) VerifFailSends(on bool) {
	if s.conn == nil {
		return
	}
	if on {
		_ = s.conn.SetWriteDeadline(time.Unix(1, 0))
	} else {
		_ = s.conn.SetWriteDeadline(time.Time{})
	}
}

// VerifSetTxSeq positions the counter used for UPF-initiated requests.
func (s *PfcpServer) VerifSetTxSeq(v uint32) { s.txSeq = v }

func (s *PfcpServer) VerifTxSeq() uint32 { return s.txSeq }

type VerifURR struct {
	Removed bool
	SEQN    uint32
	DURAT   bool
	VOLUM   bool
	EVENT   bool
	MNOP    bool
	Ref     uint16
}

type VerifSess struct {
	LocalID  uint64
	RemoteID uint64
	NodeID   string
	NodeAddr string
	PDRs     map[uint16][]uint32 // related URR ids, sorted
	FARs     []uint32
	QERs     []uint32
	BARs     []uint8
	URRs     map[uint32]VerifURR
	Queues   map[uint16][]string // per PDR: hash of each buffered packet, in order
}

type VerifNode struct {
	ID   string
	Addr string
	Sess []uint64
}

type VerifSnapshot struct {
	Nodes    map[string]VerifNode
	Sess     map[uint64]VerifSess
	Free     []uint64
	TableLen int
}

func verifU32s(m map[uint32]struct{}) []uint32 {
	out := make([]uint32, 0, len(m))
	for k := range m {
		out = append(out, k)
	}
	sort.Slice(out, func(i, j int) bool { return out[i] < out[j] })
	return out
}

func verifSess(sess *Sess) VerifSess {
	v := VerifSess{
		LocalID:  sess.LocalID,
		RemoteID: sess.RemoteID,
		PDRs:     map[uint16][]uint32{},
		FARs:     verifU32s(sess.FARIDs),
		QERs:     verifU32s(sess.QERIDs),
		URRs:     map[uint32]VerifURR{},
		Queues:   map[uint16][]string{},
	}
	if sess.rnode != nil {
		v.NodeID = sess.rnode.ID
		if sess.rnode.addr != nil {
			v.NodeAddr = sess.rnode.addr.String()
		}
	}
	for id, info := range sess.PDRIDs {
		v.PDRs[id] = verifU32s(info.RelatedURRIDs)
	}
	for id := range sess.BARIDs {
		v.BARs = append(v.BARs, id)
	}
	sort.Slice(v.BARs, func(i, j int) bool { return v.BARs[i] < v.BARs[j] })
	for id, u := range sess.URRIDs {
		// bookkeeping details are read by name: a refactoring that drops one of them must not break the harness build
		v.URRs[id] = VerifURR{
			Removed: verifBool(u, "removed"), SEQN: u.SEQN,
			DURAT: u.DURAT, VOLUM: u.VOLUM, EVENT: u.EVENT, MNOP: u.MNOP,
			Ref: uint16(verifUint(u, "refPdrNum")),
		}
	}
	// the queues are read through a type switch: a refactoring that changes their representation (a slice instead of a
	// channel, say) must not break the harness build
	switch qs := any(sess.q).(type) {
	case map[uint16]chan []byte:
		for id, q := range qs {
			// peek without reordering: drain and refill (loop is idle)
			n := len(q)
			var hs []string
			for i := 0; i < n; i++ {
				select {
				case p, ok := <-q:
					if !ok {
						i = n
						break
					}
					h := sha256.Sum256(p)
					hs = append(hs, hex.EncodeToString(h[:6]))
					q <- p
				default:
					i = n
				}
			}
			if len(hs) > 0 {
				v.Queues[id] = hs
			}
		}
	case map[uint16][][]byte:
		for id, q := range qs {
			var hs []string
			for _, p := range q {
				h := sha256.Sum256(p)
				hs = append(hs, hex.EncodeToString(h[:6]))
			}
			if len(hs) > 0 {
				v.Queues[id] = hs
			}
		}
	}
	return v
}

// VerifSnapshot deep-copies node table, session table and free list.
func (s *PfcpServer) VerifSnapshot() VerifSnapshot {
	snap := VerifSnapshot{
		Nodes:    map[string]VerifNode{},
		Sess:     map[uint64]VerifSess{},
		TableLen: len(s.lnode.sess),
	}
	snap.Free = append(snap.Free, s.lnode.free...)
	for id, n := range s.rnodes {
		vn := VerifNode{ID: n.ID}
		if n.addr != nil {
			vn.Addr = n.addr.String()
		}
		for seid := range n.sess {
			vn.Sess = append(vn.Sess, seid)
		}
		sort.Slice(vn.Sess, func(i, j int) bool { return vn.Sess[i] < vn.Sess[j] })
		snap.Nodes[id] = vn
	}
	for _, sess := range s.lnode.sess {
		if sess == nil {
			continue
		}
		snap.Sess[sess.LocalID] = verifSess(sess)
	}
	return snap
}

type VerifTx struct {
	ID       string
	Addr     string
	Seq      uint32
	Retrans  uint8
	Bytes    []byte
	HasTimer bool
}

type VerifRx struct {
	ID       string
	Addr     string
	Seq      uint32
	Bytes    []byte
	HasTimer bool
}

func (s *PfcpServer) VerifTxTable() map[string]VerifTx {
	out := map[string]VerifTx{}
	for k, tx := range s.txTrans {
		out[k] = VerifTx{ID: tx.id, Addr: tx.raddr.String(), Seq: tx.seq, Retrans: tx.retransCount,
			Bytes: append([]byte(nil), tx.msgBuf...), HasTimer: tx.timer != nil}
	}
	return out
}

func (s *PfcpServer) VerifRxTable() map[string]VerifRx {
	out := map[string]VerifRx{}
	for k, rx := range s.rxTrans {
		out[k] = VerifRx{ID: rx.id, Addr: rx.raddr.String(), Seq: rx.seq,
			Bytes: append([]byte(nil), rx.msgBuf...), HasTimer: rx.timer != nil}
	}
	return out
}

// verifBool / verifUint read an unexported field of a struct pointer by name (false / 0 when there is no such field).
func verifBool(p any, name string) bool {
	f := reflect.ValueOf(p).Elem().FieldByName(name)
	return f.IsValid() && f.Kind() == reflect.Bool && f.Bool()
}

func verifUint(p any, name string) uint64 {
	f := reflect.ValueOf(p).Elem().FieldByName(name)
	if !f.IsValid() {
		return 0
	}
	switch f.Kind() {
	case reflect.Uint, reflect.Uint8, reflect.Uint16, reflect.Uint32, reflect.Uint64:
		return f.Uint()
	case reflect.Int, reflect.Int8, reflect.Int16, reflect.Int32, reflect.Int64:
		return uint64(f.Int())
	}
	return 0
}
