#!/bin/sh
# dev helper: build the scratch copy once under /tmp/vdev and run go test with given args
export GOFLAGS=-mod=mod GOPROXY=off GOSUMDB=off GOTOOLCHAIN=local
D=/tmp/vdev/upf
mkdir -p /tmp/vdev
rsync -a --delete --exclude .git /repo/ $D/
cp -r /verif/harness/overlay/. $D/
rm -rf $D/internal/verif && cp -r /verif/harness/verif $D/internal/verif
cd $D && go mod edit -require=pgregory.net/rapid@v1.3.0 && go test -vet=off -tags verif -count=1 "$@"
