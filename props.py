# Per-property run configuration for /verif/check.
# pkg: harness package under harness/verif; run: -test.run regexp;
# shards: processes in the thorough tier; timeouts in seconds (budget hit = exit 2);
# net: second octet of the loopback subnet the check binds (127.<net>.<x>.<y>).
PROPS = {
    "C14": dict(pkg="c14", run="^TestC14$", shards=4, timeout_quick=300, timeout_thorough=1500, net=114),
    "C19": dict(pkg="c19", run="^TestC19$", shards=8, timeout_quick=300, timeout_thorough=1500, net=119),
    "C16": dict(pkg="c16", run="^TestC16$", shards=8, timeout_quick=300, timeout_thorough=1500, net=116,
                fuzz=[dict(target="FuzzC16", time="60s")]),
    "C01": dict(pkg="c01", run="^TestC01$", shards=8, timeout_quick=600, timeout_thorough=2400, net=101),
    "C04": dict(pkg="c04", run="^TestC04$", shards=8, timeout_quick=600, timeout_thorough=2400, net=104),
    "C05": dict(pkg="c05", run="^TestC05$", shards=8, timeout_quick=600, timeout_thorough=2400, net=105),
    "C08": dict(pkg="c08", run="^TestC08$", shards=8, timeout_quick=600, timeout_thorough=2400, net=108),
    "C06": dict(pkg="c06", run="^TestC06$", shards=8, timeout_quick=600, timeout_thorough=2400, net=106),
    "C09": dict(pkg="c09", run="^TestC09$", shards=8, timeout_quick=600, timeout_thorough=2400, net=109),
    "C11": dict(pkg="c11", run="^TestC11$", shards=8, timeout_quick=600, timeout_thorough=2400, net=111),
    "C12": dict(pkg="c12", run="^TestC12$", shards=8, timeout_quick=600, timeout_thorough=2400, net=112),
    "C02": dict(pkg="c02", run="^TestC02$", shards=8, timeout_quick=600, timeout_thorough=2400, net=102),
    "C03": dict(pkg="c03", run="^TestC03$", shards=8, timeout_quick=600, timeout_thorough=2400, net=103),
    "C15": dict(pkg="c15", run="^TestC15$", shards=8, timeout_quick=600, timeout_thorough=2400, net=115),
    "C20": dict(pkg="c20", run="^TestC20$", shards=4, timeout_quick=600, timeout_thorough=2400, net=120),
    "C10": dict(pkg="c10", run="^TestC10$", shards=8, timeout_quick=600, timeout_thorough=2400, net=110),
    "C13": dict(pkg="c13", run="^TestC13$", shards=8, timeout_quick=900, timeout_thorough=3000, net=113),
    "C07": dict(pkg="c07", run="^TestC07$", shards=8, timeout_quick=900, timeout_thorough=3000, net=107,
                fuzz=[dict(target="FuzzC07", time="150s")]),
    "C18": dict(pkg="c18", run="^TestC18$", shards=8, timeout_quick=1200, timeout_thorough=3000, net=118),
    "C17": dict(pkg="c17", run="^TestC17$", shards=8, timeout_quick=1200, timeout_thorough=3000, net=117,
                extra_builds=[dict(pkg="c17", out="c17race.test", flags=["-race"])]),
}
