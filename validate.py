#!/usr/bin/env python3
"""Validate MANIFEST.json and evidence files against the schemas (uses the tooling venv if needed)."""
import json, glob, sys
try:
    import jsonschema
except ImportError:
    sys.exit("run with python3-vt")
ok = True
ms = json.load(open('/root/.vp/MANIFEST.schema.json'))
es = json.load(open('/root/.vp/EVIDENCE.schema.json'))
try:
    jsonschema.validate(json.load(open('/verif/MANIFEST.json')), ms); print("MANIFEST ok")
except Exception as e:
    ok = False; print("MANIFEST INVALID", e)
for f in sorted(glob.glob('/verif/evidence/*.json')):
    try:
        jsonschema.validate(json.load(open(f)), es); print(f, "ok")
    except Exception as e:
        ok = False; print(f, "INVALID", str(e)[:300])
sys.exit(0 if ok else 1)
