#!/bin/sh
# runall.sh [tier] [seed]: run every registered check once, summarise
TIER=${1:-quick}; SEED=${2:-1}
cd "$(dirname "$0")"
for id in $(python3 -c "
import sys; sys.path.insert(0,'.')
from props import PROPS
print(' '.join(sorted(PROPS)))"); do
  s=$(date +%s)
  VERIF_SEED=$SEED ./check $id --tier $TIER >/tmp/runall.$id.out 2>/tmp/runall.$id.err; rc=$?
  e=$(date +%s)
  echo "$id rc=$rc $((e-s))s $(tail -1 /tmp/runall.$id.err | cut -c1-150)"
done
