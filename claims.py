# What each registered check claims (feeds MANIFEST.json via mkmanifest.py).
CLAIMS = {
    "C14": dict(
        level="exploration",
        design_ref="DESIGN.md 3/C14",
        technique="exhaustive enumeration + rapid random inputs against an independent reference GTP-U decoder",
        text="The finite core of the quantifier (all QFI x PDU type x with/without container, boundary payload lengths and TEIDs) is enumerated completely and every packet is parsed by an independently written TS 29.281/38.415 decoder; random TEIDs and payloads up to 9000 bytes extend it. Exhaustive over the header-shaping inputs, sampled over payload bytes.",
        note="Trusts the reference decoder written from the specifications; header form fixed to flags 0x34 as emitted by the UPF.",
    ),
}
PENDING = {}
