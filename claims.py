# What each registered check claims (feeds MANIFEST.json via mkmanifest.py).
CLAIMS = {
    "C14": dict(
        level="exploration",
        design_ref="DESIGN.md 3/C14",
        technique="exhaustive enumeration + rapid random inputs against an independent reference GTP-U decoder",
        text="The finite core of the quantifier (all QFI x PDU type x with/without container, boundary payload lengths and TEIDs) is enumerated completely and every packet is parsed by an independently written TS 29.281/38.415 decoder; random TEIDs and payloads up to 9000 bytes extend it. Exhaustive over the header-shaping inputs, sampled over payload bytes.",
        note="Trusts the reference decoder written from the specifications; header form fixed to flags 0x34 as emitted by the UPF.",
    ),
    "C19": dict(
        level="exploration",
        design_ref="DESIGN.md 3/C19",
        technique="exhaustive enumeration of flag words against a table transcribed from TS 29.244 (cross-checked with go-pfcp accessors)",
        text="Every apply-action value in 1/2-octet form, every 2-octet and (thorough) every 3-octet reporting-trigger value, all usage-report-trigger bits/pairs, all cause mappings and all volume-measurement flag subsets are enumerated; each accessor, exported constant and re-encoded IE is compared with an octet/bit table transcribed from the specification. Exhaustive over the stated finite domain; the table itself is validated against go-pfcp's independent accessors at start-up.",
        note="Trusts the transcribed table and go-pfcp's Has*() accessors (used only for cross-checking the table; go-upf does not use them).",
    ),
    "C16": dict(
        level="exploration",
        design_ref="DESIGN.md 3/C16",
        technique="grammar-based generation + near-miss mutation against an independent reference parser and a decode round trip (rapid)",
        text="Rules are generated from the IPFilterRule grammar with boundary-biased addresses, prefixes, ports and spacing; ParseFlowDesc must agree with a reference parser written from the statement, and the netlink attributes produced by newFlowDesc must decode (gtp5gnl.DecodeFlowDesc) to the same filter, exchanged for uplink. Near-miss and arbitrary strings must not fault. Random sampling of an infinite input space.",
        note="Trusts the reference parser and go-gtp5gnl's DecodeFlowDesc; any/assigned denote 0.0.0.0/0; port n equals range n-n.",
    ),
}
PENDING = {}
