# What each registered check claims (feeds MANIFEST.json via mkmanifest.py).
CLAIMS = {
    "C14": dict(
        level="exploration",
        design_ref="DESIGN.md 3/C14",
        technique="exhaustive enumeration + rapid random inputs against an independent reference GTP-U decoder",
        text="The finite core of the quantifier (all QFI x PDU type x with/without container, boundary payload lengths and TEIDs) is enumerated completely and every packet is parsed by an independently written TS 29.281/38.415 decoder; random TEIDs and payloads up to 9000 bytes extend it. Exhaustive over the header-shaping inputs, sampled over payload bytes.",
        note="Trusts the reference decoder written from the specifications; header form fixed to flags 0x34 as emitted by the UPF.",
    ),
    "C19": dict(
        level="exploration",
        design_ref="DESIGN.md 3/C19",
        technique="exhaustive enumeration of flag words against a table transcribed from TS 29.244 (cross-checked with go-pfcp accessors)",
        text="Every apply-action value in 1/2-octet form, every 2-octet and (thorough) every 3-octet reporting-trigger value, all usage-report-trigger bits/pairs, all cause mappings and all volume-measurement flag subsets are enumerated; each accessor, exported constant and re-encoded IE is compared with an octet/bit table transcribed from the specification. Exhaustive over the stated finite domain; the table itself is validated against go-pfcp's independent accessors at start-up.",
        note="Trusts the transcribed table and go-pfcp's Has*() accessors (used only for cross-checking the table; go-upf does not use them).",
    ),
    "C16": dict(
        level="exploration",
        design_ref="DESIGN.md 3/C16",
        technique="grammar-based generation + near-miss mutation against an independent reference parser and a decode round trip (rapid)",
        text="Rules are generated from the IPFilterRule grammar with boundary-biased addresses, prefixes, ports and spacing; ParseFlowDesc must agree with a reference parser written from the statement, and the netlink attributes produced by newFlowDesc must decode (gtp5gnl.DecodeFlowDesc) to the same filter, exchanged for uplink. Near-miss and arbitrary strings must not fault. Random sampling of an infinite input space.",
        note="Trusts the reference parser and go-gtp5gnl's DecodeFlowDesc; any/assigned denote 0.0.0.0/0; port n equals range n-n.",
    ),
    "C01": dict(
        level="fault_enumeration",
        design_ref="DESIGN.md 3/C01",
        technique="rapid-generated PFCP histories x exhaustive single-fault positions (fail-before/fail-after) against a reference model of the data plane",
        text="Each generated history is executed against the real PfcpServer through its UDP socket with a model data plane, once fault-free and once for every position of a create/update/query call in its data-plane call stream in two failure modes; after every message the model data plane is compared with the reference sets of requested/removed rules. Fault positions are enumerated completely per history; histories are sampled.",
        note="Model data plane with kernel EEXIST/ENOENT semantics stands in for gtp5g; removes do not fail by injection; go-pfcp codecs trusted.",
    ),
    "C04": dict(
        level="exploration",
        design_ref="DESIGN.md 3/C04",
        technique="rapid stateful histories with SEID-class probes against a reference model of the SEID space",
        text="Generated histories drive the session table through growth, holes and reuse across three nodes; Modification/Deletion requests and data-plane reports probe SEIDs of every class (0, live, released, beyond the table, around 2^63, 2^64-1, random). Responses, data-plane calls and the server's session table are compared with a reference model after every step.",
        note="Model data plane; in-package read-only snapshot accessor (build tag verif) for the frame condition; go-pfcp codecs trusted.",
    ),
    "C05": dict(
        level="exploration",
        design_ref="DESIGN.md 3/C05",
        technique="rapid stateful histories with a frame-condition oracle over server snapshot and model data plane",
        text="Histories with coinciding rule ids and CP SEIDs over several nodes and sessions, with reports, re-association, SEID-0 answers and takeover; before/after every message everything belonging to sessions the message does not address must be deep-equal, calls must carry the addressed SEID, and bulk removals must hit exactly the owning node's sessions.",
        note="Ownership after takeover onto an existing node id is ambiguous and only bounded (must/forbid sets), not asserted exactly; CP SEIDs unique per peer.",
    ),
    "C08": dict(
        level="exploration",
        design_ref="DESIGN.md 3/C08",
        technique="rapid stateful histories with request/response correlation and no-trace oracles",
        text="Every request kind from associated and never-associated sockets, including requests lacking Node ID / F-SEID, unknown nodes and SEIDs, equal CP SEIDs across peers; each answer is checked for destination socket, sequence number, type, header SEID, cause and Establishment Response content, rejected or unanswered requests must leave snapshot and data plane unchanged, recovery time stamps must be identical (one scenario spans a full second).",
        note="Model data plane; loopback UDP delivery is synchronous, absence of an answer is observed after a heartbeat barrier.",
    ),
}
PENDING = {}
