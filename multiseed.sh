#!/bin/sh
# multiseed.sh <tier> <seed>...: run every check at each seed, print only what is not rc=0
TIER=$1; shift
cd "$(dirname "$0")"
for s in "$@"; do
  ./runall.sh $TIER $s | awk -v s=$s '{ if ($2 != "rc=0") print "seed", s, $0; n++ } END { print "seed", s, "done", n, "checks" }'
done
