#!/usr/bin/env python3
"""Regenerates MANIFEST.json from props.py + claims.py (kept valid at all times)."""
import json, os, sys
here = os.path.dirname(os.path.abspath(__file__))
sys.path.insert(0, here)
from props import PROPS
from claims import CLAIMS, PENDING

ids = [json.loads(l)["id"] for l in open(os.path.join(here, "properties.jsonl"))]
checks = []
na = []
for pid in ids:
    if pid in PROPS and pid in CLAIMS:
        c = CLAIMS[pid]
        checks.append({
            "property_id": pid,
            "quick_cmd": "./check %s --tier quick" % pid,
            "thorough_cmd": "./check %s --tier thorough" % pid,
            "evidence_file": "evidence/%s.json" % pid,
            "replay_cmd_template": "./check %s --replay {path}" % pid,
            "engine": "go-harness",
            "level_claimed": {"category": c["level"], "text": c["text"], "design_ref": c["design_ref"]},
            "level_note": c["note"],
            "technique": c["technique"],
        })
    else:
        na.append({"property_id": pid, "reason": PENDING.get(pid, "check not built yet; see DESIGN.md section 3 for the planned generator and oracle")})
m = {
    "version": 1,
    "setup_cmd": "./setup.sh",
    "hooks": {
        "guard": "verif",
        "enable": "checks rsync /repo's working tree to a scratch directory, copy the add-only files under /verif/harness/overlay (all '//go:build verif') and the harness packages into it and build with 'go test -c -tags verif'; nothing is committed to /repo for hooks",
        "baseline_off_cmd": "cd /repo && go test -vet=off -count=1 -timeout 25m ./...",
        "source_commits": [],
        "add_only": True,
    },
    "engines": [{
        "name": "go-harness",
        "path": "harness/verif",
        "serves_properties": [c["property_id"] for c in checks],
        "kind_free_text": "pgregory.net/rapid v1.3.0 property-based tests (random + shrinking), small-scope exhaustive enumeration and native go fuzzing, run against a scratch copy of the working tree; driver ./check",
    }],
    "checks": checks,
    "notes": "exit 2 = inconclusive (build error / budget), never a violation. known_findings.json lists recorded and fixed defects.",
    "not_applicable": na,
}
json.dump(m, open(os.path.join(here, "MANIFEST.json"), "w"), indent=1)
print("claimed:", [c["property_id"] for c in checks], "pending:", [n["property_id"] for n in na])
